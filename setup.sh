#!/bin/bash
# Offline installation of the third-party packages the checks need, beside the
# repository's interpreter (/venv is left untouched): scipy, icontract, jsonschema.
set -e
cd "$(dirname "$0")"
DEPS="$PWD/.deps"
if [ ! -f "$DEPS/.ok" ]; then
  exec 9>"$PWD/.deps.lock"
  flock 9
  if [ ! -f "$DEPS/.ok" ]; then
    rm -rf "$DEPS"
    PIP_NO_INDEX=1 /venv/bin/python -m pip install --quiet --no-index \
      --find-links /opt/veriftools/wheels --target "$DEPS" \
      scipy icontract jsonschema >/dev/null 2>"$PWD/.deps.err" || { cat "$PWD/.deps.err" >&2; exit 3; }
    # numpy comes along as a dependency of scipy; keep /venv's numpy (torch was built with it)
    rm -rf "$DEPS"/numpy "$DEPS"/numpy-* "$DEPS"/numpy.libs 2>/dev/null || true
    touch "$DEPS/.ok"
  fi
fi
PYTHONPATH="$PWD:$DEPS" /venv/bin/python -c "import scipy.linalg, icontract, jsonschema, torch, torchtree" 
