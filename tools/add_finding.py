#!/usr/bin/env python3
"""tools/add_finding.py <property> <key> <status: fixed|known> <commit or -> <witness> <what...>: append an entry to known_findings.json"""
import json
import os
import sys

HERE = os.path.dirname(os.path.dirname(os.path.abspath(__file__)))
prop, key, status, commit, witness = sys.argv[1:6]
what = " ".join(sys.argv[6:])
p = os.path.join(HERE, "known_findings.json")
d = json.load(open(p))
assert not any(e["key"] == key for e in d), "key exists"
e = {"property": prop, "key": key, "status": status, "what": ("fixed: property=%s %s %s" % (prop, commit, what)) if status == "fixed" else what, "witness": witness}
if status == "fixed":
    e["commit"] = commit
d.append(e)
json.dump(d, open(p, "w"), indent=1)
print("added", key)
