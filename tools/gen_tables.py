#!/usr/bin/env python3
"""tools/gen_tables.py [--write] -> markdown tables for DESIGN.md: dispositions (known_findings.json) and seeded changes (seeded/*/meta.json)"""
import glob
import io
import json
import os
import re
import sys

HERE = os.path.dirname(os.path.dirname(os.path.abspath(__file__)))
WRITE = "--write" in sys.argv
if WRITE:
    _out, sys.stdout = sys.stdout, io.StringIO()
k = json.load(open(os.path.join(HERE, "known_findings.json")))
print("#### Repaired (`fix:` commits in /repo, one defect each; `fixed` entries suppress nothing)\n")
print("| property | commit | what failed (the check that reported it now passes without a KNOWN-FINDING line) |")
print("|---|---|---|")
for e in k:
    if e["status"] == "fixed":
        w = e["what"].split(e.get("commit", "") + " ", 1)[-1] if e.get("commit") else e["what"]
        print("| %s | `%s` | %s |" % (e["property"], e.get("commit", ""), w.replace("|", "\\|")))
print("\n#### Recorded (`known` entries: genuine, reproduced against the real code, not repaired)\n")
print("| property | signature (mechanism) | what fails |")
print("|---|---|---|")
for e in k:
    if e["status"] == "known":
        print("| %s | `%s` | %s |" % (e["property"], e["key"][:110], (e["what"][:330] + ("…" if len(e["what"]) > 330 else "")).replace("|", "\\|").replace("\n", " ")))
print("\n#### Seeded changes\n")
print("| seeded change | file | trigger | first run | caught by (quick tier) | first signatures | strengthening (when first missed) |")
print("|---|---|---|---|---|---|---|")
for d in sorted(glob.glob(os.path.join(HERE, "seeded", "*"))):
    mp = os.path.join(d, "meta.json")
    if not os.path.exists(mp):
        continue
    m = json.load(open(mp))
    caught = []
    sigs = []
    for p, v in sorted(m.get("checks", {}).items()):
        for t, o in v.items():
            if o["exit"] == 1:
                caught.append(p if t == "quick" else "%s (%s)" % (p, t))
                sigs += o["signatures"][:2]
                break
    print("| %s | %s | %s | %s | %s | %s | %s |" % (os.path.basename(d), ", ".join(os.path.basename(f) for f in m.get("files", [])), m.get("trigger", "")[:160].replace("|", "\\|").replace("\n", " "),
                                   m.get("first_run", "?"), ("no longer a violation (neutralised by a repair)" if m.get("neutralised") else (", ".join(caught) or "**missed**")), "; ".join("`%s`" % s[:60] for s in sigs[:2]), m.get("strengthening", "")))

if WRITE:
    text, sys.stdout = sys.stdout.getvalue(), _out
    p = os.path.join(HERE, "DESIGN.md")
    d = open(p).read()
    d = re.sub(r"<!-- TABLES:BEGIN -->.*?<!-- TABLES:END -->", lambda m: "<!-- TABLES:BEGIN -->\n" + text + "\n<!-- TABLES:END -->", d, flags=re.S)
    open(p, "w").write(d)
    print("DESIGN.md tables rewritten")
