#!/bin/bash
# tools/mutant.sh <patch-file|-e 'sed-expr' file> -- <property> [<property>...]
# Applies a change to a scratch copy of /repo (in /dev/shm), runs the quick tier of the given checks against it
# (VERIF_REPO), prints the verdicts and removes the copy.  Never touches /repo.  Evidence is not written.
set -u
HERE="$(cd "$(dirname "$0")/.." && pwd)"
SCR=$(mktemp -d /dev/shm/vt-mut-XXXXXX)
trap 'rm -rf "$SCR"' EXIT
rsync -a --exclude .git --exclude '*.pyc' --exclude __pycache__ /repo/ "$SCR/"
if [ "$1" = "-e" ]; then
  sed -i -E "$2" "$SCR/$3" || exit 9
  if diff -q "$SCR/$3" "/repo/$3" >/dev/null; then echo "MUTANT-NOOP"; exit 9; fi
  shift 3
else
  (cd "$SCR" && patch -p1 -s < "$1") || { echo "PATCH-FAILED"; exit 9; }
  shift 1
fi
[ "$1" = "--" ] && shift
if [ "${RUN_TESTS:-0}" = "1" ]; then
  (cd "$SCR" && /venv/bin/python -m pytest -q -x -p no:cacheprovider --timeout=900 2>&1 | tail -3)
fi
for P in "$@"; do
  VERIF_REPLAY_DIR="$SCR/.replays" VERIF_REPO="$SCR" "$HERE/check" "$P" --tier "${TIER:-quick}" --no-evidence 2>&1 | grep -E "^(VIOLATION|INCONCLUSIVE|SUMMARY|KNOWN)" | cut -c1-400
  echo "exit=${PIPESTATUS[0]}"
done
