#!/bin/bash
# tools/import_seeds.sh Cxx : copy the sub-agent's outputs /tmp/seed_out/Cxx/m* into /verif/seeded/<Cxx>-<name>/
P=$1
for d in /tmp/seed_out/$P/m*; do
  [ -f "$d/meta.json" ] || continue
  name=$(python3 -c "import json,sys,re; print(re.sub(r'[^a-z0-9-]+','-',json.load(open('$d/meta.json'))['name'].lower())[:60])")
  t=/verif/seeded/$P-$name
  mkdir -p $t && cp $d/patch.diff $d/demo.py $d/meta.json $t/
  echo $t
done
