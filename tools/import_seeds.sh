#!/bin/bash
# tools/import_seeds.sh Cxx [outroot=/tmp/seed_out] [tag=]: copy a sub-agent's outputs <outroot>/Cxx/m* into /verif/seeded/<Cxx>-<tag><name>/
P=$1; ROOT=${2:-/tmp/seed_out}; TAG=${3:-}
for d in $ROOT/$P/m*; do
  [ -f "$d/meta.json" ] || continue
  name=$(python3 -c "import json,sys,re; print(re.sub(r'[^a-z0-9-]+','-',json.load(open('$d/meta.json'))['name'].lower())[:60])")
  t=/verif/seeded/$P-$TAG$name
  mkdir -p $t && cp $d/patch.diff $d/demo.py $d/meta.json $t/
  echo $t
done
