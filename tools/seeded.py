#!/usr/bin/env python3
"""tools/seeded.py confirm <dir>...      confirm a seeded change (patch applies, demo 0 on /repo and 1 on the patched copy,
                                         the repository's tests still pass) and record that in meta.json
   tools/seeded.py run [--tier quick|thorough|both] [--props Cxx,Cyy] <dir>...
                                         run the registered checks against the change and record the verdicts

Everything happens in a scratch copy of /repo under /dev/shm which is removed afterwards (VERIF_REPO points the checks
at it).  /repo is never touched.  `tools/seeded.py run --in-repo` uses `git -C /repo apply` / `git checkout -- .` instead."""
import argparse
import json
import os
import re
import shutil
import subprocess
import sys
import tempfile

HERE = os.path.dirname(os.path.dirname(os.path.abspath(__file__)))
PY = "/venv/bin/python"


def scratch(patch):
    d = tempfile.mkdtemp(prefix="vt-seed-", dir="/dev/shm")
    subprocess.run(["rsync", "-a", "--exclude", ".git", "--exclude", "*.pyc", "--exclude", "__pycache__", "/repo/", d + "/"], check=True)
    r = subprocess.run(["patch", "-p1", "-s", "-i", patch], cwd=d, capture_output=True, text=True)
    if r.returncode != 0:
        shutil.rmtree(d)
        raise SystemExit("patch failed: %s\n%s" % (patch, r.stdout + r.stderr))
    return d


def demo(d, script):
    env = dict(os.environ, PYTHONPATH=d, PYTHONHASHSEED="0", OMP_NUM_THREADS="2")
    env.pop("TORCHTREE_VERIF", None)
    r = subprocess.run([PY, script], cwd=d, env=env, capture_output=True, text=True, timeout=1800)
    return r.returncode, (r.stdout + r.stderr)[-1500:]


def confirm(sd):
    sd = os.path.abspath(sd)
    meta = json.load(open(os.path.join(sd, "meta.json")))
    patch, script = os.path.join(sd, "patch.diff"), os.path.join(sd, "demo.py")
    d = scratch(patch)
    try:
        e0, out0 = demo("/repo", script)
        e1, out1 = demo(d, script)
        env = dict(os.environ)
        env.pop("TORCHTREE_VERIF", None)
        t = subprocess.run([PY, "-m", "pytest", "-q", "-p", "no:cacheprovider", "--timeout=900"], cwd=d, env=env, capture_output=True, text=True)
        line = [l for l in t.stdout.splitlines() if re.search(r"\d+ (passed|failed)", l)]
        meta["confirmed"] = {"demo_on_repo_exit": e0, "demo_on_patched_exit": e1, "tests": line[-1].strip() if line else t.stdout[-200:], "tests_exit": t.returncode,
                             "ok": e0 == 0 and e1 == 1 and t.returncode == 0}
        meta["demo_output_patched"] = out1[-800:]
    finally:
        shutil.rmtree(d)
    json.dump(meta, open(os.path.join(sd, "meta.json"), "w"), indent=1)
    print(sd, json.dumps(meta["confirmed"]))
    return meta["confirmed"]["ok"]


def run_check(prop, tier, env):
    r = subprocess.run([os.path.join(HERE, "check"), prop, "--tier", tier, "--no-evidence"], env=env, capture_output=True, text=True)
    sigs = sorted(set(re.findall(r"^VIOLATION property=\S+ replay=\S+ (?:sig=)?(\S+)", r.stdout, re.M)))
    summ = [l for l in r.stdout.splitlines() if l.startswith("SUMMARY")]
    return {"exit": r.returncode, "signatures": sigs[:12], "n_signatures": len(sigs), "summary": summ[-1][:300] if summ else r.stdout[-300:]}


def run(sd, tier, props, in_repo):
    sd = os.path.abspath(sd)
    meta = json.load(open(os.path.join(sd, "meta.json")))
    patch = os.path.abspath(os.path.join(sd, "patch.diff"))
    props = props or [meta["property"]]
    res = meta.setdefault("checks", {})
    if in_repo:
        subprocess.run(["git", "-C", "/repo", "apply", patch], check=True)
        d, env = None, dict(os.environ)
    else:
        d = scratch(patch)
        env = dict(os.environ, VERIF_REPO=d, VERIF_REPLAY_DIR=os.path.join(d, ".replays"))
    try:
        for p in props:
            tiers = ["quick", "thorough"] if tier == "both" else [tier]
            for t in tiers:
                out = run_check(p, t, env)
                res.setdefault(p, {})[t] = out
                print(sd, p, t, "exit=%d" % out["exit"], out["signatures"][:3])
                if tier == "both" and out["exit"] == 1:
                    break
    finally:
        if in_repo:
            subprocess.run(["git", "-C", "/repo", "checkout", "--", "."], check=True)
        else:
            shutil.rmtree(d)
    meta["caught_by"] = sorted(p for p, v in res.items() if any(o["exit"] == 1 for o in v.values()))
    json.dump(meta, open(os.path.join(sd, "meta.json"), "w"), indent=1)


if __name__ == "__main__":
    ap = argparse.ArgumentParser()
    ap.add_argument("cmd", choices=["confirm", "run"])
    ap.add_argument("dirs", nargs="+")
    ap.add_argument("--tier", default="both")
    ap.add_argument("--props", default="")
    ap.add_argument("--in-repo", action="store_true")
    a = ap.parse_args()
    ok = True
    for sd in a.dirs:
        try:
            if a.cmd == "confirm":
                ok &= confirm(sd)
            else:
                run(sd, a.tier, [p for p in a.props.split(",") if p], a.in_repo)
        except SystemExit as e:  # a patch that no longer applies: reported, the others still run
            print(sd, "SKIPPED:", str(e).splitlines()[0])
            ok = False
    sys.exit(0 if ok else 1)
