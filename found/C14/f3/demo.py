"""C14: a variational distribution whose parameters are scalars (the documented JSON
form "parameters": {"concentration": 3.5, "rate": 2.0}, i.e. 0-dimensional tensors)
loses the last dimension of its variable when it is sampled.

The variable z has shape [1].  log_prob broadcasts the scalar parameters against z
(value of shape [1], or [S,1] for S draws).  rsample/sample, however, draw from the
unexpanded distribution and write a tensor of shape [S] into z: the draws now sit in
what the library treats as the (summed) last dimension, every term of p and q declares
an empty sample shape, JointDistributionModel adds the S draws up and the objectives
return S * log Z (one observation), or raise / pair draw i with observation i
(several observations).  Written with one-element lists instead of numbers the very
same model gives log Z.
"""
import math
import sys

import torch

torch.set_default_dtype(torch.float64)

import torchtree.distributions.joint_distribution  # noqa: E402,F401 (registers types)
import torchtree.variational.chi  # noqa: E402,F401
import torchtree.variational.kl  # noqa: E402,F401
import torchtree.variational.renyi  # noqa: E402,F401
from torchtree.core.utils import process_object  # noqa: E402

lg = math.lgamma
a, b = 2.5, 1.3


def build(kind, yv, scalar, samples, extra=None):
    n, s = len(yv), sum(yv)
    dic = {}
    dic['z'] = process_object({'id': 'z', 'type': 'Parameter', 'tensor': [1.0]}, dic)
    if scalar:
        q_par = {'concentration': a + n, 'rate': b + s}
    else:
        q_par = {
            'concentration': {'id': 'qa', 'type': 'Parameter', 'tensor': [a + n]},
            'rate': {'id': 'qb', 'type': 'Parameter', 'tensor': [b + s]},
        }
    spec = {
        'id': 'objective',
        'type': kind,
        'samples': samples,
        'joint': {
            'id': 'p',
            'type': 'JointDistributionModel',
            'distributions': [
                {
                    'id': 'lik',
                    'type': 'Distribution',
                    'distribution': 'torch.distributions.Exponential',
                    'x': {'id': 'y', 'type': 'Parameter', 'tensor': yv},
                    'parameters': {'rate': 'z'},
                },
                {
                    'id': 'prior',
                    'type': 'Distribution',
                    'distribution': 'torch.distributions.Gamma',
                    'x': 'z',
                    'parameters': {'concentration': a, 'rate': b},
                },
            ],
        },
        'variational': {
            'id': 'q',
            'type': 'JointDistributionModel',
            'distributions': [
                {
                    'id': 'qd',
                    'type': 'Distribution',
                    'distribution': 'torch.distributions.Gamma',
                    'x': 'z',
                    'parameters': q_par,
                }
            ],
        },
    }
    spec.update(extra or {})
    return process_object(spec, dic), dic['z']


bad = False
for yv in ([0.7], [0.3, 1.2, 2.2, 0.1]):
    n, s = len(yv), sum(yv)
    log_z = a * math.log(b) - lg(a) + lg(a + n) - (a + n) * math.log(b + s)
    for kind, extra in (
        ('ELBO', None),
        ('VR', {'alpha': 0.5}),
        ('CUBO', {'n': 2.0}),
        ('KLpq', None),
    ):
        for scalar in (False, True):
            label = f'{kind:5s} n={n} q parameters as {"numbers" if scalar else "lists  "}'
            try:
                obj, z = build(kind, yv, scalar, 5, extra)
                value = obj().item()
                ok = abs(value - log_z) < 1e-9
                print(f'{label}: observed={value:.10f} expected={log_z:.10f} '
                      f'z.shape={tuple(z.shape)} {"ok" if ok else "WRONG"}')
                bad |= not ok
            except Exception as e:  # noqa: BLE001
                print(f'{label}: observed=EXCEPTION {type(e).__name__}: '
                      f'{str(e)[:70]} expected={log_z:.10f}')
                bad = True

sys.exit(1 if bad else 0)
