"""C14: ELBO with the analytic-entropy option is biased when
the model is expressed through a constraining transform with its Jacobian term.

Beta-binomial through a sigmoid transform, densities written for the unconstrained
theta (pr = sigmoid(theta)):
    p(theta, k) = Binomial(k | N, pr) Beta(pr | al, be) |d pr / d theta|
    q(theta)    = Beta(pr | A, B) |d pr / d theta|,  A = al + sum k, B = be + sum(N-k)
q is the exact posterior: the Monte-Carlo-entropy ELBO returns log Z for every draw.
With entropy=True, ELBO computes mean(log p) + q.entropy(), and
JointDistributionModel.entropy() adds up the entropies of the member distributions
only: the Jacobian term that is part of q is ignored.  The entropy of q(theta) is
H[Beta(A,B)] - E[log|J|]; the value returned is therefore off by
E_q[log|J|] = E[log pr + log(1-pr)] = psi(A) + psi(B) - 2 psi(A+B)   (closed form; -1.42 here,
hundreds of standard errors; with an exp transform the value exceeds log Z).
"""
import math
import sys

import mpmath
import torch

torch.set_default_dtype(torch.float64)

from torch.distributions import Beta, Binomial, SigmoidTransform  # noqa: E402

from torchtree import Parameter  # noqa: E402
from torchtree.core.parameter import TransformedParameter  # noqa: E402
from torchtree.distributions.distributions import Distribution  # noqa: E402
from torchtree.distributions.joint_distribution import (  # noqa: E402
    JointDistributionModel,
)
from torchtree.variational.kl import ELBO  # noqa: E402

lg = math.lgamma
al, be = 2.0, 3.5
N = torch.tensor([10.0, 7.0, 12.0])
k = torch.tensor([3.0, 2.0, 9.0])
A = al + float(k.sum())
B = be + float((N - k).sum())


def lbeta(x, y):
    return lg(x) + lg(y) - lg(x + y)


log_z = sum(
    lg(float(n) + 1) - lg(float(j) + 1) - lg(float(n - j) + 1) for n, j in zip(N, k)
) + lbeta(A, B) - lbeta(al, be)
e_log_jac = float(mpmath.digamma(A) + mpmath.digamma(B) - 2 * mpmath.digamma(A + B))


def T(v):
    return torch.tensor([v])


theta = Parameter('theta', T(0.0))
pr = TransformedParameter('pr', theta, SigmoidTransform())
lik = Distribution(
    'lik', Binomial, Parameter('k', k), {'total_count': Parameter('N', N), 'probs': pr}
)
prior = Distribution(
    'prior',
    Beta,
    pr,
    {'concentration1': Parameter('al', T(al)), 'concentration0': Parameter('be', T(be))},
)
qd = Distribution(
    'qd',
    Beta,
    pr,
    {'concentration1': Parameter('A', T(A)), 'concentration0': Parameter('B', T(B))},
)
p = JointDistributionModel('p', [lik, prior, pr])  # pr() is the log Jacobian
q = JointDistributionModel('q', [qd, pr])

S = 200000
torch.manual_seed(11)
mc = ELBO(None, q, p, torch.Size([S]), entropy=False)().item()
torch.manual_seed(11)
observed = ELBO(None, q, p, torch.Size([S]), entropy=True)().item()

# independent evaluation on the draws that were actually used (left in pr)
x = pr.tensor.detach().squeeze(-1)
log_joint = (
    Binomial(N, probs=x.unsqueeze(-1)).log_prob(k).sum(-1)
    + Beta(al, be).log_prob(x)
    + x.log()
    + (-x).log1p()
)
stderr = (log_joint.std() / math.sqrt(S)).item()
h_beta = lbeta(A, B) - (A - 1) * float(mpmath.digamma(A)) - (B - 1) * float(
    mpmath.digamma(B)
) + (A + B - 2) * float(mpmath.digamma(A + B))
h_theta = h_beta - e_log_jac  # entropy of the density of theta
correct_same_draws = log_joint.mean().item() + h_theta

print(f'log Z (closed form)                         : {log_z:.6f}')
print(f'ELBO, Monte-Carlo entropy (exact, any draw) : {mc:.6f}')
print(f'ELBO, analytic entropy, observed            : {observed:.6f}')
print(f'analytic-entropy ELBO on the same draws     : {correct_same_draws:.6f}')
print(f'Monte-Carlo standard error                  : {stderr:.6f}')
print(f'observed - log Z = {observed - log_z:.6f}   E_q[log|J|] = {e_log_jac:.6f}')

violated = abs(observed - log_z) > 6 * stderr + 1e-9
sys.exit(1 if violated else 0)
