"""C14: a joint model that contains a factor which does not depend on the sampled
variable (here: a hyper-prior on a hyper-parameter that is held fixed) cannot be
evaluated by any variational objective: JointDistributionModel.log_prob raises.

Model (gamma-exponential, conjugate):
    b0 fixed = 1.3,  b0 ~ Exponential(1)       (constant factor exp(-b0))
    z  ~ Gamma(a, b0),  y_i ~ Exponential(z)
Posterior of z: Gamma(a + n, b0 + sum y)  (in the variational family)
log Z = a log b0 - lgamma(a) + lgamma(a+n) - (a+n) log(b0 + sum y) - b0
"""
import math
import sys

import torch

torch.set_default_dtype(torch.float64)

from torch.distributions import Exponential, Gamma  # noqa: E402

from torchtree import Parameter  # noqa: E402
from torchtree.distributions.distributions import Distribution  # noqa: E402
from torchtree.distributions.joint_distribution import (  # noqa: E402
    JointDistributionModel,
)
from torchtree.variational.chi import CUBO  # noqa: E402
from torchtree.variational.kl import ELBO, KLpq  # noqa: E402
from torchtree.variational.renyi import VR  # noqa: E402

a, b0 = 2.5, 1.3
y = torch.tensor([0.3, 1.2, 2.2, 0.1])
n, s = len(y), float(y.sum())
log_z = (
    a * math.log(b0)
    - math.lgamma(a)
    + math.lgamma(a + n)
    - (a + n) * math.log(b0 + s)
    - b0  # log Exponential(1).pdf(b0)
)


def build():
    z = Parameter('z', torch.tensor([1.0]))
    b = Parameter('b', torch.tensor([b0]))
    lik = Distribution('lik', Exponential, Parameter('y', y), {'rate': z})
    prior = Distribution(
        'prior', Gamma, z, {'concentration': Parameter('a', torch.tensor([a])), 'rate': b}
    )
    hyper = Distribution(
        'hyper', Exponential, b, {'rate': Parameter('one', torch.tensor([1.0]))}
    )
    p = JointDistributionModel('p', [lik, prior, hyper])
    qd = Distribution(
        'qd',
        Gamma,
        z,
        {
            'concentration': Parameter('qa', torch.tensor([a + n])),
            'rate': Parameter('qb', torch.tensor([b0 + s])),
        },
    )
    q = JointDistributionModel('q', [qd])
    return q, p


q, p = build()
print('joint evaluated on its own (no samples):', p().item())

bad = False
for samples in (torch.Size([1]), torch.Size([6]), torch.Size([4, 3])):
    objectives = {
        'ELBO': lambda q, p: ELBO(None, q, p, samples),
        'VR(0.5)': lambda q, p: VR(None, q, p, samples, 0.5),
        'CUBO(2)': lambda q, p: CUBO(None, q, p, samples, torch.tensor(2.0)),
    }
    if len(samples) == 1:
        objectives['KLpq'] = lambda q, p: KLpq(None, q, p, samples)
    for name, make in objectives.items():
        q, p = build()
        try:
            value = make(q, p)().item()
            ok = abs(value - log_z) < 1e-9
            print(f'{name:8s} samples={tuple(samples)} observed={value:.12f} '
                  f'expected={log_z:.12f} {"ok" if ok else "WRONG"}')
            bad |= not ok
        except Exception as e:  # noqa: BLE001
            print(f'{name:8s} samples={tuple(samples)} observed=EXCEPTION '
                  f'{type(e).__name__}: {e}  expected={log_z:.12f}')
            bad = True

sys.exit(1 if bad else 0)
