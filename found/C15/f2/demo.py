"""C15 / GMRF block update on a field that is a view of a larger parameter.

GMRFPiecewiseCoalescentBlockUpdatingOperator._step reads the current field with
`gamma = self.gmrf.field.tensor` and later writes the proposal with
`self.gmrf.field.tensor = proposed_gamma`.  For a ViewParameter the tensor that
was read is a view of the storage the proposal is written into, so `gamma` then
holds the PROPOSED field and the backward density log q(gamma | gamma') is
evaluated at gamma' instead of gamma: the returned Hastings ratio is wrong.
The same specification with a plain Parameter as field gives the right value.

Expected value: log q(old | new) - log q(new | old) of the Gaussian field
proposal (precision left alone: scaler = 1, so nothing else enters), computed
with numpy from the node heights, the grid and the states before / after.
"""
import importlib
import math
import sys

import numpy as np
import torch

torch.set_default_dtype(torch.float64)

from torchtree.core.utils import package_contents, process_object  # noqa: E402

for module in package_contents("torchtree"):
    importlib.import_module(module)

# 8 contemporaneous samples, 7 coalescent events
times = [0.0, 0.3, 0.55, 0.9, 1.4, 2.1, 3.3, 5.2]
events = [1] + [0] * 7  # process_data_coalesent: 1 = sampling, 0 = coalescent
sampling = [0.0] * 8
coalescent_times = times[1:]
grid = [1.0, 2.0, 4.0]
start = [0.3, -0.2, 0.5, 1.0]


def spec(view: bool):
    if view:
        field = [
            {"id": "all", "type": "Parameter", "tensor": start + [0.7, -1.1]},
            {"id": "theta.log", "type": "ViewParameter", "parameter": "all", "indices": "0:4"},
        ]
    else:
        field = [{"id": "theta.log", "type": "Parameter", "tensor": start}]
    return field + [
        {
            "id": "coalescent",
            "type": "PiecewiseConstantCoalescentGridModel",
            "theta": {
                "id": "theta",
                "type": "TransformedParameter",
                "transform": "torch.distributions.ExpTransform",
                "x": "theta.log",
            },
            "grid": grid,
            "times": sampling + coalescent_times,
            "events": [1] * 8 + [0] * 7,
        },
        {
            "id": "gmrf",
            "type": "GMRF",
            "x": "theta.log",
            "precision": {"id": "precision", "type": "Parameter", "tensor": [2.0]},
        },
        {
            "id": "op",
            "type": "GMRFPiecewiseCoalescentBlockUpdatingOperator",
            "coalescent": "coalescent",
            "gmrf": "gmrf",
            "scaler": 1.0,
            "disable_adaptation": True,
        },
    ]


# ---- independent description of the field proposal ---------------------------
ev = [(0.0, +1)] * 8 + [(t, -1) for t in coalescent_times] + [(g, 0) for g in grid]
ev.sort(key=lambda e: e[0])
K = len(grid) + 1
w, c = np.zeros(K), np.zeros(K)
lineages, cell = 0, 0
for (t0, kind), (t1, kind1) in zip(ev[:-1], ev[1:]):
    lineages += kind
    if kind == 0:
        cell += 1
    w[cell] += lineages * (lineages - 1) / 2.0 * (t1 - t0)
    if kind1 == -1:
        c[cell] += 1


def Q(tau):
    m = np.zeros((K, K))
    for i in range(K - 1):
        m[i, i] += tau
        m[i + 1, i + 1] += tau
        m[i, i + 1] -= tau
        m[i + 1, i] -= tau
    return m


def newton(frm, q, stop, max_iter):
    gamma, norm, it = frm.copy(), math.inf, 0
    while norm > stop and it < max_iter:
        jac = q + np.diag(np.exp(-gamma) * w)
        grad = -q @ gamma - c + np.exp(-gamma) * w
        gamma = gamma + np.linalg.solve(jac, grad)
        norm = np.linalg.norm(grad)
        it += 1
    return gamma


def log_q(to, frm, tau, stop, max_iter):
    q = Q(tau)
    mode = newton(frm, q, stop, max_iter)
    d = w * np.exp(-mode)
    qw = q + np.diag(d)
    mean = np.linalg.solve(qw, d * (mode + 1) - c)
    r = to - mean
    return 0.5 * np.linalg.slogdet(qw)[1] - 0.5 * r @ qw @ r


worst = {}
for view in (False, True):
    dic = {}
    for el in spec(view):
        process_object(el, dic)
    op, field = dic["op"], dic["theta.log"]
    assert np.allclose(
        dic["coalescent"].distribution().sufficient_statistics(
            dic["coalescent"].tree_model.node_heights)[0].numpy(), w)
    torch.manual_seed(5)
    worst[view] = 0.0
    print("field is a", type(field).__name__)
    for _ in range(5):
        before = field.tensor.clone().numpy()
        hr = float(op.step())
        after = field.tensor.clone().numpy()
        expected = log_q(before, after, 2.0, op._stop_value, op._max_iterations) - log_q(
            after, before, 2.0, op._stop_value, op._max_iterations
        )
        print(f"   returned HR {hr:12.6f}   expected {expected:12.6f}   diff {hr - expected:10.2e}")
        worst[view] = max(worst[view], abs(hr - expected))
        op.reject()
        assert np.array_equal(field.tensor.numpy(), before)

print(f"largest error, plain Parameter field: {worst[False]:.2e}")
print(f"largest error, ViewParameter field  : {worst[True]:.2e}")
if worst[True] > 1e-8 or worst[False] > 1e-8:
    print("VIOLATION: Hastings ratio of the block update is not log q(old|new) - log q(new|old)")
    sys.exit(1)
print("OK")
sys.exit(0)
