"""C15 / tuning of the GMRF block update is not monotone.

MCMCOperator.tune adds (acceptance - target) / (2 + n) to `adaptable_parameter`.
For GMRFPiecewiseCoalescentBlockUpdatingOperator that parameter is
v = sqrt(scaler - 1) and is mapped back with scaler = 1 + v*v, which is even in
v: when a below-target update pushes v below zero the scale factor of the
precision proposal (tau' in [tau/scaler, tau*scaler]) GROWS, i.e. acceptance
below target makes the next proposals bolder - the opposite direction.

Part 1 calls tune the way MCMC.run does, once per iteration, with acceptance 0.
Part 2 is MCMC.run on the chain that `torchtree-cli mcmc --coalescent skygrid`
builds for data/fluA (restricted to its block update operator to keep the run
short: the other operators do not take part in this operator's tuning).  From
the command line's starting values the block update is not accepted once in
140 iterations, and from iteration 98 on its scaler goes up on a rejection.

The expectation is the one of the property: an update with acceptance below
(above) target never increases (decreases) the scale factor.
"""
import argparse
import contextlib
import importlib
import io
import os
import sys

os.environ["TORCHTREE_VERIF"] = "1"
import torch  # noqa: E402

torch.set_default_dtype(torch.float64)

from torchtree.cli.mcmc import create_mcmc_parser  # noqa: E402
from torchtree.core.utils import (  # noqa: E402
    expand_plates,
    package_contents,
    process_object,
    remove_comments,
)
from torchtree.inference.mcmc import mcmc as mcmc_module  # noqa: E402

for module in package_contents("torchtree"):
    importlib.import_module(module)

times = [0.3, 0.55, 0.9, 1.4, 2.1, 3.3, 5.2]


def spec(scaler, iterations):
    return [
        {"id": "theta.log", "type": "Parameter", "tensor": [0.3, -0.2, 0.5, 1.0]},
        {
            "id": "coalescent",
            "type": "PiecewiseConstantCoalescentGridModel",
            "theta": {
                "id": "theta",
                "type": "TransformedParameter",
                "transform": "torch.distributions.ExpTransform",
                "x": "theta.log",
            },
            "grid": [1.0, 2.0, 4.0],
            "times": [0.0] * 8 + times,
            "events": [1] * 8 + [0] * 7,
        },
        {
            "id": "gmrf",
            "type": "GMRF",
            "x": "theta.log",
            "precision": {"id": "precision", "type": "Parameter", "tensor": [2.0]},
        },
        {
            "id": "prior",
            "type": "Distribution",
            "distribution": "torch.distributions.Gamma",
            "x": "precision",
            "parameters": {"concentration": 1.0, "rate": 1.0},
        },
        {
            "id": "joint",
            "type": "JointDistributionModel",
            "distributions": ["coalescent", "gmrf", "prior"],
        },
        {
            "id": "mcmc",
            "type": "MCMC",
            "joint": "joint",
            "iterations": iterations,
            "checkpoint": False,
            "every": 0,
            "operators": [
                {
                    "id": "op",
                    "type": "GMRFPiecewiseCoalescentBlockUpdatingOperator",
                    "coalescent": "coalescent",
                    "gmrf": "gmrf",
                    "scaler": scaler,
                }
            ],
        },
    ]


violations = []

# ---- part 1: never accepted, default scaler --------------------------------
dic = {}
for el in spec(2.0, 1):
    process_object(el, dic)
op = dic["op"]
target = op.target_acceptance_probability
for sample in range(1, 301):
    before = op.tuning_parameter
    op.tune(torch.tensor(0.0), sample, False)
    if op.tuning_parameter > before:
        violations.append((sample, 0.0, before, op.tuning_parameter))
print(f"part 1: acceptance 0 < target {target} at every iteration, scaler 2.0 -> {op.tuning_parameter:.10f}")
for v in violations[:4]:
    print(f"   iteration {v[0]}: acceptance {v[1]:.2f} < target, scaler - 1: {v[2] - 1:.3e} -> {v[3] - 1:.3e}  (bolder)")
print(f"   {len(violations)} updates went in the wrong direction")
n1 = len(violations)

# ---- part 2: MCMC.run on the command line's skygrid chain --------------------
here = os.getcwd()
parser = argparse.ArgumentParser()
create_mcmc_parser(parser.add_subparsers())
arg = parser.parse_args(
    [
        "mcmc",
        "-i", os.path.join(here, "data", "fluA.fa"),
        "-t", os.path.join(here, "data", "fluA.tree"),
        "-m", "JC69",
        "--clock", "strict",
        "--rate", "0.001",
        "--coalescent", "skygrid",
        "--grid", "5",
        "--cutoff", "10",
        "--heights_init", "tree",
        "--iter", "140",
        "--stem", "unused",
    ]
)
with contextlib.redirect_stdout(io.StringIO()):
    data = arg.func(arg)
remove_comments(data)
expand_plates(data)
for el in data:
    if el["id"] == "mcmc":
        el["operators"] = [o for o in el["operators"] if o["type"].startswith("GMRF")]
        el.pop("loggers", None)
        el["every"] = 0
dic = {}
for el in data:
    process_object(el, dic)
mc = dic["mcmc"]
mc.checkpoint = None
op = mc._operators[0]
torch.manual_seed(1)
scalers = [op.tuning_parameter]
tune = op.tune


def recording_tune(*args, **kwargs):
    tune(*args, **kwargs)
    scalers.append(op.tuning_parameter)


op.tune = recording_tune
mcmc_module._VERIF_TRACE.clear()
with contextlib.redirect_stdout(io.StringIO()):
    mc.run()
trace = list(mcmc_module._VERIF_TRACE)
for rec, before, after in zip(trace, scalers[:-1], scalers[1:]):
    a = rec["acceptance_prob"]
    if (a < target and after > before) or (a > target and after < before):
        violations.append((rec["epoch"], a, before, after))
print(
    f"part 2: MCMC.run, {len(trace)} block updates, {sum(r['accepted'] for r in trace)} accepted,"
    f" scaler {scalers[0]} -> {scalers[-1]:.10f}"
)
for v in violations[n1:n1 + 4]:
    print(f"   iteration {v[0]}: acceptance {v[1]:.1e} < target {target}, scaler - 1: {v[2] - 1:.3e} -> {v[3] - 1:.3e}  (bolder)")
print(f"   {len(violations) - n1} updates went in the wrong direction")

if violations:
    print("VIOLATION: tuning moved the proposal scale away from the target acceptance rate")
    sys.exit(1)
print("OK")
sys.exit(0)
