"""C15 / GMRF block update: the Hastings ratio ignores the precision move.

`torchtree-cli mcmc --coalescent skygrid` builds a chain whose target
(`joint.jacobian`) is a density over the *unconstrained* parameters: the GMRF
precision tau is a TransformedParameter exp(u) of the free parameter
u = gmrf.precision.unres, and the log-Jacobian of that transform is one of the
terms of the target.  GMRFPiecewiseCoalescentBlockUpdatingOperator moves tau by
tau' = s * tau with s ~ f(s) prop. to (1 + 1/s) on [1/A, A]: symmetric in tau but NOT in
u = log(tau), where the step v = u' - u has density g(v) prop. to (1 + e^v) and
log g(-v) - log g(v) = -v.  The operator returns only the field part of the
ratio, so the returned Hastings ratio is off by exactly u' - u = log(s).

The script builds the specification with the library's own command line
module, performs block-update proposals and compares the returned Hastings
ratio with the log ratio of reverse to forward proposal densities over the free
parameters (theta.log, precision.unres), computed independently with numpy.
"""
import argparse
import copy
import importlib
import io
import contextlib
import math
import os
import sys

import numpy as np
import torch

torch.set_default_dtype(torch.float64)

from torchtree.cli.mcmc import create_mcmc_parser  # noqa: E402
from torchtree.core.utils import (  # noqa: E402
    expand_plates,
    package_contents,
    process_object,
    remove_comments,
)

for module in package_contents("torchtree"):
    importlib.import_module(module)

here = os.getcwd()
parser = argparse.ArgumentParser()
sub = parser.add_subparsers()
create_mcmc_parser(sub)
arg = parser.parse_args(
    [
        "mcmc",
        "-i", os.path.join(here, "data", "fluA.fa"),
        "-t", os.path.join(here, "data", "fluA.tree"),
        "-m", "JC69",
        "--clock", "strict",
        "--rate", "0.001",
        "--coalescent", "skygrid",
        "--grid", "5",
        "--cutoff", "10",
        "--heights_init", "tree",
        "--stem", "unused",
    ]
)
with contextlib.redirect_stdout(io.StringIO()):
    data = arg.func(arg)
remove_comments(data)
expand_plates(data)
spec = {d["id"]: d for d in data}
target_terms = spec["joint.jacobian"]["distributions"]
print("target of the chain:", spec["mcmc"]["joint"], "=", target_terms)
assert "gmrf.precision" in target_terms  # Jacobian of tau = exp(u) is in the target

dic = {}
for el in copy.deepcopy(data):
    process_object(el, dic)
mcmc = dic["mcmc"]
op = [o for o in mcmc._operators if type(o).__name__.startswith("GMRF")][0]
u_par = dic["gmrf.precision.unres"]
g_par = dic["coalescent.theta.log"]
assert any(p is u_par for p in mcmc.parameters)  # u is the free parameter
coal = dic["coalescent"]
tree = dic["tree"]
A = op._scaler

# ---- independent description of the proposal -------------------------------
heights = tree.node_heights.detach().numpy().copy()
ntaxa = (len(heights) + 1) // 2
grid = coal.distribution().grid.detach().numpy().copy()
events = [(h, +1) for h in heights[:ntaxa]] + [(h, -1) for h in heights[ntaxa:]]
events += [(h, 0) for h in grid]
events.sort(key=lambda e: e[0])
K = len(grid) + 1
w = np.zeros(K)
c = np.zeros(K)
lineages, cell = 0, 0
for (t0, kind), (t1, kind1) in zip(events[:-1], events[1:]):
    lineages += kind
    if kind == 0:
        cell += 1
    w[cell] += lineages * (lineages - 1) / 2.0 * (t1 - t0)
    if kind1 == -1:
        c[cell] += 1


def Q(tau):
    m = np.zeros((K, K))
    for i in range(K - 1):
        m[i, i] += tau
        m[i + 1, i + 1] += tau
        m[i, i + 1] -= tau
        m[i + 1, i] -= tau
    return m


def newton(start, q):
    gamma = start.copy()
    grad_norm, it = math.inf, 0
    while grad_norm > op._stop_value and it < op._max_iterations:
        jac = q + np.diag(np.exp(-gamma) * w)
        grad = -q @ gamma - c + np.exp(-gamma) * w
        gamma = gamma + np.linalg.solve(jac, grad)
        grad_norm = np.linalg.norm(grad)
        it += 1
    return gamma


def log_q_field(to, frm, tau):
    """log N(to; mean, QW^-1) of the field proposal started at `frm` (no constant)."""
    q = Q(tau)
    mode = newton(frm, q)
    d = w * np.exp(-mode)
    qw = q + np.diag(d)
    mean = np.linalg.solve(qw, d * (mode + 1) - c)
    r = to - mean
    return 0.5 * np.linalg.slogdet(qw)[1] - 0.5 * r @ qw @ r


def log_g(v):
    """log density (no constant) of v = u' - u = log(s), s ~ (1 + 1/s) on [1/A, A]."""
    return math.log1p(math.exp(v)) if abs(v) <= math.log(A) + 1e-12 else -math.inf


# ---- the shape of g is checked against the sampler itself -------------------
torch.manual_seed(7)
tau0 = op.gmrf.precision.tensor.clone()
ups = sum(float(op.propose_precision() / tau0) > 1.0 for _ in range(20000)) / 20000.0
p_up = (math.log(A) + A - 1) / (2 * math.log(A) + A - 1 / A)
print(f"P(u' > u) sampled {ups:.4f}; from g(v)~1+e^v {p_up:.4f}; a symmetric move gives 0.5")
assert abs(ups - p_up) < 0.02

# ---- proposals ------------------------------------------------------------
torch.manual_seed(11)
u0 = u_par.tensor.clone()
g0 = g_par.tensor.clone()
worst = 0.0
worst_field = 0.0
n = 12
print(" u' - u     returned HR   true HR over (theta.log, u)   difference")
for _ in range(n):
    u_par.tensor = u0.clone()
    g_par.tensor = g0.clone()
    hr = float(op.step())
    u1 = u_par.tensor.clone()
    g1 = g_par.tensor.clone()
    v = float(u1 - u0)
    a, b = g0.numpy(), g1.numpy()
    field = log_q_field(a, b, math.exp(float(u0))) - log_q_field(b, a, math.exp(float(u1)))
    true = field + log_g(-v) - log_g(v)
    print(f"{v:8.4f}  {hr:12.6f}  {true:12.6f}                 {hr - true:10.6f}")
    worst = max(worst, abs(hr - true))
    worst_field = max(worst_field, abs(hr - field))
u_par.tensor = u0
g_par.tensor = g0
print(f"largest |returned - field part only| = {worst_field:.2e}")
print(f"largest |returned - true Hastings ratio| = {worst:.4f} (up to log A = {math.log(A):.4f})")
if worst > 1e-6:
    print("VIOLATION: the Hastings ratio of the block update leaves out the precision move")
    sys.exit(1)
print("OK")
sys.exit(0)
