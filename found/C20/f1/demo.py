"""C20 / GMRFCovariate: batched evaluation (documented: field [...,N], covariates [N,P],
beta [...,P]) must equal the Gaussian quadratic form of the published precision matrix
applied to the residual field - Z beta.  Exit 1 if violated, 0 if it holds."""
import math
import sys

import torch

torch.set_default_dtype(torch.float64)

from torchtree import Parameter  # noqa: E402
from torchtree.distributions.gmrf import GMRFCovariate  # noqa: E402

torch.manual_seed(0)
N, P, B = 5, 2, 3
Z = torch.randn(N, P)
LOG2PI = math.log(2.0 * math.pi)


def expected(field, beta, prec):
    # independent: sum of squared first differences of the residual
    r = field - beta @ Z.T
    s = ((r[..., 1:] - r[..., :-1]) ** 2).sum(-1, keepdim=True)
    return (N - 1) / 2 * prec.log() - prec * s / 2 - (N - 1) / 2 * LOG2PI


bad = False
cases = {
    "single": ((N,), (P,), (1,)),
    "batched field/beta/precision": ((B, N), (B, P), (B, 1)),
    "batched field/beta, shared precision": ((B, N), (B, P), (1,)),
}
for name, (fs, bs, ps) in cases.items():
    field = torch.randn(fs)
    beta = torch.randn(bs)
    prec = torch.rand(ps) + 0.5
    model = GMRFCovariate(
        "g",
        Parameter("f", field),
        Parameter("p", prec),
        Parameter("z", Z),
        Parameter("b", beta),
    )
    exp = expected(field, beta, prec)
    try:
        obs = model()
    except Exception as e:  # noqa: BLE001
        print(f"{name}: EXCEPTION {type(e).__name__}: {e}")
        print(f"   expected {exp.flatten().tolist()}")
        bad = True
        continue
    # also the quadratic form of the published matrix
    Q = model.precision_matrix()
    r = field - beta @ Z.T
    quad = torch.einsum('...i,...ij,...j->...', r, Q, r).unsqueeze(-1)
    exp_q = (N - 1) / 2 * prec.log() - quad / 2 - (N - 1) / 2 * LOG2PI
    ok = (
        obs.shape == exp.shape
        and torch.allclose(obs, exp, rtol=1e-10, atol=1e-10)
        and torch.allclose(obs, exp_q, rtol=1e-10, atol=1e-10)
    )
    print(f"{name}: observed {obs.flatten().tolist()} expected {exp.flatten().tolist()} ok={ok}")
    bad |= not ok

sys.exit(1 if bad else 0)
