"""A coalescent event at exactly the most recent sampling time (zero-length cherry at
the youngest tips, as in dated trees of identical sequences) can be sorted in front of
the tied sampling events by the non-stable torch.argsort.  ExponentialCoalescent and
(Soft)PiecewiseConstantCoalescentGrid then drop its -log N(t) term because they slice
the per-event log population sizes with [..., 1:] ("the first event is a sampling
event").  The value depends on the ORDER in which the node heights are supplied."""
import random
import sys

import mpmath as mp
import torch

torch.set_default_dtype(torch.float64)
from torchtree.evolution.coalescent import (
    ConstantCoalescent,
    ExponentialCoalescent,
    PiecewiseConstantCoalescentGrid,
)

mp.mp.dps = 30
theta, growth = 4.0, 0.05
thetas, grid = [4.0, 2.0, 1.0], [1.5, 3.0]


def reference(sampling, coalescent, N, inv_integral):
    events = sorted(
        [(t, 1) for t in sampling] + [(t, -1) for t in coalescent],
        key=lambda e: (e[0], -e[1]),
    )
    k, prev, lp = 0, events[0][0], mp.mpf(0)
    for t, mark in events:
        if t > prev:
            lp -= k * (k - 1) / 2 * inv_integral(prev, t)
        if mark == -1:
            lp -= mp.log(N(t))
        k += mark
        prev = t
    return float(lp)


def n_exp(t):
    return theta * mp.exp(-mp.mpf(growth) * t)


def int_exp(a, b):
    g = mp.mpf(growth)
    return (mp.exp(g * b) - mp.exp(g * a)) / (theta * g)


def n_grid(t):
    return mp.mpf(thetas[sum(1 for x in grid if x < t)])


def int_grid(a, b):
    pts = [a] + [x for x in grid if a < x < b] + [b]
    return sum((v - u) / n_grid((u + v) / 2) for u, v in zip(pts[:-1], pts[1:]))


rng = random.Random(2024)
n = 40
# serial sampling, four tips at the most recent date 0
sampling = [0.0] * 4 + [round(0.1 * i, 1) for i in range(1, n - 3)]
# one cherry of two date-0 tips with zero branch lengths, then one event every 0.13
coalescent = [0.0] + [3.7 + 0.13 * i for i in range(n - 2)]

violations = 0
seen = {"exponential": set(), "skygrid": set(), "constant": set()}
for perm in range(40):
    s, c = sampling[:], coalescent[:]
    rng.shuffle(s)
    rng.shuffle(c)
    h = torch.tensor(s + c)
    obs = {
        "exponential": ExponentialCoalescent(
            torch.tensor([theta]), torch.tensor([growth])
        ).log_prob(h).item(),
        "skygrid": PiecewiseConstantCoalescentGrid(
            torch.tensor(thetas), torch.tensor(grid)
        ).log_prob(h).item(),
        "constant": ConstantCoalescent(torch.tensor([theta])).log_prob(h).item(),
    }
    exp = {
        "exponential": reference(s, c, n_exp, int_exp),
        "skygrid": reference(s, c, n_grid, int_grid),
        "constant": reference(s, c, lambda t: mp.mpf(theta), lambda a, b: (b - a) / theta),
    }
    for k in obs:
        seen[k].add(round(obs[k], 8))
        if abs(obs[k] - exp[k]) > 1e-8 * max(1, abs(exp[k])):
            violations += 1
            if violations <= 6:
                print(
                    f"permutation {perm:2d} {k:11s} observed={obs[k]:.10f} "
                    f"expected={exp[k]:.10f} diff={obs[k] - exp[k]:.6f}"
                )
print(f"log N(0): exponential {mp.log(theta)}, skygrid {mp.log(thetas[0])}")
for k, v in seen.items():
    print(f"{k:11s}: distinct values over 40 orderings of the same heights: {sorted(v)}")
print("violations:", violations)
sys.exit(1 if violations else 0)
