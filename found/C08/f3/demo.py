"""PiecewiseLinearCoalescentGrid cannot evaluate a batch of population-size vectors
on one fixed set of node heights (fixed tree, sampled thetas) - the shape every other
coalescent distribution accepts and that the skygrid test-suite exercises.  It raises
a RuntimeError instead of returning the Kingman densities of the rows."""
import sys

import mpmath as mp
import torch

torch.set_default_dtype(torch.float64)
from torchtree import Parameter
from torchtree.evolution.coalescent import (
    FakeTreeModel,
    PiecewiseConstantCoalescentGrid,
    PiecewiseLinearCoalescentGrid,
    PiecewiseLinearCoalescentGridModel,
)

mp.mp.dps = 30
sampling = [0.0, 0.5, 1.0]
coalescent = [1.5, 3.0]
heights = torch.tensor(sampling + coalescent)
grid = [1.0, 2.0]
thetas = [[1.0, 2.0, 3.0], [2.0, 1.0, 0.5]]  # N at t = 0, 1, 2 (constant after 2)


def reference(th):
    g0 = [0.0] + grid

    def N(t):
        if t >= g0[-1]:
            return mp.mpf(th[-1])
        i = max(j for j in range(len(g0)) if g0[j] <= t)
        return th[i] + (th[i + 1] - th[i]) * (t - g0[i]) / (g0[i + 1] - g0[i])

    events = sorted([(t, 1) for t in sampling] + [(t, -1) for t in coalescent])
    k, prev, lp = 0, 0.0, mp.mpf(0)
    for t, mark in events:
        pts = [prev] + [x for x in g0 if prev < x < t] + [t]
        if t > prev:
            lp -= k * (k - 1) / 2 * mp.quad(lambda s: 1 / N(s), pts)
        if mark == -1:
            lp -= mp.log(N(t))
        k += mark
        prev = t
    return float(lp)


expected = [reference(th) for th in thetas]
print("expected (mpmath)          :", expected)
rows = [
    PiecewiseLinearCoalescentGrid(torch.tensor(th), torch.tensor(grid))
    .log_prob(heights)
    .item()
    for th in thetas
]
print("row by row                 :", rows)
# the same call shape works for the piecewise-constant grid model
print(
    "skygrid, thetas [2,3]      :",
    PiecewiseConstantCoalescentGrid(torch.tensor(thetas), torch.tensor(grid))
    .log_prob(heights)
    .flatten()
    .tolist(),
)
violated = False
try:
    observed = (
        PiecewiseLinearCoalescentGrid(torch.tensor(thetas), torch.tensor(grid))
        .log_prob(heights)
        .flatten()
        .tolist()
    )
    print("distribution, thetas [2,3] :", observed)
    violated |= any(abs(a - b) > 1e-9 for a, b in zip(observed, expected))
except Exception as e:
    print("distribution, thetas [2,3] : EXCEPTION", type(e).__name__, e)
    violated = True
try:
    model = PiecewiseLinearCoalescentGridModel(
        "skyglide",
        Parameter("theta", torch.tensor(thetas)),
        Parameter("grid", torch.tensor(grid)),
        FakeTreeModel(Parameter("heights", heights)),
    )
    observed = model().flatten().tolist()
    print("model call, thetas [2,3]   :", observed)
    violated |= any(abs(a - b) > 1e-9 for a, b in zip(observed, expected))
except Exception as e:
    print("model call, thetas [2,3]   : EXCEPTION", type(e).__name__, e)
    violated = True
sys.exit(1 if violated else 0)
