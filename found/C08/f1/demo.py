"""ExponentialCoalescent loses all precision for small |growth| (cancellation in
exp(g*t1) - exp(g*t0)), and for |g*t| below 1e-16 drops the coalescent waiting-time
term completely.  Reference: Kingman density of N(t) = theta*exp(-g*t) in mpmath."""
import sys

import mpmath as mp
import torch

torch.set_default_dtype(torch.float64)
from torchtree.evolution.coalescent import ConstantCoalescent, ExponentialCoalescent

mp.mp.dps = 50

# 5 taxa, serial sampling; node heights = sampling times followed by coalescent times
sampling = [0.0, 0.5, 1.0, 0.0, 2.0]
coalescent = [0.8, 1.7, 2.5, 4.0]
heights = torch.tensor(sampling + coalescent)
theta = 2.5


def reference(g):
    """- sum C(k,2) int 1/N - sum log N(t_coal), N(t) = theta exp(-g t)."""
    g = mp.mpf(g)
    events = sorted([(t, 1) for t in sampling] + [(t, -1) for t in coalescent])
    k, prev, lp = 0, mp.mpf(0), mp.mpf(0)
    for t, mark in events:
        t = mp.mpf(t)
        lp -= k * (k - 1) / 2 * (mp.exp(g * t) - mp.exp(g * prev)) / (theta * g)
        if mark == -1:
            lp -= mp.log(theta) - g * t
        k += mark
        prev = t
    return float(lp)


constant = ConstantCoalescent(torch.tensor([theta])).log_prob(heights).item()
print(f"constant model (growth -> 0 limit): {constant:.12f}")
violated = False
for g in (1e-3, 1e-10, 1e-12, -1e-12, 1e-14, -1e-15, 1e-17):
    observed = (
        ExponentialCoalescent(torch.tensor([theta]), torch.tensor([g]))
        .log_prob(heights)
        .item()
    )
    expected = reference(g)
    err = abs(observed - expected)
    ok = err <= 1e-9 * max(1.0, abs(expected))
    print(
        f"growth={g:8.1e} observed={observed:.12f} expected={expected:.12f} "
        f"abs err={err:.3e} {'ok' if ok else 'VIOLATION'}"
    )
    violated |= not ok
sys.exit(1 if violated else 0)
