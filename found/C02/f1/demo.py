"""C02: switching between the tip-partial and the tip-state representation must not
change the log-likelihood.

Configuration: the library is used directly (torch's default dtype is left at
float32) and every parameter of the model is declared in double precision through
the documented "dtype" key of Parameter (the test suite does the same, see
test_substitution_model.py).  The two specifications below differ only in
"use_tip_states".

Expected: both give the log-likelihood computed by an independent pruning
implementation (numpy, float64).
Observed: use_tip_states=true gives that value; use_tip_states=false raises
RuntimeError (float32 tip partials are multiplied with float64 transition matrices).
"""
import copy
import math
import sys

import numpy as np
import torch

from torchtree.evolution.tree_likelihood import TreeLikelihoodModel

NAMES = ['A', 'B', 'C', 'D']
SEQS = {'A': 'ACGTNAAC', 'B': 'ACGTAAAC', 'C': 'ACCTAGAC', 'D': 'AGGT-GTC'}
# ((A:0.1,B:0.2):0.05,(C:0.1,D:0.3):0.05)
TREE = (((('A',), 0.1), (('B',), 0.2)), 0.05), (((('C',), 0.1), (('D',), 0.3)), 0.05)
NEWICK = '((A:0.1,B:0.2):0.05,(C:0.1,D:0.3):0.05);'
KAPPA = 2.0
PI = [0.1, 0.2, 0.3, 0.4]


def hky_p(t):
    pi = np.array(PI)
    k = KAPPA
    Q = np.array([[0, 1, k, 1], [1, 0, 1, k], [k, 1, 0, 1], [1, k, 1, 0]], float) * pi
    np.fill_diagonal(Q, -Q.sum(1))
    Q /= -(np.diag(Q) * pi).sum()
    w, v = np.linalg.eig(Q)
    return (v @ np.diag(np.exp(w * t)) @ np.linalg.inv(v)).real


def tip(c):
    return np.eye(4)['ACGT'.index(c)] if c in 'ACGT' else np.ones(4)


def expected():
    total = 0.0
    for s in range(len(SEQS['A'])):

        def rec(node):
            if len(node) == 1:
                return tip(SEQS[node[0]][s])
            out = np.ones(4)
            for child, bl in node:
                out = out * (hky_p(bl) @ rec(child))
            return out

        total += math.log(np.array(PI) @ rec(TREE))
    return total


def spec(use_tip_states):
    def par(id_, values):
        return {
            'id': id_,
            'type': 'Parameter',
            'tensor': values,
            'dtype': 'torch.float64',
        }

    taxa = {
        'id': 'taxa',
        'type': 'Taxa',
        'taxa': [{'id': n, 'type': 'Taxon'} for n in NAMES],
    }
    return {
        'id': 'like',
        'type': 'TreeLikelihoodModel',
        'tree_model': {
            'id': 'tree',
            'type': 'UnRootedTreeModel',
            'newick': NEWICK,
            'keep_branch_lengths': True,
            'branch_lengths': par('bl', [0.0] * 5),
            'taxa': taxa,
        },
        'site_model': {'id': 'sm', 'type': 'ConstantSiteModel'},
        'site_pattern': {
            'id': 'sp',
            'type': 'SitePattern',
            'alignment': {
                'id': 'al',
                'type': 'Alignment',
                'datatype': 'nucleotide',
                'taxa': 'taxa',
                'sequences': [{'taxon': n, 'sequence': s} for n, s in SEQS.items()],
            },
        },
        'substitution_model': {
            'id': 'm',
            'type': 'HKY',
            'kappa': par('k', [KAPPA]),
            'frequencies': par('f', PI),
        },
        'use_tip_states': use_tip_states,
    }


def main():
    assert torch.get_default_dtype() == torch.float32  # library used as imported
    exp = expected()
    print('expected (independent pruning, float64): %.10f' % exp)
    ok = True
    for use_tip_states in (True, False):
        label = 'use_tip_states=%s' % use_tip_states
        try:
            like = TreeLikelihoodModel.from_json(copy.deepcopy(spec(use_tip_states)), {})
            value = like().item()
        except Exception as e:  # noqa
            print('%-22s raised %s: %s' % (label, type(e).__name__, e))
            ok = False
            continue
        good = abs(value - exp) < 1e-8
        print('%-22s %.10f %s' % (label, value, 'ok' if good else 'WRONG'))
        ok = ok and good
    if not ok:
        print('VIOLATION: the two representations of the same data do not agree')
        return 1
    print('property holds')
    return 0


if __name__ == '__main__':
    sys.exit(main())
