"""C09: critical process without psi-sampling (R = 1, s = 0, i.e. lambda = mu, psi = 0)
sampled through rho at the present.

A = sqrt((lambda - mu - psi)^2 + 4 lambda psi) is 0, B = (...)/A is inf and both the
skyline and the constant-rate density are nan; next to the critical point
(|R - 1| = 1e-12) the value is finite but wrong in the 5th digit.  The true density is
finite: for one epoch  q(t) = (1 + rho lambda t)^-2,  1 - p0(t) = rho / (1 + rho lambda t).

Reference: the master equations integrated along the tree (RK4, float64, u = 1 - p0)
    du/dtau = (lambda - mu) u - lambda u^2,  u(0+) = rho
    d log g/dtau = lambda - mu - 2 lambda u   on every lineage
and, for one epoch, the closed form of the critical process.
"""
import sys

import numpy as np
import torch

from torchtree.evolution.bdsk import (
    PiecewiseConstantBirthDeath,
    epidemiology_to_birth_death,
)
from torchtree.evolution.birth_death import BirthDeath

torch.set_default_dtype(torch.float64)

INTS = [1.0, 2.0, 3.5]  # internal node heights, 4 tips at the present
N_TIPS = 4
T = 5.0
RHO = 0.3


def ode_reference(lam, mu, survival, h=0.0005):
    """m equidistant epochs (lam[0] oldest), psi = 0, rho at the present only"""
    m = len(lam)
    N = int(round(T / h))

    def rates(tau_mid):
        i = min(int((T - tau_mid) / (T / m)), m - 1)
        return lam[i], mu[i]

    def f(u, la, m_):
        return (la - m_) * u - la * u * u

    u = np.empty(N + 1)
    u[0] = RHO
    total = N_TIPS * np.log(RHO)
    node_k = sorted(int(round(x / h)) for x in INTS)
    lineages = N_TIPS
    for k in range(N):
        la, m_ = rates((k + 0.5) * h)
        if k in node_k:
            total += np.log(la)
            lineages -= 1
        k1 = f(u[k], la, m_)
        k2 = f(u[k] + 0.5 * h * k1, la, m_)
        k3 = f(u[k] + 0.5 * h * k2, la, m_)
        k4 = f(u[k] + h * k3, la, m_)
        u[k + 1] = u[k] + h / 6.0 * (k1 + 2 * k2 + 2 * k3 + k4)
        total += lineages * 0.5 * h * (2 * (la - m_) - 2 * la * (u[k] + u[k + 1]))
    if survival:
        total -= np.log(u[N])
    return total


def critical_closed_form(lam, survival):
    def lq(t):
        return -2.0 * np.log1p(RHO * lam * t)

    v = lq(T) + sum(np.log(lam) + lq(x) for x in INTS) + N_TIPS * np.log(RHO)
    if survival:
        v -= np.log(RHO / (1.0 + RHO * lam * T))
    return v


node_heights = torch.cat((torch.zeros(N_TIPS), torch.tensor(INTS)))
ok = True


def report(name, observed, expected, extra=''):
    global ok
    good = np.isfinite(observed) and abs(observed - expected) < 1e-6
    ok &= bool(good)
    print(f"{name}: torchtree {observed:.9f} | expected {expected:.9f} {extra}| {'ok' if good else 'VIOLATED'}")


for survival in (True, False):
    # one epoch, R = 1, delta = 1.5, s = 0
    lam, mu, psi = epidemiology_to_birth_death(torch.tensor([1.0]), torch.tensor([1.5]), torch.zeros(1))
    sky = PiecewiseConstantBirthDeath(
        lam, mu, psi, rho=torch.tensor([RHO]), origin=torch.tensor([T]), survival=survival
    ).log_prob(node_heights).item()
    const = BirthDeath(
        lam, mu, psi, torch.tensor([RHO]), torch.tensor([T]), survival=survival
    ).log_prob(node_heights).item()
    exp = ode_reference([1.5], [1.5], survival)
    cf = critical_closed_form(1.5, survival)
    assert abs(exp - cf) < 1e-7
    report(f"skyline, 1 epoch, R=1 s=0 survival={survival}", sky, exp, f"(closed form {cf:.9f}) ")
    report(f"constant model,   R=1 s=0 survival={survival}", const, exp)

# four epochs (boundaries on the integration grid), only the second one critical
R = torch.tensor([1.6, 1.0, 0.7, 1.2])
delta = torch.tensor([1.5, 2.0, 1.0, 1.3])
lam, mu, psi = epidemiology_to_birth_death(R, delta, torch.zeros(4))
sky = PiecewiseConstantBirthDeath(
    lam, mu, psi, rho=torch.tensor([RHO]), origin=torch.tensor([T])
).log_prob(node_heights).item()
report("skyline, 4 epochs, R=[1.6, 1.0, 0.7, 1.2] s=0", sky, ode_reference(lam.tolist(), mu.tolist(), True))

# next to the critical point: finite but inaccurate
lam = torch.tensor([1.5 * (1.0 + 1e-12)])
mu = torch.tensor([1.5])
sky = PiecewiseConstantBirthDeath(
    lam, mu, torch.zeros(1), rho=torch.tensor([RHO]), origin=torch.tensor([T])
).log_prob(node_heights).item()
report("skyline, 1 epoch, R=1+1e-12 s=0", sky, ode_reference(lam.tolist(), mu.tolist(), True))

# controls: away from the critical point (hold)
for Rv in (0.9, 1.1):
    lam, mu, psi = epidemiology_to_birth_death(torch.tensor([Rv]), torch.tensor([1.5]), torch.zeros(1))
    sky = PiecewiseConstantBirthDeath(
        lam, mu, psi, rho=torch.tensor([RHO]), origin=torch.tensor([T])
    ).log_prob(node_heights).item()
    report(f"control R={Rv}", sky, ode_reference(lam.tolist(), mu.tolist(), True))

print("PROPERTY HOLDS" if ok else "PROPERTY VIOLATED")
sys.exit(0 if ok else 1)
