"""C09: birth-death skyline, contemporaneous sampling (s = 0, rho at the present),
an epoch of growth followed by an epoch of decline.

The backward recursion computes B_i from p_{i+1} (probability of leaving no sample).
After an epoch of decline 1 - p_{i+1} is tiny (1e-14 ... 1e-25): it is rounded away in
p_{i+1}, B_i of the growth epoch comes out as -1 (+ noise) and 1 + B_i, which
log q_i needs, is lost.  The density is off by 0.04 to hundreds of log units.

Reference 1: the master equations integrated along the tree (RK4, float64, written
for u = 1 - p0 so that nothing cancels):
    du/dtau = psi + (lambda - mu - psi) u - lambda u^2,   u(0+) = rho
    d log g/dtau = lambda - mu - psi - 2 lambda u        on every lineage
Reference 2: Stadler et al. 2013 Theorem 1 evaluated with 60 digits (mpmath).
"""
import sys

import mpmath as mp
import numpy as np
import torch

from torchtree.evolution.bdsk import BDSKModel, PiecewiseConstantBirthDeath  # noqa
from torchtree.evolution.bdsk import epidemiology_to_birth_death

torch.set_default_dtype(torch.float64)


def ode_reference(ints, n, lam, mu, T, rho, survival, h=0.0005):
    """two epochs of equal length, psi = 0, all n tips at the present, rho at present"""
    N = int(round(T / h))
    assert N % 2 == 0

    def rates(k2):  # k2: position in half steps; epoch 1 (younger) below T/2
        return (lam[1], mu[1]) if k2 < N else (lam[0], mu[0])

    def f(u, la, m_):
        return (la - m_) * u - la * u * u

    u = np.empty(N + 1)
    u[0] = rho
    for k in range(N):
        la, m_ = rates(2 * k + 1)
        k1 = f(u[k], la, m_)
        k2 = f(u[k] + 0.5 * h * k1, la, m_)
        k3 = f(u[k] + 0.5 * h * k2, la, m_)
        k4 = f(u[k] + h * k3, la, m_)
        u[k + 1] = u[k] + h / 6.0 * (k1 + 2 * k2 + 2 * k3 + k4)
    # integrand of d log g / dtau on each cell (left and right limits differ at T/2)
    total = n * np.log(rho)
    node_k = sorted(int(round(x / h)) for x in ints)
    lineages = n
    nxt = 0
    for k in range(N):  # trapezoid on cell k with the rates of that cell
        while nxt < len(node_k) and node_k[nxt] == k:
            la, m_ = rates(2 * k + 1)
            total += np.log(la)
            lineages -= 1
            nxt += 1
        la, m_ = rates(2 * k + 1)
        total += lineages * 0.5 * h * ((la - m_ - 2 * la * u[k]) + (la - m_ - 2 * la * u[k + 1]))
    assert lineages == 1 and nxt == len(node_k)
    if survival:
        total -= np.log(u[N])
    return total


def mp_reference(ints, n, lam, mu, T, rho, survival):
    mp.mp.dps = 60
    f = mp.mpf
    lam = [f(float(v)) for v in lam]
    mu = [f(float(v)) for v in mu]
    t = [f(0), f(T) / 2, f(T)]
    rhos = [f(0), f(rho)]
    A = [abs(lam[i] - mu[i]) for i in range(2)]
    B = [None, None]
    p = [None, None, f(1)]
    for i in (1, 0):
        B[i] = ((1 - 2 * (1 - rhos[i]) * p[i + 1]) * lam[i] + mu[i]) / A[i]
        e = mp.exp(A[i] * (t[i + 1] - t[i]))
        p[i] = (lam[i] + mu[i] - A[i] * (e * (1 + B[i]) - (1 - B[i])) / (e * (1 + B[i]) + (1 - B[i]))) / (2 * lam[i])

    def logq(i, tt):
        e = mp.exp(A[i] * (t[i + 1] - tt))
        return mp.log(4 * e / (e * (1 + B[i]) + (1 - B[i])) ** 2)

    tot = logq(0, t[0]) + n * mp.log(rhos[1])
    if survival:
        tot -= mp.log(1 - p[0])
    n1 = 1
    for hgt in ints:
        x = f(T) - f(float(hgt))
        i = 0 if x < t[1] else 1
        n1 += 1 if x < t[1] else 0
        tot += mp.log(lam[i]) + logq(i, x)
    tot += n1 * logq(1, t[1])
    return float(tot)


def case(R, delta, T, rho, n, survival, seed=0):
    rng = np.random.default_rng(seed)
    # distinct internal heights on a 0.01 grid, none on the epoch boundary
    grid = np.arange(50, int(90 * T)) / 100.0
    grid = grid[grid != T / 2]
    ints = np.sort(rng.choice(grid, n - 1, replace=False))
    R = torch.tensor(R)
    delta_t = torch.tensor([delta, delta])
    s = torch.zeros(2)
    lam, mu, psi = epidemiology_to_birth_death(R, delta_t, s)
    node_heights = torch.cat((torch.zeros(n), torch.tensor(ints)))
    observed = PiecewiseConstantBirthDeath(
        lam, mu, psi, rho=torch.tensor([rho]), origin=torch.tensor([T]), survival=survival
    ).log_prob(node_heights).item()
    ode = ode_reference(ints, n, lam.tolist(), mu.tolist(), T, rho, survival)
    mpv = mp_reference(ints, n, lam.tolist(), mu.tolist(), T, rho, survival)
    print(
        f"R={R.tolist()} delta={delta} origin={T} rho={rho} n={n} survival={survival}:\n"
        f"   torchtree {observed:.6f} | master equations {ode:.6f} | 60-digit closed form {mpv:.6f}"
        f" | error {observed - ode:+.4g}"
    )
    assert abs(ode - mpv) < 1e-4 * max(1.0, abs(mpv)), "the two references disagree"
    return abs(observed - ode) < 1e-3


ok = True
# R 2 -> 0.5, becoming non infectious at rate 5, 20 contemporaneous tips, rho 1e-3
ok &= case([2.0, 0.5], 5.0, 30.0, 1e-3, 20, True)
ok &= case([2.0, 0.5], 5.0, 30.0, 1e-3, 20, False)
ok &= case([2.0, 0.5], 5.0, 20.0, 1e-3, 20, True)
ok &= case([1.3, 0.8], 12.0, 30.0, 1e-4, 20, True)
# control: decline too short to matter (holds)
ctrl = case([2.0, 0.5], 5.0, 6.0, 1e-3, 20, True)
print("control (short decline) holds:", ctrl)
print("PROPERTY HOLDS" if ok else "PROPERTY VIOLATED")
sys.exit(0 if ok else 1)
