"""C09: BDSKModel with absolute rate-shift times ("times": [...], relative_times false)
cannot be evaluated on a batch of samples (what variational inference / any
Monte-Carlo estimate over K draws does: every parameter tensor gets a leading sample
dimension, so the origin is [K, 1] while the fixed shift times stay [m]).

log_prob does torch.cat((times, origin), -1) with times [m] and origin [K, 1]:
RuntimeError.  The same model with the same boundaries given as relative times
works, and so does the absolute form one sample at a time.

Expected: the batched evaluation returns, for every draw, the value of the unbatched
evaluation of that draw (itself checked against the relative-times form).
"""
import sys

import torch

from torchtree.evolution.bdsk import BDSKModel
from torchtree.evolution.tree_model import TimeTreeModel

torch.set_default_dtype(torch.float64)


def P(id_, v):
    return {'id': id_, 'type': 'Parameter', 'tensor': v}


def build(**opts):
    dic = {}
    tree = TimeTreeModel.json_factory(
        'tree',
        '(((A,B),C),D);',
        [2.0, 4.0, 5.0],
        dict(A=2010.0, B=2009.0, C=2007.5, D=2006.5),
        internal_heights_id='ih',
    )
    spec = dict(
        id='bdsk',
        type='BDSKModel',
        tree_model=tree,
        R=P('R', [1.5, 0.8, 2.0]),
        delta=P('delta', [1.5, 1.0, 2.0]),
        s=P('s', [0.3, 0.2, 0.5]),
        rho=P('rho', [0.4]),
        origin=P('origin', [6.0]),
    )
    spec.update(opts)
    return BDSKModel.from_json(spec, dic), dic


# K = 3 draws of every parameter (rows) -- the first row is the JSON value itself
draws = {
    'R': torch.tensor([[1.5, 0.8, 2.0], [1.2, 1.1, 0.9], [2.5, 0.5, 1.0]]),
    'delta': torch.tensor([[1.5, 1.0, 2.0], [1.0, 1.0, 1.0], [2.0, 3.0, 0.7]]),
    's': torch.tensor([[0.3, 0.2, 0.5], [0.1, 0.4, 0.3], [0.6, 0.2, 0.2]]),
    'origin': torch.tensor([[6.0], [6.5], [8.0]]),
    'ih': torch.tensor([[2.0, 4.0, 5.0], [2.2, 4.1, 5.5], [1.5, 3.8, 6.0]]),
}
K = 3
shift_times = [0.0, 2.0, 3.5]  # absolute (forward from the origin, as in the tests)


def set_draws(dic, rows):
    for key, value in draws.items():
        dic[key].tensor = value[rows]


# expected: one draw at a time, absolute times
expected = []
for k in range(K):
    model, dic = build(times=shift_times)
    set_draws(dic, k)
    expected.append(model().item())
# cross-check of the expected values through the relative-times option
for k in range(K):
    rel = [t / draws['origin'][k, 0].item() for t in shift_times]
    model, dic = build(times=rel, relative_times=True)
    set_draws(dic, k)
    assert abs(model().item() - expected[k]) < 1e-9, (model().item(), expected[k])
print('expected (one draw at a time):', expected)

# control: batch of draws with relative times works
model, dic = build(times=[0.0, 0.3, 0.6], relative_times=True)
set_draws(dic, slice(None))
print('control, batched relative times:', model().tolist())

ok = True
model, dic = build(times=shift_times)
set_draws(dic, slice(None))
try:
    observed = model()
    print('observed (batched, absolute times):', observed.tolist())
    ok = observed.shape == (K,) and torch.allclose(
        observed, torch.tensor(expected), rtol=0, atol=1e-9
    )
except Exception as e:  # noqa
    print('observed (batched, absolute times): raised', type(e).__name__, e)
    ok = False

print("PROPERTY HOLDS" if ok else "PROPERTY VIOLATED")
sys.exit(0 if ok else 1)
