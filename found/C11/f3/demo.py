"""C11: the proposals of ScalerOperator and SlidingWindowOperator modify the tensor of
the parameter in place (p = parameter.tensor; p[i] *= s) before assigning it.  When the
parameter requires grad - torchtree's Optimizer sets requires_grad=True on every
parameter it optimises and leaves it set, so this is the state of the parameters after
a MAP stage - the proposal raises "a (view of a) leaf Variable that requires grad is
being used in an in-place operation" and an MCMC stage following the optimisation
stops at its first iteration.  The same MCMC without the optimisation stage runs.
"""
import contextlib
import io
import sys

import torch

torch.set_default_dtype(torch.float64)

from torchtree import Parameter  # noqa: E402
from torchtree.distributions.distributions import Distribution  # noqa: E402
from torchtree.distributions.joint_distribution import (  # noqa: E402
    JointDistributionModel,
)
from torchtree.inference.mcmc.mcmc import MCMC  # noqa: E402
from torchtree.inference.mcmc.operator import (  # noqa: E402
    ScalerOperator,
    SlidingWindowOperator,
)
from torchtree.optim.optimizer import Optimizer  # noqa: E402


def build(x_value):
    x = Parameter('x', x_value.clone())
    prior_x = Distribution(
        'prior.x',
        torch.distributions.Gamma,
        x,
        {
            'concentration': Parameter(None, torch.tensor([2.0])),
            'rate': Parameter(None, torch.tensor([3.0])),
        },
    )
    return x, JointDistributionModel('joint', [prior_x])


violations = 0
for name, make in (
    ('ScalerOperator', lambda x: ScalerOperator('op', [x], 1.0, 0.24, 0.9)),
    ('SlidingWindowOperator', lambda x: SlidingWindowOperator('op', [x], 1.0, 0.24, 0.1)),
):
    for map_stage in (False, True):
        torch.manual_seed(1)
        x, joint = build(torch.tensor([0.5, 1.5]))
        label = f'{name}, {"MAP stage then MCMC" if map_stage else "MCMC only (control)"}'
        if map_stage:
            # stage 1: two iterations of gradient ascent on x (as a MAP stage does)
            optimizer = Optimizer(
                'map', [x], joint, torch.optim.SGD([x.tensor], lr=1e-4), 2, checkpoint=None
            )
            with contextlib.redirect_stdout(io.StringIO()):
                optimizer.run()
        # stage 2: MCMC on the same parameter
        mcmc = MCMC('mcmc', joint, [make(x)], 20, checkpoint=None, every=0)
        try:
            with contextlib.redirect_stdout(io.StringIO()):
                mcmc.run()
        except RuntimeError as e:
            violations += 1
            print(f'{label:<46} VIOLATION: x.requires_grad={x.requires_grad}, the proposal'
                  f' raised RuntimeError: {e}')
            continue
        observed = joint().item()
        expected = build(x.tensor.detach())[1]().item()
        ok = abs(observed - expected) < 1e-12
        print(f'{label:<46} 20 iterations done, joint {observed:.10f}'
              f' fresh copy {expected:.10f} {"ok" if ok else "STALE"}')
        if not ok:
            violations += 1

sys.exit(1 if violations else 0)
