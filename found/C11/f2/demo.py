"""C11: assignment through a ViewParameter whose parent is a plain Parameter is done
in place on the parent's tensor.

(a) When the parent requires grad (torchtree's Optimizer sets requires_grad=True on
    every parameter it optimises and never resets it) the update raises
    "a view of a leaf Variable that requires grad is being used in an in-place
    operation".  The same assignment on the plain parameter, or through a view of a
    derived parent (CatParameter, TransformedParameter), works.
(b) When the assigned tensor carries a graph (a reparameterised draw, rsample, of a
    distribution whose x is a view) the parent's tensor keeps the whole history of
    the earlier draws: the second evaluate/backward cycle fails with "Trying to
    backward through the graph a second time", where a freshly built copy holding
    the same values gives the gradient.
"""
import contextlib
import io
import sys

import torch

torch.set_default_dtype(torch.float64)

from torchtree import Parameter, ViewParameter  # noqa: E402
from torchtree.core.parameter import CatParameter  # noqa: E402
from torchtree.distributions.distributions import Distribution  # noqa: E402
from torchtree.distributions.joint_distribution import (  # noqa: E402
    JointDistributionModel,
)
from torchtree.optim.optimizer import Optimizer  # noqa: E402

violations = 0


def build(mus_value):
    mus = Parameter('mus', mus_value.clone())
    mu0 = ViewParameter('mu0', mus, slice(0, 1))
    mu1 = ViewParameter('mu1', mus, slice(1, 3))
    prior0 = Distribution(
        'prior0',
        torch.distributions.LogNormal,
        mu0,
        {'loc': Parameter(None, torch.tensor([0.0])), 'scale': Parameter(None, torch.tensor([1.0]))},
    )
    prior1 = Distribution(
        'prior1',
        torch.distributions.Gamma,
        mu1,
        {'concentration': Parameter(None, torch.tensor([2.0])), 'rate': Parameter(None, torch.tensor([3.0]))},
    )
    joint = JointDistributionModel('joint', [prior0, prior1])
    return mus, mu0, mu1, joint


# ---------------------------------------------------------------- (a)
print('(a) update through a view after an optimisation of the parent')
mus, mu0, mu1, joint = build(torch.tensor([0.5, 1.5, 2.5]))
optimizer = Optimizer(
    'map', [mus], joint, torch.optim.SGD([mus.tensor], lr=1e-3), 2, checkpoint=None
)
with contextlib.redirect_stdout(io.StringIO()):
    optimizer.run()
print('    parent requires_grad after Optimizer.run():', mus.requires_grad)
new_value = torch.tensor([0.7])
try:
    mu0.tensor = new_value
    values = mus.tensor.detach().clone()
    observed = joint().item()
    expected = build(values)[3]().item()
    ok = abs(observed - expected) < 1e-12 and values[0].item() == 0.7
    print(f'    no exception; joint observed {observed:.12f} fresh copy {expected:.12f}')
    if not ok:
        violations += 1
except RuntimeError as e:
    violations += 1
    print('    VIOLATION: mu0.tensor = tensor([0.7]) raised RuntimeError:', e)

# controls: the same update on the plain parameter / through a view of a derived parent
mus_c = Parameter('mus', torch.tensor([0.5, 1.5, 2.5]))
mus_c.requires_grad = True
mus_c.tensor = torch.tensor([0.7, 1.5, 2.5])
a, b = Parameter('a', torch.tensor([0.5])), Parameter('b', torch.tensor([1.5, 2.5]))
cat = CatParameter('cat', [a, b], dim=-1)
view_of_cat = ViewParameter('v', cat, slice(0, 1))
a.requires_grad = True
view_of_cat.tensor = torch.tensor([0.7])
print('    controls (plain parameter, view of a CatParameter) with requires_grad=True: no exception')

# ---------------------------------------------------------------- (b)
print('(b) reparameterised draws through a view, two evaluate/backward cycles')


def build_b(loc_value, mus_value):
    mus, mu0, mu1, joint = build(mus_value)
    loc = Parameter('q.loc', loc_value.clone())
    scale = Parameter('q.scale', torch.tensor([0.1]))
    q = Distribution(
        'q', torch.distributions.LogNormal, mu0, {'loc': loc, 'scale': scale}
    )
    return mus, loc, q, joint


mus, loc, q, joint = build_b(torch.tensor([0.0]), torch.tensor([0.5, 1.5, 2.5]))
loc.requires_grad = True
for cycle in (1, 2):
    torch.manual_seed(cycle)
    q.rsample()
    loss = (joint() - q().sum())
    loc.tensor.grad = None
    # what a freshly built copy gives for the same draw
    mus_f, loc_f, q_f, joint_f = build_b(loc.tensor.detach(), torch.tensor([0.5, 1.5, 2.5]))
    loc_f.requires_grad = True
    torch.manual_seed(cycle)
    q_f.rsample()
    loss_f = (joint_f() - q_f().sum())
    loss_f.backward()
    try:
        loss.backward()
        ok = torch.allclose(loc.grad, loc_f.grad) and torch.allclose(loss, loss_f)
        print(f'    cycle {cycle}: loss {loss.item():.10f} (fresh {loss_f.item():.10f})'
              f' grad {loc.grad.tolist()} (fresh {loc_f.grad.tolist()})')
        if not ok:
            violations += 1
    except RuntimeError as e:
        violations += 1
        print(f'    cycle {cycle}: VIOLATION: backward raised: {str(e)[:75]}...'
              f' (fresh copy: grad {loc_f.grad.tolist()})')

sys.exit(1 if violations else 0)
