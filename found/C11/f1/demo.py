"""C11: SELBO (torchtree.variational.kl) keeps returning its cached value after its
`weights` parameter, or a parameter of one of its component distributions, changed.

The components are DeterministicNormal distributions (their draws are a fixed
function loc + eps * scale of the parameters), so the objective is a deterministic
function of the parameters and can be compared with a closed form and with a
freshly built copy holding the same parameter values.
"""
import math
import sys

import torch

torch.set_default_dtype(torch.float64)

from torchtree import Parameter  # noqa: E402
from torchtree.distributions.deterministic_normal import DeterministicNormal  # noqa: E402
from torchtree.distributions.distributions import Distribution  # noqa: E402
from torchtree.distributions.joint_distribution import (  # noqa: E402
    JointDistributionModel,
)
from torchtree.variational.kl import SELBO  # noqa: E402

N = 20
P_LOC = torch.tensor([1.0, -1.0])
P_SCALE = torch.tensor([0.5, 2.0])


def build(weights, locs, scales, eps=None):
    x = Parameter('x', torch.tensor([0.3, 0.4]))
    prior = Distribution(
        'p',
        torch.distributions.Normal,
        x,
        {'loc': Parameter('p.loc', P_LOC.clone()), 'scale': Parameter('p.scale', P_SCALE.clone())},
    )
    joint = JointDistributionModel('joint', [prior])
    components, params = [], {}
    for i in range(2):
        params[f'loc{i}'] = Parameter(f'loc{i}', locs[i].clone())
        params[f'scale{i}'] = Parameter(f'scale{i}', scales[i].clone())
        q = DeterministicNormal(
            f'q{i}', params[f'loc{i}'], params[f'scale{i}'], x, torch.Size([N])
        )
        if eps is not None:
            q.eps = eps[i].clone()
        components.append(q)
    params['weights'] = Parameter('weights', weights.clone())
    selbo = SELBO('selbo', components, params['weights'], joint, torch.Size([N]))
    return selbo, params, components


def normal_logpdf(z, loc, scale):
    return -0.5 * ((z - loc) / scale) ** 2 - scale.log() - 0.5 * math.log(2 * math.pi)


def closed_form(weights, locs, scales, eps):
    # SELBO = sum_i w_i * mean_s [ log p(z_is) - log q_i(z_is) ], z_is = loc_i + eps_is * scale_i
    total = 0.0
    for i in range(2):
        z = locs[i] + eps[i] * scales[i]
        log_p = normal_logpdf(z, P_LOC, P_SCALE).sum(-1)
        log_q = normal_logpdf(z, locs[i], scales[i]).sum(-1)
        total = total + weights[i] * (log_p - log_q).mean()
    return total


torch.manual_seed(3)
weights = torch.tensor([0.5, 0.5])
locs = [torch.tensor([0.0, 0.0]), torch.tensor([1.0, 1.0])]
scales = [torch.tensor([1.0, 1.0]), torch.tensor([0.5, 0.5])]
selbo, params, components = build(weights, locs, scales)
eps = [q.eps.clone() for q in components]

violations = 0


def check(label):
    global violations
    w = params['weights'].tensor
    cur_locs = [params['loc0'].tensor, params['loc1'].tensor]
    cur_scales = [params['scale0'].tensor, params['scale1'].tensor]
    observed = selbo().item()
    expected = closed_form(w, cur_locs, cur_scales, eps).item()
    fresh = build(w, cur_locs, cur_scales, eps)[0]().item()
    ok = abs(observed - expected) < 1e-9 and abs(observed - fresh) < 1e-9
    print(
        f'{label:<38} observed {observed:.10f}  closed form {expected:.10f}'
        f'  fresh copy {fresh:.10f}  {"ok" if ok else "STALE"}'
    )
    if not ok:
        violations += 1


check('initial')
params['weights'].tensor = torch.tensor([0.9, 0.1])
check('after weights <- [0.9, 0.1]')
params['loc0'].tensor = torch.tensor([2.0, 2.0])
check('after loc of component 0 <- [2, 2]')
params['scale1'].tensor = torch.tensor([0.1, 3.0])
check('after scale of component 1 <- [0.1, 3]')

sys.exit(1 if violations else 0)
