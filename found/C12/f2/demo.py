"""C12: PiecewiseExponentialCoalescentGridModel (CLI: --coalescent piecewise-exponential)
cannot be evaluated, let alone differentiated: log_prob divides the per-interval
integrals (one per pair of consecutive events/grid points) by `thetas * growth`
(one entry per grid cell): RuntimeError for every tree and every grid.

The script evaluates the model on a 5-taxon heterochronous time tree, back-propagates
and compares every gradient with central differences. For information it also compares
the value with a brute-force (mpmath quadrature) evaluation of
  - sum_k  int C(k(t),2)/N(t) dt  -  sum_coalescent log N(t_c)
with N(t) = theta_i exp(-sum_{j<i} g_j (s_{j+1}-s_j)) exp(-g_i (t - s_i)) in cell i,
the population size function the class itself uses for the coalescent events.
"""
import sys

import mpmath as mp
import torch

torch.set_default_dtype(torch.float64)

from torchtree import Parameter  # noqa: E402
from torchtree.evolution.coalescent import (  # noqa: E402
    PiecewiseExponentialCoalescentGridModel,
)
from torchtree.evolution.taxa import Taxa, Taxon  # noqa: E402
from torchtree.evolution.tree_model import TimeTreeModel  # noqa: E402

tip_heights = [0.0, 0.5, 1.0, 0.0, 2.0]
internal = [1.3, 3.4, 3.1, 5.2]  # (A,B), ((A,B),C), (D,E), root
taxa = Taxa('taxa', [Taxon(n, {'date': d}) for n, d in zip('ABCDE', tip_heights)])
tree = TimeTreeModel.from_json(
    {
        'id': 'tree',
        'type': 'TimeTreeModel',
        'newick': '(((A,B),C),(D,E));',
        'taxa': 'taxa',
        'internal_heights': {'id': 'heights', 'type': 'Parameter', 'tensor': internal},
    },
    {'taxa': taxa},
)
theta = Parameter('theta', torch.tensor([3.0, 2.0, 4.0, 2.5]))
growth = Parameter('growth', torch.tensor([0.3, -0.2, 0.15, 0.4]))
grid = Parameter('grid', torch.tensor([1.5, 3.2, 4.5]))
model = PiecewiseExponentialCoalescentGridModel('coal', theta, growth, grid, tree)
params = [theta, growth, tree._internal_heights]


def brute_force():
    mp.mp.dps = 30
    s = [mp.mpf(0)] + [mp.mpf(x) for x in grid.tensor.tolist()]
    th = [mp.mpf(x) for x in theta.tensor.tolist()]
    g = [mp.mpf(x) for x in growth.tensor.tolist()]
    heights = [mp.mpf(x) for x in tree._internal_heights.tensor.tolist()]

    def log_n(t):
        i = max(k for k in range(len(s)) if s[k] <= t)
        if t == s[i] and i > 0:
            i -= 1  # grid_i < t <= grid_{i+1}
        acc = mp.log(th[i])
        for j in range(i):
            acc -= g[j] * (s[j + 1] - s[j])
        return acc - g[i] * (t - s[i])

    events = sorted(
        [(mp.mpf(t), 1) for t in tip_heights] + [(t, -1) for t in heights]
    )
    points = sorted(set([e[0] for e in events] + s[1:]))
    total = mp.mpf(0)
    for a, b in zip(points[:-1], points[1:]):
        if b > events[-1][0]:
            break
        k = sum(e[1] for e in events if e[0] <= a)
        mid = (a + b) / 2
        i = max(q for q in range(len(s)) if s[q] <= mid)
        base = mp.log(th[i]) - sum(g[j] * (s[j + 1] - s[j]) for j in range(i))
        total -= k * (k - 1) / 2 * mp.quad(
            lambda t: mp.exp(-(base - g[i] * (t - s[i]))), [a, b]
        )
    for t in heights:
        total -= log_n(t)
    return float(total)


try:
    for p in params:
        p.requires_grad = True
    value = model()
    value.sum().backward()
except Exception as e:  # noqa: BLE001
    print(f'log_prob / backward raised {type(e).__name__}: {e}')
    print('expected: a finite log density, here (brute force) %.10f' % brute_force())
    print('VIOLATED: the density cannot be evaluated, there is no gradient')
    sys.exit(1)

expected = brute_force()
print(f'log density = {value.item():.10f}   brute force = {expected:.10f}')
if abs(value.item() - expected) > 1.0e-8 * abs(expected):
    print('  (warning: the value differs from the brute-force evaluation)')

violated = False
eps = 1.0e-6
for p in params:
    for i in range(p.tensor.numel()):
        old = p.tensor.data[i].item()
        vals = []
        for sign in (1.0, -1.0):
            p.tensor.data[i] = old + sign * eps
            p.fire_parameter_changed()
            with torch.no_grad():
                vals.append(model().sum().item())
        p.tensor.data[i] = old
        p.fire_parameter_changed()
        numeric = (vals[0] - vals[1]) / (2 * eps)
        autograd = float('nan') if p.tensor.grad is None else p.tensor.grad[i].item()
        ok = abs(autograd - numeric) <= 1.0e-5 * max(1.0, abs(numeric))
        print(
            f'  d/d {p.id}[{i}]: autograd={autograd:+.8f} '
            f'numerical derivative={numeric:+.8f} {"ok" if ok else "VIOLATION"}'
        )
        violated |= not ok
if violated:
    print('VIOLATED: a gradient differs from the numerical derivative')
    sys.exit(1)
print('property holds')
sys.exit(0)
