"""C12: BDSKModel - the gradient of delta is NaN as soon as one epoch has no
psi-sampling (sampling proportion s=0, hence psi = s*delta = 0), although the density is
finite and smooth in delta.

Three standard configurations (two epochs, the boundary 3 time units after the origin):
 C. no sampling before the first sample: s = [0, 0.3], no rho, every tip is
    psi-sampled in the recent epoch (the usual skyline set-up)
 A. tips sampled through rho at the present and through psi in the past
    (s = [0.3, 0.0], rho = [0.0, 0.4])
 B. rho-sampling at two time points, no psi-sampling at all (s = [0, 0], rho = [0.2, 0.4])
"""
import sys

import torch

torch.set_default_dtype(torch.float64)

from torchtree import Parameter  # noqa: E402
from torchtree.evolution.bdsk import BDSKModel  # noqa: E402
from torchtree.evolution.taxa import Taxa, Taxon  # noqa: E402
from torchtree.evolution.tree_model import TimeTreeModel  # noqa: E402


def build(tip_heights, s_values, rho_values, internal=(3.8, 4.2, 5.0)):
    taxa = Taxa('taxa', [Taxon(n, {'date': d}) for n, d in zip('ABCD', tip_heights)])
    tree = TimeTreeModel.from_json(
        {
            'id': 'tree',
            'type': 'TimeTreeModel',
            'newick': '((A,B),(C,D));',
            'taxa': 'taxa',
            'internal_heights': {
                'id': 'heights',
                'type': 'Parameter',
                'tensor': list(internal),
            },
        },
        {'taxa': taxa},
    )
    R = Parameter('R', torch.tensor([1.5, 1.2]))
    delta = Parameter('delta', torch.tensor([1.5, 1.1]))
    s = Parameter('s', torch.tensor(s_values))  # fixed
    rho = None if rho_values is None else Parameter('rho', torch.tensor(rho_values))
    origin = Parameter('origin', torch.tensor([6.0]))
    times = Parameter('times', torch.tensor([0.0, 3.0]))
    model = BDSKModel(None, tree, R, delta, s, rho=rho, origin=origin, times=times)
    return model, [R, delta, tree._internal_heights]


def check(name, tip_heights, s_values, rho_values, **kwargs):
    model, params = build(tip_heights, s_values, rho_values, **kwargs)
    for p in params:
        p.requires_grad = True
    value = model()
    value.sum().backward()
    violated = False
    print(f'--- {name}: log density = {value.item():.10f}')
    eps = 1.0e-6
    for p in params:
        for i in range(p.tensor.numel()):
            old = p.tensor.data[i].item()
            vals = []
            for sign in (1.0, -1.0):
                p.tensor.data[i] = old + sign * eps
                p.fire_parameter_changed()
                with torch.no_grad():
                    vals.append(model().sum().item())
            p.tensor.data[i] = old
            p.fire_parameter_changed()
            numeric = (vals[0] - vals[1]) / (2 * eps)
            autograd = p.tensor.grad[i].item()
            ok = abs(autograd - numeric) <= 1.0e-5 * max(1.0, abs(numeric))
            print(
                f'  d/d {p.id}[{i}]: autograd={autograd:+.8f} '
                f'numerical derivative={numeric:+.8f} {"ok" if ok else "VIOLATION"}'
            )
            violated |= not ok
    return violated


bad = check('C: no sampling before the first sample', [0.0, 0.5, 1.0, 1.5],
            [0.0, 0.3], None, internal=(0.9, 2.6, 2.9))
bad |= check('A: rho at the present, psi in the past', [0.0, 0.0, 3.2, 3.5],
             [0.3, 0.0], [0.0, 0.4])
bad |= check('B: rho-sampling at two times, no psi', [0.0, 0.0, 3.0, 3.0],
             [0.0, 0.0], [0.2, 0.4])
if bad:
    print('VIOLATED: a gradient differs from the numerical derivative (nan)')
    sys.exit(1)
print('property holds')
sys.exit(0)
