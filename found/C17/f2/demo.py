"""C17 - the weights of a RealNVP variational distribution are written to the
checkpoint but never restored from it.

Specification (what `torchtree-cli advi -q realnvp` writes, reduced): ELBO with a
RealNVP flow as variational distribution, optimised with Adam.  The weights of the
flow are nn.Parameters wrapped by RealNVP itself into Parameters called
<id>.realnvp.<k>; they are the `parameters` of the Optimizer and are written to the
checkpoint.  A restart (`torchtree spec.json -c checkpoint.json`) re-injects the
checkpointed tensors by rewriting the Parameter objects of the specification - the
weights are not in the specification, so the network is initialised afresh (at
random) while the Adam moments and the iteration counter come from the checkpoint.

Expected values: the content of the checkpoint file, read independently with json.
Observed values: the tensors the restarted Optimizer holds before it runs (the
object built by the command-line entry point is caught when it is handed its state).
"""
import contextlib
import io
import json
import os
import sys
import tempfile

import torch

import torchtree.torchtree as entry
from torchtree.optim.optimizer import Optimizer

K = 5


def spec(checkpoint):
    target = {
        "id": "joint", "type": "JointDistributionModel", "distributions": [{
            "id": "target", "type": "Distribution",
            "distribution": "torch.distributions.Normal",
            "x": {"id": "x", "type": "Parameter", "tensor": [0.5, 0.5]},
            "parameters": {
                "loc": {"id": "loc", "type": "Parameter", "tensor": [1.0, -1.0]},
                "scale": {"id": "scale", "type": "Parameter", "tensor": [0.5, 2.0]}}}]}
    var = {
        "id": "var", "type": "RealNVP", "x": "x",
        "base": {
            "id": "var.base", "type": "Distribution",
            "distribution": "torchtree.distributions.Normal",
            "x": {"id": "var.dummy", "type": "Parameter", "zeros": 2},
            "parameters": {
                "loc": {"id": "var.base.loc", "type": "Parameter", "zeros": 2},
                "scale": {"id": "var.base.scale", "type": "Parameter", "ones": 2}}},
        "n_blocks": 2, "hidden_size": 2, "n_hidden": 1}
    advi = {
        "id": "advi", "type": "Optimizer", "algorithm": "torch.optim.Adam",
        "options": {"lr": 0.01}, "maximize": True, "iterations": K,
        "loss": {"id": "elbo", "type": "ELBO", "samples": 3, "joint": "joint",
                 "variational": var},
        "parameters": ["var"], "checkpoint": checkpoint, "checkpoint_frequency": K}
    return [target, advi]


def torchtree_main(*args):
    argv = sys.argv
    sys.argv = ["torchtree", *args]
    try:
        with contextlib.redirect_stdout(io.StringIO()):
            entry.main()
    finally:
        sys.argv = argv


def main():
    d = tempfile.mkdtemp()
    checkpoint = os.path.join(d, "checkpoint.json")
    spec_file = os.path.join(d, "spec.json")
    with open(spec_file, "w") as fp:
        json.dump(spec(checkpoint), fp)

    torchtree_main(spec_file, "-s", "1")

    with open(checkpoint) as fp:
        content = json.load(fp)
    expected = {p["id"]: torch.tensor(p["tensor"], dtype=torch.float64)
                for p in content[1:]}
    print(f"checkpoint: iteration {content[0]['iteration']}, {len(expected)} parameters "
          f"({', '.join(list(expected)[:3])}, ...)")

    # observe the Optimizer built by the entry point (no change of behaviour)
    caught = []
    load_state_dict = Optimizer.load_state_dict

    def spy(self, state_dict):
        load_state_dict(self, state_dict)
        caught.append(self)

    Optimizer.load_state_dict = spy
    try:
        torchtree_main(spec_file, "-c", checkpoint, "--dry", "-s", "2")
    finally:
        Optimizer.load_state_dict = load_state_dict
    (optimizer,) = caught

    state = optimizer.optimizer.state_dict()["state"]
    moments = sum(float(s["exp_avg"].abs().sum()) for s in state.values())
    print(f"restarted: iteration {optimizer._epoch}, Adam moments restored for "
          f"{len(state)} tensors (sum |exp_avg| = {moments:.4f})")

    wrong = 0
    for parameter in optimizer.parameters:
        observed = parameter.tensor.detach()
        want = expected[parameter.id]
        same = observed.shape == want.shape and torch.equal(observed, want)
        wrong += not same
        if parameter.id.endswith((".0", ".1")) or not same and wrong <= 2:
            print(f"  {parameter.id}: checkpoint {want.flatten().tolist()[:2]} "
                  f"restarted {observed.flatten().tolist()[:2]} {'ok' if same else 'DIFFERENT'}")
    print(f"{wrong} of {len(optimizer.parameters)} parameters differ from the checkpoint")
    if wrong:
        print("VIOLATED: the restarted run does not start from the checkpointed weights")
        return 1
    print("holds")
    return 0


if __name__ == "__main__":
    torch.set_default_dtype(torch.float64)
    sys.exit(main())
