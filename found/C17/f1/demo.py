"""C17 - a tree model with keep_branch_lengths overwrites the parameters restored
from a checkpoint with the branch lengths of its newick tree.

Specification (what `torchtree-cli map --keep` writes, reduced): an unrooted tree
model starting from the branch lengths of its newick tree, an Exponential(rate)
prior on the branch lengths, plain SGD maximising the prior.  The run is
deterministic and has a closed form: every iteration moves each branch length by
-lr * rate, so after t iterations  x_t = x_newick - lr * rate * t.

Uninterrupted run of N iterations against a run restarted (through the
command-line entry point, -c) from the checkpoint written at iteration K.
"""
import contextlib
import io
import json
import os
import sys
import tempfile

import torch

import torchtree.torchtree as entry

LR, RATE, N, K = 0.0005, 10.0, 6, 3
NEWICK = "((A:0.11,B:0.23):0.05,C:0.37,D:0.41);"


def spec(iterations, checkpoint):
    tree = {
        "id": "tree", "type": "UnRootedTreeModel", "newick": NEWICK,
        "keep_branch_lengths": True,
        "branch_lengths": {"id": "blens", "type": "Parameter", "tensor": 0.1, "full": [5]},
        "taxa": {"id": "taxa", "type": "Taxa",
                 "taxa": [{"id": t, "type": "Taxon"} for t in "ABCD"]},
    }
    prior = {
        "id": "joint", "type": "JointDistributionModel", "distributions": [{
            "id": "prior", "type": "Distribution",
            "distribution": "torch.distributions.Exponential", "x": "blens",
            "parameters": {"rate": {"id": "rate", "type": "Parameter", "tensor": [RATE]}}}],
    }
    optimizer = {
        "id": "map", "type": "Optimizer", "algorithm": "torch.optim.SGD",
        "options": {"lr": LR}, "maximize": True, "iterations": iterations,
        "loss": "joint", "parameters": ["blens"], "checkpoint": checkpoint,
        "checkpoint_frequency": 1, "checkpoint_all": True,
    }
    return [tree, prior, optimizer]


def torchtree_main(spec_file, *args):
    argv = sys.argv
    sys.argv = ["torchtree", spec_file, *args]
    try:
        with contextlib.redirect_stdout(io.StringIO()):
            entry.main()
    finally:
        sys.argv = argv


def blens(checkpoint_file):
    with open(checkpoint_file) as fp:
        content = json.load(fp)
    (param,) = [p for p in content if p.get("id") == "blens"]
    return torch.tensor(param["tensor"], dtype=torch.float64)


def main():
    d = tempfile.mkdtemp()
    a, b = os.path.join(d, "a.json"), os.path.join(d, "b.json")
    with open(os.path.join(d, "spec_a.json"), "w") as fp:
        json.dump(spec(N, a), fp)
    # the checkpoint of iteration K holds "iteration": K and a restart runs iteration
    # K again (known): N - 1 gives the restarted run the same total number of updates
    with open(os.path.join(d, "spec_b.json"), "w") as fp:
        json.dump(spec(N - 1, b), fp)

    torchtree_main(os.path.join(d, "spec_a.json"))
    torchtree_main(os.path.join(d, "spec_b.json"), "-c", os.path.join(d, f"a-{K}.json"))

    # closed form, from the newick branch lengths in the order of the checkpoint
    x0 = blens(os.path.join(d, "a-1.json")) + LR * RATE
    failed = False
    print(f"checkpoint at iteration {K}: {blens(os.path.join(d, f'a-{K}.json')).tolist()}")
    for t in range(K + 1, N + 1):
        expected = x0 - LR * RATE * t
        uninterrupted = blens(os.path.join(d, f"a-{t}.json"))
        resumed = blens(os.path.join(d, f"b-{t - 1}.json"))
        ok_a = torch.allclose(uninterrupted, expected, rtol=0, atol=1e-12)
        ok_b = torch.allclose(resumed, expected, rtol=0, atol=1e-12)
        print(f"after {t} updates  expected {[round(v, 6) for v in expected.tolist()]}")
        print(f"   uninterrupted   {[round(v, 6) for v in uninterrupted.tolist()]} {'ok' if ok_a else 'WRONG'}")
        print(f"   resumed from {K}  {[round(v, 6) for v in resumed.tolist()]} {'ok' if ok_b else 'WRONG'}")
        failed = failed or not (ok_a and ok_b)
    if failed:
        print("VIOLATED: the restarted run does not continue from the checkpointed branch lengths")
        return 1
    print("holds")
    return 0


if __name__ == "__main__":
    torch.set_default_dtype(torch.float64)
    sys.exit(main())
