"""Kingman coalescent density by piecewise exact integration (mpmath, 50 digits), written from the documented
population-size functions.  No torchtree import.

log p = - sum over inter-event intervals of C(k,2) * int 1/N(t) dt  -  sum over coalescent times of log N(t_c)
"""
from __future__ import annotations

import mpmath as mp

mp.mp.dps = 50


class Demography:
    """N(t) given as pieces: breakpoints b_0=0 < b_1 < ... ; piece i covers [b_i, b_{i+1}); the last is unbounded."""

    def __init__(self, breaks, kind, params):
        self.breaks = [mp.mpf(b) for b in breaks]  # piece starts, first is 0
        self.kind = kind
        self.params = params

    def piece(self, t):
        i = 0
        for j, b in enumerate(self.breaks):
            if t >= b:
                i = j
        return i

    def N(self, t, left=False):
        """Population size at t. left=True: the value on the piece that ends at t when t is a breakpoint
        (needed for the skyride where the k-th coalescent closes the k-th interval)."""
        t = mp.mpf(t)
        i = self.piece(t)
        if left and i > 0 and t == self.breaks[i]:
            i -= 1
        return self._N_piece(i, t)

    def _N_piece(self, i, t):
        k = self.kind
        if k == "const":
            return mp.mpf(self.params["theta"][i])
        if k == "exp":
            return mp.mpf(self.params["theta"]) * mp.e ** (-mp.mpf(self.params["growth"]) * t)
        if k == "linear":
            th = self.params["theta"]
            if i + 1 >= len(self.breaks):
                return mp.mpf(th[-1])
            x0, x1 = self.breaks[i], self.breaks[i + 1]
            return mp.mpf(th[i]) + (mp.mpf(th[i + 1]) - mp.mpf(th[i])) * (t - x0) / (x1 - x0)
        raise ValueError(k)

    def integral(self, a, b):
        """int_a^b dt / N(t), split at every breakpoint inside (a, b)."""
        a, b = mp.mpf(a), mp.mpf(b)
        if b <= a:
            return mp.mpf(0)
        cuts = [a] + [x for x in self.breaks if a < x < b] + [b]
        tot = mp.mpf(0)
        for lo, hi in zip(cuts[:-1], cuts[1:]):
            i = self.piece(lo)
            tot += self._int_piece(i, lo, hi)
        return tot

    def _int_piece(self, i, lo, hi):
        k = self.kind
        if k == "const":
            return (hi - lo) / mp.mpf(self.params["theta"][i])
        if k == "exp":
            g = mp.mpf(self.params["growth"])
            th = mp.mpf(self.params["theta"])
            if g == 0:
                return (hi - lo) / th
            return (mp.e ** (g * hi) - mp.e ** (g * lo)) / (th * g)
        if k == "linear":
            n0 = self._N_piece(i, lo)
            n1 = self._N_piece(i, hi) if i + 1 < len(self.breaks) else n0
            if i + 1 >= len(self.breaks) or n0 == n1:
                return (hi - lo) / n0
            slope = (n1 - n0) / (hi - lo)
            return mp.log(n1 / n0) / slope
        raise ValueError(k)


def constant(theta):
    return Demography([0], "const", {"theta": [theta]})


def exponential(theta, growth):
    return Demography([0], "exp", {"theta": theta, "growth": growth})


def skygrid(thetas, grid):
    """theta_k on [g_{k-1}, g_k) with g_{-1}=0; last value beyond the grid."""
    return Demography([0] + list(grid), "const", {"theta": list(thetas)})


def skyride(thetas, coalescent_times):
    """theta_k on the k-th inter-coalescent interval (c_{k-1}, c_k], c_0 = 0."""
    cs = sorted(coalescent_times)
    return Demography([0] + cs[:-1], "const", {"theta": list(thetas)})


def piecewise_linear(thetas, grid):
    """linear between the points (0, theta_0), (g_0, theta_1), ...; constant theta_last beyond the last grid point."""
    return Demography([0] + list(grid), "linear", {"theta": list(thetas)})


def log_density(sampling_times, coalescent_times, demo, left_at_coalescent=False):
    s = sorted(mp.mpf(x) for x in sampling_times)
    c = sorted(mp.mpf(x) for x in coalescent_times)
    events = sorted([(t, 0) for t in s] + [(t, 1) for t in c])  # samplings before coalescents at equal times
    k = 0
    logp = mp.mpf(0)
    prev = None
    for t, kind in events:
        if prev is not None and t > prev and k >= 2:
            logp -= mp.mpf(k * (k - 1)) / 2 * demo.integral(prev, t)
        if kind == 0:
            k += 1
        else:
            if k < 2:
                raise ValueError("invalid genealogy: coalescence with fewer than two lineages")
            logp -= mp.log(demo.N(t, left=left_at_coalescent))
            k -= 1
        prev = t
    return logp


def simulate(rng, sampling_times, scale):
    """Coalescent times valid w.r.t. lineage availability (constant-size coalescent with size `scale`)."""
    s = sorted(float(x) for x in sampling_times)
    t = s[0]
    k = 0
    i = 0
    out = []
    n = len(s)
    while len(out) < n - 1:
        while i < n and s[i] <= t:
            k += 1
            i += 1
        if k < 2:
            t = s[i]
            continue
        w = rng.exponential(scale / (k * (k - 1) / 2.0))
        if i < n and t + w > s[i]:
            t = s[i]
            continue
        t = t + w
        out.append(t)
        k -= 1
    return out
