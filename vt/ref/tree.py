"""Independent tree utilities (no torchtree / dendropy import).

Topologies are nested tuples of leaf indices, e.g. ((0, 1), (2, (3, 4))).
A `Tree` is a list of nodes in post-order with explicit parent/children and branch lengths.
"""
from __future__ import annotations

import math
import re


# ---------------------------------------------------------------- enumeration / generation
def all_rooted_topologies(n):
    """All (2n-3)!! labelled rooted binary topologies on leaves 0..n-1."""
    if n == 1:
        return [0]
    if n == 2:
        return [(0, 1)]
    out = []
    for t in all_rooted_topologies(n - 1):
        out.extend(_insertions(t, n - 1))
    return out


def _insertions(t, leaf):
    """Insert `leaf` on every edge of t (including the root edge)."""
    res = [(t, leaf)]
    if isinstance(t, tuple):
        a, b = t
        for x in _insertions(a, leaf):
            res.append((x, b))
        for y in _insertions(b, leaf):
            res.append((a, y))
    return res


def n_rooted(n):
    return math.prod(range(2 * n - 3, 0, -2)) if n > 1 else 1


def random_topology(n, rng, shape="random"):
    leaves = list(range(n))
    rng.shuffle(leaves)
    if shape == "caterpillar":
        t = leaves[0]
        for x in leaves[1:]:
            t = (t, x) if rng.random() < 0.5 else (x, t)
        return t
    if shape == "balanced":
        level = leaves
        while len(level) > 1:
            nxt = []
            for i in range(0, len(level) - 1, 2):
                nxt.append((level[i], level[i + 1]))
            if len(level) % 2:
                nxt.append(level[-1])
            level = nxt
        return level[0]
    nodes = leaves
    while len(nodes) > 1:
        i = int(rng.integers(len(nodes)))
        a = nodes.pop(i)
        j = int(rng.integers(len(nodes)))
        b = nodes.pop(j)
        nodes.append((a, b))
    return nodes[0]


def leaves_of(t):
    if isinstance(t, tuple):
        out = []
        for c in t:
            out.extend(leaves_of(c))
        return out
    return [t]


def swap_children(t, rng, p=0.5):
    if not isinstance(t, tuple):
        return t
    kids = [swap_children(c, rng, p) for c in t]
    if rng.random() < p:
        kids = kids[::-1]
    return tuple(kids)


# ---------------------------------------------------------------- explicit tree
class Node:
    __slots__ = ("name", "children", "parent", "length", "height", "idx", "leaf")

    def __init__(self, name=None):
        self.name = name
        self.children = []
        self.parent = None
        self.length = None
        self.height = None
        self.idx = None
        self.leaf = None

    def is_leaf(self):
        return not self.children


def build(t, names=None):
    """nested tuples -> root Node; leaves carry .leaf (int) and .name.  Iterative."""
    root = Node()
    stack = [(t, root)]
    while stack:
        sub, n = stack.pop()
        if isinstance(sub, tuple):
            for c in sub:
                ch = Node()
                ch.parent = n
                n.children.append(ch)
                stack.append((c, ch))
        else:
            n.name = names[sub] if names is not None else str(sub)
            n.leaf = sub
    return root


def postorder(root):
    out = []
    stack = [(root, False)]
    while stack:
        n, done = stack.pop()
        if done or n.is_leaf():
            out.append(n)
        else:
            stack.append((n, True))
            for c in reversed(n.children):
                stack.append((c, False))
    return out


def preorder(root):
    out = []
    stack = [root]
    while stack:
        n = stack.pop()
        out.append(n)
        for c in reversed(n.children):
            stack.append(c)
    return out


def to_newick(root, lengths=True, fmt="%.17g"):
    """Iterative writer (deep caterpillars exceed the interpreter's C recursion limit otherwise)."""
    text = {}
    for n in postorder(root):
        if n.is_leaf():
            s = n.name
        else:
            s = "(" + ",".join(text.pop(id(c)) for c in n.children) + ")"
        if lengths and n.parent is not None and n.length is not None:
            s += ":" + (fmt % n.length)
        text[id(n)] = s
    return text[id(root)] + ";"


_tok = re.compile(r"\s*([(),;:]|[^(),;:\s]+)")


def parse_newick(s):
    toks = _tok.findall(s)
    pos = 0

    def node():
        nonlocal pos
        n = Node()
        if toks[pos] == "(":
            pos += 1
            while True:
                c = node()
                c.parent = n
                n.children.append(c)
                if toks[pos] == ",":
                    pos += 1
                    continue
                if toks[pos] == ")":
                    pos += 1
                    break
                raise ValueError("bad newick")
        if pos < len(toks) and toks[pos] not in "(),;:":
            n.name = toks[pos].strip("'")
            pos += 1
        if pos < len(toks) and toks[pos] == ":":
            n.length = float(toks[pos + 1])
            pos += 2
        return n

    return node()


def set_lengths(root, rng, lo=1e-3, hi=1.0, dist="loguniform"):
    for n in postorder(root):
        if n.parent is not None:
            if dist == "loguniform":
                n.length = float(math.exp(rng.uniform(math.log(lo), math.log(hi))))
            else:
                n.length = float(rng.uniform(lo, hi))


def heights_from_lengths(root, tip_heights=None):
    """Ultrametric-agnostic: node height = max over children (child height + length)."""
    for n in postorder(root):
        if n.is_leaf():
            n.height = 0.0 if tip_heights is None else tip_heights[n.leaf]
        else:
            n.height = max(c.height + c.length for c in n.children)


def random_time_tree(t, rng, tip_heights, names=None, scale=1.0):
    """Assign node heights: each internal node above the max of its children by Exp(scale)."""
    root = build(t, names)
    for n in postorder(root):
        if n.is_leaf():
            n.height = float(tip_heights[n.leaf])
        else:
            n.height = max(c.height for c in n.children) + float(rng.exponential(scale)) + 1e-3 * scale
    for n in postorder(root):
        if n.parent is not None:
            n.length = n.parent.height - n.height
    return root


def reroot_all(root):
    """For an unrooted interpretation of the (rooted, binary) tree: yield, for every branch of the
    unrooted tree, a new rooted binary tree (nested structure of fresh Nodes) rooted on that branch.
    The caller splits the branch at a fraction. Branch lengths of the two root branches of the input are
    summed into one unrooted branch."""
    # Build undirected adjacency with lengths
    nodes = postorder(root)
    ids = {id(n): i for i, n in enumerate(nodes)}
    adj = {i: [] for i in range(len(nodes))}
    a, b = root.children
    ra, rb = ids[id(a)], ids[id(b)]
    for n in nodes:
        if n.parent is None or n.parent is root:
            continue
        i, j = ids[id(n)], ids[id(n.parent)]
        adj[i].append((j, n.length))
        adj[j].append((i, n.length))
    L = a.length + b.length
    adj[ra].append((rb, L))
    adj[rb].append((ra, L))
    edges = []
    for i in adj:
        for j, l in adj[i]:
            if i < j:
                edges.append((i, j, l))

    def grow(i, frm):
        n = Node(nodes[i].name)
        n.leaf = nodes[i].leaf
        for j, l in adj[i]:
            if j == frm:
                continue
            c = grow(j, i)
            c.length = l
            c.parent = n
            n.children.append(c)
        return n

    out = []
    for i, j, l in edges:
        r = Node()
        x = grow(i, j)
        y = grow(j, i)
        x.parent = r
        y.parent = r
        r.children = [x, y]
        out.append((r, x, y, l))
    return out
