"""Reference likelihoods: explicit marginalisation over all internal-state assignments (brute force),
and an independent log-space pruning recursion for trees too large for brute force.  numpy only."""
from __future__ import annotations

import string

import numpy as np

from . import tree as rt

_LETTERS = string.ascii_letters


def brute_force_site_likelihoods(root, P_of, pi, tips, cat_p):
    """Sum over every assignment of states to internal nodes and every rate category.

    root   : rt.Node tree (leaves carry .leaf index)
    P_of   : function(node, k) -> transition matrix of the branch above `node` in category k
    pi     : root frequencies [S]
    tips   : array [n_leaves, n_sites, S] of tip compatibility vectors
    cat_p  : category probabilities [K]
    returns: array [n_sites] of site likelihoods
    """
    nodes = rt.postorder(root)
    internal = [n for n in nodes if not n.is_leaf()]
    letter = {id(n): _LETTERS[i] for i, n in enumerate(internal)}
    n_sites = tips.shape[1]
    out = np.zeros(n_sites)
    for k, pk in enumerate(cat_p):
        for s in range(n_sites):
            operands = [np.asarray(pi, dtype=float)]
            subs = [letter[id(root)]]
            for n in nodes:
                if n.parent is None:
                    continue
                P = P_of(n, k)
                if n.is_leaf():
                    operands.append(P @ tips[n.leaf, s])
                    subs.append(letter[id(n.parent)])
                else:
                    operands.append(P)
                    subs.append(letter[id(n.parent)] + letter[id(n)])
            # optimize=False: the literal nested sum over all index values (S^(n-1) assignments)
            out[s] += pk * np.einsum(",".join(subs) + "->", *operands, optimize=False)
    return out


def pruning_log_site_likelihoods(root, P_of, pi, tips, cat_p):
    """Felsenstein recursion carried out in log space (log-sum-exp), so per-site values never leave
    the representable range whatever the tree size.  Returns log site likelihoods [n_sites]."""
    nodes = rt.postorder(root)
    n_sites = tips.shape[1]
    S = len(pi)
    K = len(cat_p)
    with np.errstate(divide="ignore"):
        logpi = np.log(np.asarray(pi, dtype=float))
        logcat = np.log(np.asarray(cat_p, dtype=float))
        site_k = np.empty((K, n_sites))
        for k in range(K):
            L = {}
            for n in nodes:
                if n.is_leaf():
                    L[id(n)] = np.log(tips[n.leaf])  # [sites, S]
                else:
                    acc = np.zeros((n_sites, S))
                    for c in n.children:
                        lp = np.log(P_of(c, k))  # [S,S]
                        x = lp[None, :, :] + L[id(c)][:, None, :]  # [sites, S(parent), S(child)]
                        m = x.max(-1, keepdims=True)
                        m = np.where(np.isfinite(m), m, 0.0)
                        acc += (m[..., 0] + np.log(np.exp(x - m).sum(-1)))
                        del L[id(c)]
                    L[id(n)] = acc
            x = L[id(root)] + logpi[None, :]
            m = x.max(-1, keepdims=True)
            m = np.where(np.isfinite(m), m, 0.0)
            site_k[k] = m[:, 0] + np.log(np.exp(x - m).sum(-1)) + logcat[k]
        m = site_k.max(0, keepdims=True)
        m = np.where(np.isfinite(m), m, 0.0)
        return m[0] + np.log(np.exp(site_k - m).sum(0))


def pruning_site_likelihoods_linear(root, P_of, pi, tips, cat_p):
    """Plain (probability-space) recursion; used only for mechanism diagnosis with matrices that may carry
    round-off (tiny negative entries), where the log-space recursion does not apply."""
    nodes = rt.postorder(root)
    n_sites = tips.shape[1]
    out = np.zeros(n_sites)
    for k, pk in enumerate(cat_p):
        L = {}
        for n in nodes:
            if n.is_leaf():
                L[id(n)] = tips[n.leaf]  # [sites,S]
            else:
                acc = np.ones((n_sites, len(pi)))
                for c in n.children:
                    acc = acc * (L[id(c)] @ P_of(c, k).T)
                L[id(n)] = acc
        out += pk * (L[id(root)] @ np.asarray(pi, dtype=float))
    return out


def log_likelihood(site_loglik, weights):
    return float(np.sum(np.asarray(site_loglik) * np.asarray(weights)))
