"""Birth-death-sampling reference densities.  No torchtree import.

(1) numerical integration of the master equations along the tree (scipy solve_ivp):
      dE/dh = mu - (lambda+mu+psi) E + lambda E^2                (probability of leaving no sample)
      dlog g/dh = -(lambda+mu+psi) + 2 lambda E                   (along every branch)
    with jumps at rho-sampling boundaries, tip values psi*(r+(1-r)E) / rho, lambda*g_l*g_r at branchings
    (oriented tree), optional conditioning on survival.  h = height (time before the present).
(2) the closed form for a single epoch (constant rates), written from the Riccati solution (Stadler 2010).
"""
from __future__ import annotations

import math

import mpmath as mp
import numpy as np
from scipy.integrate import solve_ivp


class Skyline:
    """Piecewise-constant rates by height.  Epoch j covers heights (b_j, b_{j+1}], b_0 = 0 (present), b_m = origin;
    epochs are numbered from the present backwards here.  rho[j] is the sampling probability at height b_j
    (rho[0] at the present)."""

    def __init__(self, bounds, lam, mu, psi, rho, r=None, rtol=1e-12):
        self.rtol = rtol
        self.b = [float(x) for x in bounds]  # b_0=0 < b_1 < ... < b_m = origin
        self.lam, self.mu, self.psi = list(lam), list(mu), list(psi)
        self.rho = list(rho)  # length m: at b_0..b_{m-1}
        self.r = None if r is None else list(r)
        self._solve()

    def epoch(self, h):
        """Epoch containing height h for a point event (boundaries belong to the older epoch's start: (b_j, b_{j+1}])."""
        for j in range(len(self.b) - 1):
            if h <= self.b[j + 1]:
                return j
        return len(self.b) - 2

    def _solve(self):
        """Integrated in terms of u = 1 - E (the probability of leaving a sample): u' = psi + (lambda - mu - psi) u - lambda u^2 and
        Phi' = (lambda - mu - psi) - 2 lambda u, with a relative tolerance on u.  E itself sits on an unstable fixed point (E = 1 for
        lambda > mu, psi = 0): once 1 - E is below round-off in E - an old lineage of an epidemic that has since declined - the
        E-equation stays there for ever, whereas u = 1e-20 grows back as it should."""
        self.sol = []
        u = float(self.rho[0])
        Phi = 0.0
        self.E_at_bound = [1.0 - u]
        self.Phi_at_bound = [0.0]
        self.u_at_bound = [u]
        for j in range(len(self.b) - 1):
            lam, mu, psi = self.lam[j], self.mu[j], self.psi[j]

            def f(h, y, lam=lam, mu=mu, psi=psi):
                return [psi + (lam - mu - psi) * y[0] - lam * y[0] * y[0], (lam - mu - psi) - 2.0 * lam * y[0]]

            if u == 0.0 and psi == 0.0:
                # nothing can be sampled from here on back to the next sampling event: u stays 0, Phi is linear
                b0, Phi0, slope = self.b[j], Phi, lam - mu - psi
                self.sol.append(lambda h, b0=b0, Phi0=Phi0, slope=slope: [0.0, Phi0 + slope * (h - b0)])
                Phi = Phi0 + slope * (self.b[j + 1] - b0)
            else:
                s = solve_ivp(f, (self.b[j], self.b[j + 1]), [u, Phi], method="DOP853", rtol=self.rtol, atol=[1e-250 if u > 0 else 1e-18, min(1e-14, self.rtol * 1e-2)], dense_output=True)
                if not s.success:
                    raise RuntimeError("reference ODE integration failed: " + str(s.message))
                self.sol.append(s.sol)
                u, Phi = float(s.y[0, -1]), float(s.y[1, -1])
            self.E_at_bound.append(1.0 - u)  # value just below (younger side of) the boundary b_{j+1}
            self.Phi_at_bound.append(Phi)
            self.u_at_bound.append(u)
            if j + 1 < len(self.b) - 1:
                u = self.rho[j + 1] + u * (1.0 - self.rho[j + 1])

    def E(self, h, j=None):
        """E just *younger* than a boundary when h is a boundary (the value a lineage sampled there sees)."""
        j = self.epoch(h) if j is None else j
        return 1.0 - float(self.sol[j](h)[0])

    def Phi(self, h, j=None):
        j = self.epoch(h) if j is None else j
        return float(self.sol[j](h)[1])

    def log_g_ratio(self, ha, hb):
        """log g(hb) - log g(ha) for a lineage surviving from height ha to hb > ha (boundaries strictly inside
        (ha, hb), or at ha when the lineage exists just after ha ... conventions: a boundary at exactly ha is
        NOT crossed if the lineage starts there (it is sampled there / born there); a boundary at exactly hb IS
        crossed only if hb lies beyond it, i.e. never when equal)."""
        tot = 0.0
        ja = self.epoch(ha) if ha > 0 else 0
        # starting exactly on boundary b_k (k>=1): the lineage lives in the older epoch k
        for k in range(1, len(self.b) - 1):
            if ha == self.b[k]:
                ja = k
        h = ha
        j = ja
        while True:
            top = self.b[j + 1]
            if hb <= top:
                tot += self.Phi(hb, j) - self.Phi(h, j)
                break
            tot += self.Phi(top, j) - self.Phi(h, j)
            # cross boundary b_{j+1}
            tot += math.log(1.0 - self.rho[j + 1]) if self.rho[j + 1] > 0 else 0.0
            h = top
            j += 1
        return tot

    def log_tip(self, h):
        """log initial value of a tip at height h: rho-sampled if h is a boundary with rho>0, else psi-sampled."""
        for k in range(len(self.b) - 1):
            if h == self.b[k] and self.rho[k] > 0:
                return math.log(self.rho[k]), "rho"
        j = self.epoch(h) if h > 0 else 0
        psi = self.psi[j]
        if psi == 0:
            return float("-inf"), "psi"  # a psi-sampled tip in an epoch without psi-sampling: the tree has density zero
        if self.r is None:
            return math.log(psi), "psi"
        r = self.r[j]
        return math.log(psi * (r + (1.0 - r) * self.E(h, j))), "psi"


def tree_log_density(root, sky, survival=True, origin_height=None):
    """root: vt.ref.tree Node with .height on every node.  Oriented-tree density conditioned on the origin."""
    from . import tree as rt

    logg = {}
    for nd in rt.postorder(root):
        if nd.is_leaf():
            logg[id(nd)] = sky.log_tip(nd.height)[0]
        else:
            tot = math.log(sky.lam[_epoch_for_birth(sky, nd.height)])
            for c in nd.children:
                tot += logg[id(c)] + sky.log_g_ratio(c.height, nd.height)
            logg[id(nd)] = tot
    origin = sky.b[-1]
    val = logg[id(root)] + sky.log_g_ratio(root.height, origin)
    if survival:
        val -= math.log(sky.u_at_bound[-1])
    return val


def _epoch_for_birth(sky, h):
    return sky.epoch(h)


# ---------------------------------------------------------------- closed form, single epoch
def single_epoch_log_density(tip_heights, node_heights, origin, lam, mu, psi, rho, r=None, survival=True):
    """Constant-rate birth-death-sampling density of an oriented tree given the origin (Stadler 2010):
    prod_tips a_i q(y_i) * prod_internal lambda / q(x_i) * 1/q(origin), a = 4 rho-normalised tip values, q from the
    Riccati solution; tips at height 0 are rho-sampled when rho > 0, all others psi-sampled."""
    # working precision: 40 digits beyond what exp(-c1 * origin) eats (a survival probability of 1e-400 still has 40 digits)
    mp.mp.dps = 40 + int(abs(float(lam) - float(mu) - float(psi)) * float(origin) / 2.0 + 2.0 * (float(lam) * float(psi)) ** 0.5 * float(origin) / 2.0)
    lam, mu, psi, rho = mp.mpf(lam), mp.mpf(mu), mp.mpf(psi), mp.mpf(rho)
    c1 = mp.sqrt((lam - mu - psi) ** 2 + 4 * lam * psi)
    c2 = -(lam - mu - 2 * lam * rho - psi) / c1

    def q(t):
        t = mp.mpf(t)
        return 2 * (1 - c2 ** 2) + mp.e ** (-c1 * t) * (1 - c2) ** 2 + mp.e ** (c1 * t) * (1 + c2) ** 2

    def E(t):
        t = mp.mpf(t)
        e = mp.e ** (-c1 * t)
        return (lam + mu + psi + c1 * (e * (1 - c2) - (1 + c2)) / (e * (1 - c2) + (1 + c2))) / (2 * lam)

    tot = mp.mpf(0)
    for y in tip_heights:
        if y == 0 and rho > 0:
            a = rho
        elif r is None:
            a = psi
        else:
            a = psi * (mp.mpf(r) + (1 - mp.mpf(r)) * E(y))
        tot += mp.log(a) + mp.log(q(y))
    for x in node_heights:
        tot += mp.log(lam) - mp.log(q(x))
    tot -= mp.log(q(origin))
    if survival:
        tot -= mp.log(1 - E(origin))
    if survival == "log-survival-probability":
        return float(mp.log(1 - E(origin)))
    return float(tot)
