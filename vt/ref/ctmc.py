"""Independent substitution-model side: rate matrices written from the documented definitions,
scipy matrix exponential, genetic codes derived from the NCBI standard table, IUPAC tables,
Weibull median-quantile rate discretisation.  No torchtree import."""
from __future__ import annotations

import itertools

import numpy as np
from scipy.linalg import expm

NUC = "ACGT"

# IUPAC nucleotide codes (IUPAC-IUB 1984): symbol -> set of bases
IUPAC = {
    "A": "A", "C": "C", "G": "G", "T": "T", "U": "T",
    "R": "AG", "Y": "CT", "M": "AC", "W": "AT", "S": "CG", "K": "GT",
    "B": "CGT", "D": "AGT", "H": "ACT", "V": "ACG", "N": "ACGT", "?": "ACGT", "-": "ACGT",
}
NUC_SYMBOLS = "ACGTUKMRSWYBDHVN?-"

AA = "ACDEFGHIKLMNPQRSTVWY"
AA_AMBIG = {"B": "DN", "Z": "EQ", "X": AA, "*": AA, "?": AA, "-": AA}
AA_SYMBOLS = AA + "BZX*?-"


def nuc_partial(sym, use_ambiguities):
    s = sym.upper()
    if s in "ACGTU" and s != "":
        v = [0.0] * 4
        v[NUC.index(IUPAC[s])] = 1.0
        return v
    if not use_ambiguities or s not in IUPAC:
        return [1.0] * 4
    return [1.0 if b in IUPAC[s] else 0.0 for b in NUC]


def aa_partial(sym, use_ambiguities):
    s = sym.upper()
    if s in AA:
        v = [0.0] * 20
        v[AA.index(s)] = 1.0
        return v
    if not use_ambiguities or s not in AA_AMBIG:
        return [1.0] * 20
    return [1.0 if a in AA_AMBIG[s] else 0.0 for a in AA]


# ---------------------------------------------------------------- genetic codes
# NCBI translation table 1 in the NCBI order (bases TCAG).
_NCBI_STD = "FFLLSSSSYY**CC*WLLLLPPPPHHQQRRRRIIIMTTTTNNKKSSRRVVVVAAAADDEEGGGG"
_TCAG = "TCAG"
_STD = {a + b + c: _NCBI_STD[16 * i + 4 * j + k]
        for i, a in enumerate(_TCAG) for j, b in enumerate(_TCAG) for k, c in enumerate(_TCAG)}

# documented differences from the standard code (NCBI "The Genetic Codes")
_DIFF = {
    "Universal": {},
    "Vertebrate Mitochondrial": {"AGA": "*", "AGG": "*", "ATA": "M", "TGA": "W"},
    "Yeast": {"ATA": "M", "CTT": "T", "CTC": "T", "CTA": "T", "CTG": "T", "TGA": "W"},
    "Mold Protozoan Mitochondrial": {"TGA": "W"},
    "Mycoplasma": {"TGA": "W"},
    "Invertebrate Mitochondrial": {"AGA": "S", "AGG": "S", "ATA": "M", "TGA": "W"},
    "Ciliate": {"TAA": "Q", "TAG": "Q"},
    "Echinoderm Mitochondrial": {"AAA": "N", "AGA": "S", "AGG": "S", "TGA": "W"},
    "Euplotid Nuclear": {"TGA": "C"},
    "Bacterial": {},
    "Alternative Yeast": {"CTG": "S"},
    "Ascidian Mitochondrial": {"AGA": "G", "AGG": "G", "ATA": "M", "TGA": "W"},
    "Flatworm Mitochondrial": {"AAA": "N", "AGA": "S", "AGG": "S", "TAA": "Y", "TGA": "W"},
    "Blepharisma Nuclear": {"TAG": "Q"},
    # not an NCBI table: the library's own stop-free code (taken as data)
    "No stops": {"TAA": "Y", "TAG": "Q", "TGA": "W"},
}
GENETIC_CODES = list(_DIFF)


def genetic_code(name):
    """-> (list of sense codons in ACGT lexicographic order, dict codon->amino acid)."""
    tab = dict(_STD)
    tab.update(_DIFF[name])
    codons = ["".join(c) for c in itertools.product(NUC, repeat=3)]
    sense = [c for c in codons if tab[c] != "*"]
    return sense, tab


def codon_partial(triplet, sense):
    t = triplet.upper().replace("U", "T")
    if t in sense:
        v = [0.0] * len(sense)
        v[sense.index(t)] = 1.0
        return v
    return [1.0] * len(sense)


# ---------------------------------------------------------------- rate matrices
def _finish(R, pi):
    """Q_ij = R_ij * pi_j (i != j), rows sum to zero."""
    Q = np.array(R, dtype=float) * np.asarray(pi, dtype=float)[None, :]
    np.fill_diagonal(Q, 0.0)
    np.fill_diagonal(Q, -Q.sum(1))
    return Q


def q_jc69(k=4):
    Q = np.full((k, k), 1.0 / (k - 1))
    np.fill_diagonal(Q, -1.0)
    return Q


def q_hky(kappa, pi):
    R = np.ones((4, 4))
    R[0, 2] = R[2, 0] = kappa  # A<->G
    R[1, 3] = R[3, 1] = kappa  # C<->T
    return _finish(R, pi)


def q_gtr(rates, pi):
    a, b, c, d, e, f = rates
    R = np.array([[0, a, b, c], [a, 0, d, e], [b, d, 0, f], [c, e, f, 0]], dtype=float)
    return _finish(R, pi)


def q_general_symmetric(rates, mapping, pi):
    m = len(pi)
    R = np.zeros((m, m))
    k = 0
    for i in range(m):
        for j in range(i + 1, m):
            R[i, j] = R[j, i] = rates[mapping[k]]
            k += 1
    return _finish(R, pi)


def q_general_nonsymmetric(rates, mapping, pi):
    """first half of mapping: upper off-diagonal (row-major), second half: lower off-diagonal,
    in the order of the transposed upper positions (documented in the class docstring)."""
    m = len(pi)
    R = np.zeros((m, m))
    half = len(mapping) // 2
    k = 0
    for i in range(m):
        for j in range(i + 1, m):
            R[i, j] = rates[mapping[k]]
            R[j, i] = rates[mapping[half + k]]
            k += 1
    return _finish(R, pi)


def q_empirical(rates_upper, pi):
    m = len(pi)
    R = np.zeros((m, m))
    k = 0
    for i in range(m):
        for j in range(i + 1, m):
            R[i, j] = R[j, i] = rates_upper[k]
            k += 1
    return _finish(R, pi)


def q_mg94(code, alpha, beta, kappa, pi):
    """Exchangeabilities as the library's test-suite pins them down: for codons differing at one
    position kappa (if a transition) times alpha (synonymous) or beta (non-synonymous); the library
    leaves exchangeability 1 for codons differing at more than one position (test_MG94 asserts it)."""
    sense, tab = genetic_code(code)
    m = len(sense)
    R = np.ones((m, m))
    ts = {("A", "G"), ("G", "A"), ("C", "T"), ("T", "C")}
    for i, c1 in enumerate(sense):
        for j, c2 in enumerate(sense):
            if i == j:
                continue
            diff = [p for p in range(3) if c1[p] != c2[p]]
            if len(diff) == 1:
                r = 1.0
                p = diff[0]
                if (c1[p], c2[p]) in ts:
                    r *= kappa
                r *= alpha if tab[c1] == tab[c2] else beta
                R[i, j] = r
    return _finish(R, pi)


def normalise(Q, pi):
    pi = np.asarray(pi, dtype=float)
    return Q / (-(pi * np.diag(Q)).sum())


def p_t(Q, t):
    return expm(np.asarray(Q) * t)


def p_t_sym(Q, pi, t):
    """Accurate P(t) for reversible Q via the symmetrised eigen-decomposition in numpy (used for
    cross-checking expm in ill-conditioned regimes)."""
    pi = np.asarray(pi, dtype=float)
    s = np.sqrt(pi)
    S = (s[:, None] * Q) / s[None, :]
    S = 0.5 * (S + S.T)
    w, V = np.linalg.eigh(S)
    return (V / s[:, None]) @ np.diag(np.exp(w * t)) @ (V.T * s[None, :])


# ---------------------------------------------------------------- site rates
def weibull_rates(shape, K, pinv=None, mu=None):
    """Median of each of K equiprobable bins of Weibull(scale 1, shape), normalised so that the
    probability-weighted mean rate is one (times mu); optional invariant category in slot 0."""
    q = (2.0 * np.arange(K) + 1.0) / (2.0 * K)
    r = (-np.log1p(-q)) ** (1.0 / shape)
    if pinv is None:
        p = np.full(K, 1.0 / K)
    else:
        p = np.concatenate(([pinv], np.full(K, (1.0 - pinv) / K)))
        r = np.concatenate(([0.0], r))
    r = r / (r * p).sum()
    if mu is not None:
        r = r * mu
    return r, p


def invariant_rates(pinv, mu=None):
    r = np.array([0.0, 1.0 / (1.0 - pinv)])
    p = np.array([pinv, 1.0 - pinv])
    if mu is not None:
        r = r * mu
    return r, p
