"""Driver: argument parsing, seeding, sharding over sub-processes, watchdog, verdicts.

A check module (vt/checks/cXX.py) provides

    PROPERTY   = "C04"
    LEVEL      = "exploration" | "fault_enumeration"
    RULE       = "how cases are generated and what makes one non-trivial"
    ASSUMPTIONS= [...]
    BUDGET     = {"quick": seconds, "thorough": seconds}       (wall-clock cap of the workload)
    FLOORS     = {"counter": minimum}  -> run is INCONCLUSIVE if a deciding monitor saw fewer events
    def cases(tier, seed) -> list of JSON-serialisable case dicts (deterministic)
    def run_case(case) -> dict(violations=[dict(sig=, msg=, detail=)], counters={..},
                               fingerprint=<str|None>, sample=<json|None>)
    optional: def finalize(agg, tier) -> list of extra violations / may add to agg['inconclusive']
    optional: EXHAUSTIVE(tier) -> bool

Verdicts are three-valued: 0 held, 1 violation, 2 inconclusive.
"""
from __future__ import annotations

import argparse
import importlib
import json
import os
import shutil
import subprocess
import sys
import tempfile
import time

from . import evidence as ev
from . import findings as fd

HERE = os.path.dirname(os.path.dirname(os.path.abspath(__file__)))
NPROC = min(16, os.cpu_count() or 1)


def load_check(prop):
    return importlib.import_module("vt.checks." + prop.lower())


def main(argv=None):
    ap = argparse.ArgumentParser()
    ap.add_argument("property")
    ap.add_argument("--tier", default=os.environ.get("VERIF_TIER", "quick"), choices=["quick", "thorough"])
    ap.add_argument("--replay", default=None)
    ap.add_argument("--jobs", type=int, default=int(os.environ.get("VERIF_JOBS", NPROC)))
    ap.add_argument("--max-cases", type=int, default=None)
    ap.add_argument("--no-evidence", action="store_true")
    args = ap.parse_args(argv)
    prop = args.property.upper()
    seed = int(os.environ.get("VERIF_SEED", "0"))

    mod = load_check(prop)
    if args.replay:
        return replay(mod, prop, args.replay)

    t0 = time.time()
    try:
        case_list = list(mod.cases(args.tier, seed))
    except Exception as e:  # a generator that probes the subject (operation counts, ...) may meet a subject it cannot drive
        import traceback

        print("INCONCLUSIVE property=%s reason=case generation failed: %s: %s | %s" % (prop, type(e).__name__, str(e)[:200], traceback.format_exc().strip().splitlines()[-3][:160]))
        return 2
    # depth of the thorough tier: ROUNDS further generator passes with derived seeds (fresh random parameters, data and
    # histories on top of whatever the check enumerates exhaustively); VERIF_ROUNDS overrides
    rounds = int(os.environ.get("VERIF_ROUNDS", getattr(mod, "ROUNDS", {}).get(args.tier, 1)))
    for r in range(1, rounds):
        case_list += [c for c in mod.cases(args.tier, seed + 7919 * r) if not (isinstance(c, dict) and c.get("once"))]
    if args.max_cases:
        case_list = case_list[: args.max_cases]
    budget = getattr(mod, "BUDGET", {"quick": 60, "thorough": 600})[args.tier] * max(1, rounds)
    # the budget caps a run, it is not part of a verdict: on a loaded machine (other checks, other users on the same cores) a tight
    # cap would cut the generators short and turn into INCONCLUSIVE verdicts on floors; the caps are therefore generous
    budget = max(budget, 300) * float(os.environ.get("VERIF_BUDGET_FACTOR", "2"))
    jobs = max(1, min(args.jobs, len(case_list)))
    work = tempfile.mkdtemp(prefix="vt-%s-" % prop, dir="/dev/shm" if os.path.isdir("/dev/shm") else None)
    inconclusive = []
    results = []
    try:
        casefile = os.path.join(work, "cases.jsonl")
        with open(casefile, "w") as fp:
            for i, c in enumerate(case_list):
                fp.write(json.dumps({"i": i, "case": c}) + "\n")
        procs = []
        deadline = time.time() + budget
        for j in range(jobs):
            out = os.path.join(work, "out-%d.jsonl" % j)
            cmd = [sys.executable, "-m", "vt.worker", prop, casefile, out, str(j), str(jobs), str(deadline), str(seed), args.tier]
            # stderr goes to a file: sixteen pipes read one after the other fill up (a subject that logs a lot blocks on write)
            errf = open(os.path.join(work, "err-%d.txt" % j), "w")
            procs.append((subprocess.Popen(cmd, cwd=HERE, stdout=subprocess.DEVNULL, stderr=errf, text=True), out, j))
            errf.close()
        hard = deadline + max(120, budget)  # generous wall-clock watchdog: firing is inconclusive
        for p, out, j in procs:
            try:
                p.wait(timeout=max(1, hard - time.time()))
            except subprocess.TimeoutExpired:
                p.kill()
                p.wait()
                inconclusive.append("worker %d exceeded the watchdog" % j)
            try:
                with open(os.path.join(work, "err-%d.txt" % j), errors="replace") as fp:
                    se = fp.read()[-4000:]
            except OSError:
                se = ""
            if p.returncode not in (0,):
                inconclusive.append("worker %d exited with %s: %s" % (j, p.returncode, (se or "")[-600:]))
            if os.path.exists(out):
                with open(out) as fp:
                    for line in fp:
                        try:
                            results.append(json.loads(line))
                        except ValueError:
                            inconclusive.append("worker %d wrote a truncated record" % j)
    finally:
        shutil.rmtree(work, ignore_errors=True)

    return conclude(mod, prop, args, seed, case_list, results, inconclusive, t0)


def conclude(mod, prop, args, seed, case_list, results, inconclusive, t0):
    results.sort(key=lambda r: r["i"])
    agg = {"counters": {}, "violations": [], "fingerprints": set(), "samples": [], "harness_errors": [],
           "skipped": 0, "done": 0, "inconclusive": inconclusive, "extra": {}}
    for r in results:
        if r.get("skipped"):
            agg["skipped"] += 1
            continue
        agg["done"] += 1
        for k, v in r.get("counters", {}).items():
            if isinstance(v, (int, float)):
                agg["counters"][k] = agg["counters"].get(k, 0) + v
            elif isinstance(v, list):
                s = agg["counters"].setdefault(k, [])
                for x in v:
                    if x not in s:
                        s.append(x)
        if r.get("fingerprint") is not None:
            agg["fingerprints"].add(r["fingerprint"])
        for f in r.get("fingerprints", []) or []:
            agg["fingerprints"].add(f)
        if r.get("sample") is not None and len(agg["samples"]) < 5:
            agg["samples"].append(r["sample"])
        if r.get("harness_error"):
            agg["harness_errors"].append({"i": r["i"], "error": r["harness_error"]})
        for v in r.get("violations", []):
            v = dict(v)
            v["case_index"] = r["i"]
            agg["violations"].append(v)
    missing = len(case_list) - len(results)
    if missing:
        inconclusive.append("%d cases produced no record" % missing)
    for k in list(agg["counters"]):
        if isinstance(agg["counters"][k], list):
            agg["counters"][k] = sorted(agg["counters"][k], key=str)
    if hasattr(mod, "finalize"):
        extra = mod.finalize(agg, args.tier) or []
        for v in extra:
            v = dict(v)
            v.setdefault("case_index", None)
            agg["violations"].append(v)
    if agg["harness_errors"]:
        inconclusive.append("%d harness errors, first: %s" % (len(agg["harness_errors"]), agg["harness_errors"][0]["error"][-400:]))
    for name, floor in getattr(mod, "FLOORS", {}).items():
        if isinstance(floor, dict):
            floor = floor[args.tier]
        got = agg["counters"].get(name, 0)
        if isinstance(got, list):
            got = len(got)
        if got < floor:
            inconclusive.append("monitor '%s' observed %s events (< floor %s)" % (name, got, floor))

    known = fd.load_known(prop)
    new, hit = fd.classify(agg["violations"], known)
    for key, (entry, n) in sorted(hit.items()):
        print("KNOWN-FINDING: property=%s key=%s occurrences=%d %s" % (prop, key, n, entry.get("what", "")))
    rc = 0
    seen_sig = set()
    for v in new:
        if v["sig"] in seen_sig:
            continue
        seen_sig.add(v["sig"])
        path = fd.write_replay(prop, v, case_list[v["case_index"]] if v.get("case_index") is not None else None, seed, args.tier)
        print("VIOLATION property=%s replay=%s sig=%s %s" % (prop, path, v["sig"], v.get("msg", "")[:300]))
        rc = 1
    wall = time.time() - t0
    if not args.no_evidence:
        ev.write(mod, prop, args.tier, seed, agg, len(case_list), wall, new, hit)
    if rc == 0 and inconclusive:
        for why in inconclusive[:5]:
            print("INCONCLUSIVE property=%s reason=%s" % (prop, why.replace("\n", " | ")[:500]))
        rc = 2
    print("SUMMARY property=%s tier=%s seed=%d cases=%d done=%d skipped=%d distinct_nontrivial=%d new_violations=%d known_hits=%d wall=%.1fs"
          % (prop, args.tier, seed, len(case_list), agg["done"], agg["skipped"], len(agg["fingerprints"]), len(new), sum(n for _, n in hit.values()), wall))
    interesting = {k: v for k, v in agg["counters"].items() if not isinstance(v, list)}
    print("COUNTERS " + json.dumps(interesting, sort_keys=True)[:3000])
    return rc


def replay(mod, prop, path):
    from . import worker
    with open(path) as fp:
        rec = json.load(fp)
    case = rec["case"]
    if case is None:
        print("replay file carries no single case (aggregate violation): %s" % rec.get("violation", {}).get("msg"))
        return 2
    if hasattr(mod, "worker_init"):
        mod.worker_init(rec.get("tier", "quick"))
    r = worker.run_one(mod, prop, case, rec.get("case_index", 0), rec.get("seed", 0))
    if r.get("harness_error"):
        print("INCONCLUSIVE property=%s reason=harness error: %s" % (prop, r["harness_error"][-800:]))
        return 2
    known = fd.load_known(prop)
    new, hit = fd.classify(r.get("violations", []), known)
    for key, (entry, n) in sorted(hit.items()):
        print("KNOWN-FINDING: property=%s key=%s %s" % (prop, key, entry.get("what", "")))
    for v in new:
        print("VIOLATION property=%s replay=%s sig=%s %s" % (prop, path, v["sig"], v.get("msg", "")))
        print(json.dumps(v.get("detail", {}), indent=1, default=str)[:4000])
    print("replayed case: %d violations (%d not listed as known)" % (len(r.get("violations", [])), len(new)))
    return 1 if new else 0


if __name__ == "__main__":
    sys.exit(main())
