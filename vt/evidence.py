"""evidence/<id>.json writer (self-validating against the evidence schema)."""
from __future__ import annotations

import json
import os

HERE = os.path.dirname(os.path.dirname(os.path.abspath(__file__)))


def write(mod, prop, tier, seed, agg, n_cases, wall, new, hit):
    cov = {
        "evaluations": int(agg["done"]),
        "distinct_nontrivial": int(len(agg["fingerprints"])),
        "rule": getattr(mod, "RULE", ""),
        "samples": agg["samples"][:5],
        "cases_generated": n_cases,
        "generator_rounds": int(os.environ.get("VERIF_ROUNDS", getattr(mod, "ROUNDS", {}).get(tier, 1))),
        "cases_skipped_by_time_cap": agg["skipped"],
        "monitor_counters": agg["counters"],
        "known_findings_hit": {k: n for k, (_, n) in hit.items()},
        "new_violation_signatures": sorted({v["sig"] for v in new}),
        "inconclusive_reasons": agg["inconclusive"][:10],
        "harness_errors": len(agg["harness_errors"]),
    }
    cov.update(agg.get("extra", {}))
    if hasattr(mod, "EXHAUSTIVE"):
        cov["exhaustive"] = bool(mod.EXHAUSTIVE(tier)) and agg["skipped"] == 0
    doc = {
        "property_id": prop,
        "tier": tier,
        "seed": seed,
        "level": getattr(mod, "LEVEL", "exploration"),
        "coverage": cov,
        "assumptions": list(getattr(mod, "ASSUMPTIONS", [])),
        "wall_s": round(wall, 2),
        "violations": len(new),
    }
    try:
        import jsonschema

        p = os.path.join(HERE, "schemas", "EVIDENCE.schema.json")
        with open(p) as fp:
            schema = json.load(fp)
        jsonschema.validate(doc, schema)
    except ImportError:
        pass
    except Exception as e:  # evidence that does not validate is reported loudly, the verdict is unaffected
        print("EVIDENCE-INVALID property=%s %s" % (prop, str(e)[:300]))
    d = os.path.join(HERE, "evidence")
    os.makedirs(d, exist_ok=True)
    with open(os.path.join(d, prop + ".json"), "w") as fp:
        json.dump(doc, fp, indent=1, default=repr)
