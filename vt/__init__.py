"""Runtime-monitoring framework for the torchtree properties C01..C20 (see /verif/DESIGN.md)."""
