"""Worker process: runs the cases of one shard, one JSON record per case."""
from __future__ import annotations

import faulthandler
import hashlib
import importlib
import json
import os
import sys
import time
import traceback


def case_seed(seed, prop, i):
    h = hashlib.sha256(("%d/%s/%d" % (seed, prop, i)).encode()).digest()
    return int.from_bytes(h[:4], "little")


def run_one(mod, prop, case, i, seed):
    import numpy as np
    import torch

    s = case_seed(seed, prop, i)
    torch.manual_seed(s)
    np.random.seed(s % (2**32))
    torch.set_default_dtype(torch.float64)
    rec = {"i": i}
    try:
        out = mod.run_case(case)
        rec.update(out)
    except Exception as e:
        # An exception whose innermost torchtree-or-harness frame lies in the subject means the real code
        # failed on a valid input where the property demands a value: a violation keyed by exception type and
        # raising function.  Anything else escaping is a harness error (-> inconclusive), never a violation.
        from . import tt

        if isinstance(e, tt.SubjectError):
            rec.setdefault("violations", []).append(tt.viol(e.sig, str(e), case=case))
            rec.setdefault("counters", {})
            rec.setdefault("fingerprint", None)
            return rec
        where = _blame(e)
        if where is not None:
            sig = "%s:subject-exception:%s:%s" % (prop, type(e).__name__, where)
            rec.setdefault("violations", []).append(
                tt.viol(sig, "the subject raised %s: %s" % (type(e).__name__, str(e)[:300]), traceback=traceback.format_exc()[-3000:]))
            rec.setdefault("counters", {})
            rec.setdefault("fingerprint", None)
        else:
            rec["harness_error"] = traceback.format_exc()
    return rec


def _blame(exc):
    """Innermost frame that belongs to the subject (torchtree) or to the harness (vt): -> 'module.function' if it is
    the subject, None if it is the harness."""
    import os

    frames = traceback.extract_tb(exc.__traceback__)
    for fr in reversed(frames):
        fn = fr.filename.replace(os.sep, "/")
        if "/vt/" in fn and "/torchtree/" not in fn:
            return None
        if "/torchtree/" in fn:
            return os.path.basename(fn)[:-3] + "." + fr.name
    return None


def main():
    prop, casefile, outfile, shard, nshards, deadline, seed, tier = sys.argv[1:9]
    shard, nshards, deadline, seed = int(shard), int(nshards), float(deadline), int(seed)
    os.environ["VERIF_TIER"] = tier
    faulthandler.enable()
    import torch

    torch.set_num_threads(1)
    torch.set_default_dtype(torch.float64)
    mod = importlib.import_module("vt.checks." + prop.lower())
    if hasattr(mod, "worker_init"):
        mod.worker_init(tier)
    with open(casefile) as fp, open(outfile, "w") as out:
        for line in fp:
            rec = json.loads(line)
            i = rec["i"]
            if i % nshards != shard:
                continue
            if time.time() > deadline:
                out.write(json.dumps({"i": i, "skipped": True}) + "\n")
                continue
            faulthandler.dump_traceback_later(600, exit=True)
            r = run_one(mod, prop, rec["case"], i, seed)
            faulthandler.cancel_dump_traceback_later()
            out.write(json.dumps(r, default=_default) + "\n")
            out.flush()
    return 0


def _default(o):
    try:
        import numpy as np
        import torch

        if isinstance(o, torch.Tensor):
            return o.tolist()
        if isinstance(o, (np.ndarray,)):
            return o.tolist()
        if isinstance(o, (np.floating, np.integer)):
            return o.item()
    except Exception:
        pass
    return repr(o)


if __name__ == "__main__":
    sys.exit(main())
