"""pytest plug-in (-p vt.work.pytest_overlay): runs the repository's own tests with the contract overlay installed.
VT_OVERLAY_PROPS=C04,C05  VT_OVERLAY_OUT=<json file>"""
import json
import os

from ..mon.overlay import Overlay

_state = {"ov": None, "test": None, "outcomes": {}}


def pytest_sessionstart(session):
    ov = Overlay(os.environ.get("VT_OVERLAY_PROPS", "").split(","), context=lambda: _state["test"])
    ov.install()
    _state["ov"] = ov


def pytest_runtest_setup(item):
    _state["test"] = item.nodeid


def pytest_runtest_logreport(report):
    if report.when == "call" or (report.when == "setup" and report.outcome != "passed"):
        _state["outcomes"][report.outcome] = _state["outcomes"].get(report.outcome, 0) + 1


def pytest_sessionfinish(session, exitstatus):
    ov = _state["ov"]
    if ov is None:
        return
    out = ov.export()
    out["tests"] = _state["outcomes"]
    out["exitstatus"] = int(exitstatus)
    with open(os.environ["VT_OVERLAY_OUT"], "w") as fp:
        json.dump(out, fp)
    ov.uninstall()
