"""Shared realistic workloads run with the contract overlay on (vt/mon/overlay.py):

  suite(props)            the repository's own test-suite
  cli_config(case, props) one configuration emitted by torchtree-cli: load, evaluate the target and its gradient,
                          then really run it (ADVI / MAP / MCMC / HMC) for a few iterations

Each returns {"violations": [...], "counters": {...}} attributed to the contracts of `props` only; failures of the run
itself are C19's business and are returned under "run" for it."""
from __future__ import annotations

import contextlib
import io
import json
import os
import subprocess
import sys
import tempfile

from .. import tt
from ..mon.overlay import Overlay


def suite(props, timeout=1500):
    root = tt.subject_root()
    fd, out = tempfile.mkstemp(prefix="vt-ov-", suffix=".json", dir="/dev/shm" if os.path.isdir("/dev/shm") else None)
    os.close(fd)
    env = dict(os.environ, VT_OVERLAY_PROPS=",".join(props), VT_OVERLAY_OUT=out, PYTHONDONTWRITEBYTECODE="1")
    try:
        r = subprocess.run([sys.executable, "-m", "pytest", "-q", "-x", "-p", "no:cacheprovider", "-p", "vt.work.pytest_overlay", "--timeout=900", os.path.join(root, "test")],
                           cwd=root, env=env, capture_output=True, text=True, timeout=timeout)
        try:
            res = json.load(open(out))
        except Exception:
            return {"violations": [], "counters": {"suite_runs_failed": 1}, "error": (r.stdout + r.stderr)[-400:]}
    finally:
        if os.path.exists(out):
            os.remove(out)
    c = res["counters"]
    c["suite_tests_passed"] = res["tests"].get("passed", 0)
    c["suite_tests_failed"] = res["tests"].get("failed", 0)
    c["suite_runs"] = 1
    return {"violations": res["violations"], "counters": c}


RUN_OPTS = {"advi": ["--iter", "3", "--samples", "4", "--elbo_samples", "3", "--grad_samples", "1", "--convergence_every", "2"],
            "map": ["--max_iter", "2"],
            "mcmc": ["--iter", "30", "--log_every", "10"],
            "hmc": ["--iter", "4", "--steps", "2", "--log_every", "2"]}


def cli_config(case, props, run=True):
    """case: an option dictionary of vt.checks.c19 (sub, model, C, I, clock, heights, prior, extras)"""
    import torch
    from ..checks import c19

    torch.set_default_dtype(torch.float64)  # what the torchtree entry point does by default
    if not c19._DATA:
        c19.worker_init("quick")
    ov = Overlay(props, context=lambda: " ".join(c19.argv_for(case)[:1] + [a for a in c19.argv_for(case)[1:] if not a.startswith("/")]))
    res = {"violations": [], "counters": {"cli_configs": 1}, "run": None}
    argv = c19.argv_for(case)
    extra = [] if (case["sub"] == "hmc" and "warmup" in case["extras"]) else []
    kind, spec = c19.run_cli(argv + (RUN_OPTS[case["sub"]] if run else []) + extra)
    if kind != "json":
        res["counters"]["cli_rejected"] = 1
        return res
    cwd = os.getcwd()
    work = tempfile.mkdtemp(prefix="vt-run-", dir=c19._DATA["dir"])
    os.chdir(work)
    ov.install()
    try:
        sink = io.StringIO()
        dic = {}
        try:
            with contextlib.redirect_stdout(sink), contextlib.redirect_stderr(sink):
                objs, dic = tt.load(spec)
                res["counters"]["cli_loaded"] = 1
                algo = c19.find_algorithm(dic)
                if "joint" in dic:
                    val = dic["joint"]()
                    if val.requires_grad:
                        val.sum().backward()
                    res["counters"]["cli_targets_evaluated"] = 1
                if run:
                    from torchtree.core.runnable import Runnable

                    torch.manual_seed(1)
                    for o in objs:
                        if isinstance(o, Runnable):
                            o.run()
                            res["counters"]["cli_runnables_run"] = res["counters"].get("cli_runnables_run", 0) + 1
                    res["run"] = {"ok": True, "algorithm": type(algo).__name__ if algo is not None else None, "files": sorted(os.listdir(work))}
        except Exception as e:
            import traceback

            tb = [fr for fr in traceback.extract_tb(e.__traceback__) if "/torchtree/" in fr.filename.replace(os.sep, "/")]
            where = ("%s.%s" % (os.path.basename(tb[-1].filename)[:-3], tb[-1].name)) if tb else "?"
            nonfinite = False
            try:
                from torchtree.core.abstractparameter import AbstractParameter

                for o in dic.values():
                    if isinstance(o, AbstractParameter):
                        try:
                            t = o.tensor
                            # NaN / inf, or a magnitude no initial point or plausible posterior reaches: the run has diverged
                            if t.is_floating_point() and (not bool(torch.isfinite(t).all()) or float(t.abs().max()) > 1e8):
                                nonfinite = True
                                break
                        except Exception:
                            nonfinite = True
                            break
            except Exception:
                pass
            outside = None
            if not nonfinite and dic:
                outside = _outside_declared_support(c19, case, dic)
            res["run"] = {"ok": False, "exception": type(e).__name__, "where": where, "message": str(e)[:200], "stage": "run" if res["counters"].get("cli_targets_evaluated") else "load",
                          "nonfinite_state": nonfinite, "outside_support": outside}
            res["counters"]["cli_failed_" + res["run"]["stage"]] = 1
    finally:
        ov.uninstall()
        os.chdir(cwd)
        import shutil

        shutil.rmtree(work, ignore_errors=True)
    out = ov.export()
    res["violations"] = out["violations"]
    res["counters"].update(out["counters"])
    return res


def _outside_declared_support(c19, case, dic):
    """id of a parameter that sits outside the bounds torchtree-cli declares for it (kept in its --debug output), or None"""
    try:
        kind, spec = c19.run_cli(["--debug"] + c19.argv_for(case))
        if kind != "json":
            return None
        found = []

        def rec(o):
            if isinstance(o, dict):
                if "id" in o and any(k.startswith("@") for k in o):
                    found.append((o["id"], o.get("@lower"), o.get("@upper")))
                for v in o.values():
                    rec(v)
            elif isinstance(o, list):
                for v in o:
                    rec(v)

        rec(spec)
        for pid, lo, hi in found:
            if pid in dic and hasattr(dic[pid], "tensor"):
                t = dic[pid].tensor.detach()
                if (lo is not None and bool((t < lo).any())) or (hi is not None and bool((t > hi).any())):
                    return str(pid)
        if "tree" in dic and hasattr(dic["tree"], "node_heights"):
            import numpy as np

            tree = dic["tree"]
            h = tree.node_heights.detach().numpy().reshape(-1)
            for nd in tree.tree.postorder_node_iter():
                if not nd.is_leaf() and any(h[nd.index] < h[ch.index] for ch in nd.child_node_iter()):
                    return "tree (a parent below its child)"
    except Exception:
        return None
    return None


def well_behaved_cases(rng, n, subs=("advi", "map", "mcmc", "hmc")):
    """option dictionaries that load and evaluate on the unchanged tree (no known C19 finding in the way)"""
    out = []
    for i in range(n):
        sub = subs[i % len(subs)]
        clock = str(rng.choice(["none", "strict", "strict", "ucln"]))
        model = str(rng.choice(["JC69", "HKY", "GTR", "K80", "SYM", "LG", "WAG", "MG94", "SRD06"], p=[0.1, 0.25, 0.25, 0.05, 0.05, 0.08, 0.07, 0.05, 0.1]))
        c = {"sub": sub, "model": model, "C": int(rng.choice([1, 4])), "I": bool(rng.random() < 0.3), "clock": clock,
             "heights": None if clock == "none" else str(rng.choice(["ratio", "shift"])),
             "prior": "none" if clock == "none" else str(rng.choice(["constant", "skygrid", "skyride", "exponential", "piecewise-linear"])), "extras": {}}
        if model == "SRD06":
            c["C"], c["I"] = 4, False
        if rng.random() < 0.3 and clock != "none":
            c["extras"]["keep"] = True
        out.append(c)
    return out


# ---------------------------------------------------------------- glue for the check modules
def overlay_cases(tier, seed, prop, n_quick=16, n_thorough=120):
    import numpy as np

    rng = np.random.default_rng([seed, 777, int(prop[1:])])
    out = [{"overlay": "cli", "options": c} for c in well_behaved_cases(rng, n_quick if tier == "quick" else n_thorough)]
    if tier == "thorough":
        out.append({"overlay": "suite", "once": True})
    return out


def run_overlay_case(case, prop):
    """-> the result dictionary a check's run_case returns"""
    if case["overlay"] == "suite":
        res = suite([prop])
        fp = "overlay|suite"
    else:
        res = cli_config(case["options"], [prop], run=True)
        o = case["options"]
        fp = "overlay|%s|%s|%s|%s|%s|%s|%s" % (o["sub"], o["model"], o["C"], o["I"], o["clock"], o["heights"], o["prior"])
    V = [tt.viol(v["sig"], "[overlay, %s] %s" % (case["overlay"], v["msg"]), **v["detail"]) for v in res["violations"]]
    C = {"overlay." + k if not k.startswith(prop) else "overlay." + k: v for k, v in res["counters"].items() if k.startswith(prop) or k.startswith("cli_") or k.startswith("suite_") or k == "monitor_error_text"}
    return {"violations": V, "counters": C, "fingerprint": fp, "sample": None}
