"""Abstract model specifications (plain JSON-able dicts) -> torchtree JSON on one side and the
independent reference (vt.ref.ctmc) on the other."""
from __future__ import annotations

import numpy as np

from ..ref import ctmc

SUBST_KINDS = ["JC69", "HKY", "GTR", "GeneralJC69", "GenSym", "GenNonSym", "LG", "WAG", "MG94"]


def dirichlet(rng, k, alpha, floor):
    x = rng.dirichlet([alpha] * k)
    x = np.maximum(x, floor)
    return (x / x.sum()).tolist()


def loguniform(rng, lo, hi, size=None):
    return np.exp(rng.uniform(np.log(lo), np.log(hi), size=size))


def random_subst(rng, kind, extreme=False, states=None):
    """Random substitution-model spec. extreme: rates over 1e-4..1e4, strongly skewed pi."""
    lo, hi = (1e-4, 1e4) if extreme else (0.05, 20.0)
    alpha = float(rng.choice([0.05, 0.3, 1.0, 10.0])) if extreme else float(rng.choice([1.0, 3.0, 10.0]))
    floor = 1e-4 if extreme else 0.02
    if kind == "JC69":
        return {"kind": "JC69"}
    if kind == "HKY":
        return {"kind": "HKY", "kappa": float(loguniform(rng, lo, hi)), "pi": dirichlet(rng, 4, alpha, floor)}
    if kind == "GTR":
        return {"kind": "GTR", "rates": loguniform(rng, lo, hi, 6).tolist(), "pi": dirichlet(rng, 4, alpha, floor)}
    if kind == "GeneralJC69":
        k = int(states or rng.integers(2, 11))
        return {"kind": "GeneralJC69", "k": k}
    if kind in ("GenSym", "GenNonSym"):
        k = int(states or rng.integers(2, 7))
        npairs = k * (k - 1) // 2
        nmap = npairs if kind == "GenSym" else 2 * npairs
        style = rng.choice(["identity", "random", "few"])
        if style == "identity":
            mapping = list(range(nmap))
        elif style == "few":
            nr = int(rng.integers(1, min(3, nmap) + 1))
            mapping = rng.integers(0, nr, nmap).tolist()
            # make it a surjection onto 0..nr-1
            for r in range(nr):
                mapping[r % nmap] = r
        else:
            nr = int(rng.integers(1, nmap + 1))
            mapping = rng.integers(0, nr, nmap).tolist()
            for r in range(nr):
                mapping[int(rng.integers(nmap))] = r
            nr = max(mapping) + 1
        nr = max(mapping) + 1
        return {"kind": kind, "k": k, "mapping": [int(m) for m in mapping],
                "rates": loguniform(rng, lo, hi, nr).tolist(), "pi": dirichlet(rng, k, alpha, floor)}
    if kind in ("LG", "WAG"):
        return {"kind": kind}
    if kind == "MG94":
        code = str(rng.choice(ctmc.GENETIC_CODES))
        sense, _ = ctmc.genetic_code(code)
        lo2, hi2 = (1e-2, 1e2) if extreme else (0.1, 10.0)
        return {"kind": "MG94", "code": code, "alpha": float(loguniform(rng, lo2, hi2)),
                "beta": float(loguniform(rng, lo2, hi2)), "kappa": float(loguniform(rng, lo2, hi2)),
                "pi": dirichlet(rng, len(sense), max(alpha, 0.3), 1e-3 if extreme else 5e-3)}
    raise ValueError(kind)


def n_states(spec):
    k = spec["kind"]
    if k in ("JC69", "HKY", "GTR"):
        return 4
    if k in ("GeneralJC69", "GenSym", "GenNonSym"):
        return spec["k"]
    if k in ("LG", "WAG"):
        return 20
    if k == "MG94":
        return len(ctmc.genetic_code(spec["code"])[0])


def reversible(spec):
    return spec["kind"] != "GenNonSym"


def general_codes(k):
    return [chr(ord("a") + i) for i in range(k)]


def param(id_, tensor, **kw):
    d = {"id": id_, "type": "Parameter", "tensor": tensor}
    d.update(kw)
    return d


def subst_json(spec, pre="sm", batch=None):
    """torchtree JSON for the substitution model. batch: optional dict name -> list of values
    (each a list) replacing the parameter tensor by a batched one."""
    k = spec["kind"]
    b = batch or {}

    def P(name, val):
        return param("%s.%s" % (pre, name), b.get(name, val), dtype="torch.float64")

    if k == "JC69":
        return {"id": pre, "type": "JC69"}
    if k == "HKY":
        return {"id": pre, "type": "HKY", "kappa": P("kappa", [spec["kappa"]]), "frequencies": P("pi", spec["pi"])}
    if k == "GTR":
        return {"id": pre, "type": "GTR", "rates": P("rates", spec["rates"]), "frequencies": P("pi", spec["pi"])}
    if k == "GeneralJC69":
        return {"id": pre, "type": "GeneralJC69", "state_count": spec["k"]}
    if k in ("GenSym", "GenNonSym"):
        return {"id": pre, "type": "GeneralSymmetricSubstitutionModel" if k == "GenSym" else "GeneralNonSymmetricSubstitutionModel",
                "data_type": {"id": pre + ".dt", "type": "GeneralDataType", "codes": general_codes(spec["k"])},
                "mapping": spec["mapping"], "rates": P("rates", spec["rates"]), "frequencies": P("pi", spec["pi"])}
    if k in ("LG", "WAG"):
        return {"id": pre, "type": "torchtree.evolution.substitution_model.amino_acid." + k}
    if k == "MG94":
        return {"id": pre, "type": "MG94",
                "data_type": {"id": pre + ".dt", "type": "CodonDataType", "genetic_code": spec["code"]},
                "alpha": P("alpha", [spec["alpha"]]), "beta": P("beta", [spec["beta"]]), "kappa": P("kappa", [spec["kappa"]]),
                "frequencies": P("pi", spec["pi"])}
    raise ValueError(k)


def ref_q(spec, empirical=None):
    """(unnormalised reference Q, pi). For LG/WAG `empirical` = (rates_upper, pi) taken as data."""
    k = spec["kind"]
    if k == "JC69":
        return ctmc.q_jc69(4), np.full(4, 0.25)
    if k == "GeneralJC69":
        return ctmc.q_jc69(spec["k"]), np.full(spec["k"], 1.0 / spec["k"])
    if k == "HKY":
        return ctmc.q_hky(spec["kappa"], spec["pi"]), np.array(spec["pi"])
    if k == "GTR":
        return ctmc.q_gtr(spec["rates"], spec["pi"]), np.array(spec["pi"])
    if k == "GenSym":
        return ctmc.q_general_symmetric(spec["rates"], spec["mapping"], spec["pi"]), np.array(spec["pi"])
    if k == "GenNonSym":
        return ctmc.q_general_nonsymmetric(spec["rates"], spec["mapping"], spec["pi"]), np.array(spec["pi"])
    if k in ("LG", "WAG"):
        r, pi = empirical
        return ctmc.q_empirical(r, pi), np.array(pi)
    if k == "MG94":
        return ctmc.q_mg94(spec["code"], spec["alpha"], spec["beta"], spec["kappa"], spec["pi"]), np.array(spec["pi"])
    raise ValueError(k)


# ---------------------------------------------------------------- site models
def random_site(rng, kind=None, wide=False):
    kind = kind or str(rng.choice(["constant", "invariant", "weibull", "weibull+inv"]))
    s = {"kind": kind}
    if kind in ("weibull", "weibull+inv"):
        s["K"] = int(rng.integers(1, 17)) if wide else int(rng.integers(1, 5))
        s["shape"] = float(loguniform(rng, 1e-2, 1e2)) if wide else float(loguniform(rng, 0.1, 10.0))
    if kind in ("invariant", "weibull+inv"):
        s["pinv"] = float(rng.uniform(0.0, 0.99)) if wide else float(rng.uniform(0.02, 0.8))
    if rng.random() < 0.4:
        s["mu"] = float(loguniform(rng, 0.05, 20.0))
    return s


def site_json(s, pre="site", batch=None):
    b = batch or {}

    def P(name, val):
        return param("%s.%s" % (pre, name), b.get(name, val), dtype="torch.float64")

    k = s["kind"]
    if k == "constant":
        d = {"id": pre, "type": "ConstantSiteModel"}
    elif k == "invariant":
        d = {"id": pre, "type": "InvariantSiteModel", "invariant": P("pinv", [s["pinv"]])}
    else:
        d = {"id": pre, "type": "WeibullSiteModel", "categories": s["K"], "shape": P("shape", [s["shape"]])}
        if k == "weibull+inv":
            d["invariant"] = P("pinv", [s["pinv"]])
    if "mu" in s:
        d["mu"] = P("mu", [s["mu"]])
    return d


def ref_site(s):
    k = s["kind"]
    mu = s.get("mu")
    if k == "constant":
        return np.array([1.0 if mu is None else mu]), np.array([1.0])
    if k == "invariant":
        return ctmc.invariant_rates(s["pinv"], mu)
    return ctmc.weibull_rates(s["shape"], s["K"], s.get("pinv"), mu)
