"""Small synthetic data sets for driving torchtree-cli (dates in the taxon names, nucleotide / codon / amino-acid
alignments, Newick and NEXUS trees), written by the harness into a scratch directory."""
from __future__ import annotations

import os

import numpy as np

from ..ref import ctmc
from ..ref import tree as rt


def write_all(d, seed=0, n=6):
    """-> dict of file paths and the ground truth (names, dates, node heights by clade)"""
    rng = np.random.default_rng(seed)
    os.makedirs(d, exist_ok=True)
    years = np.round(2000 + rng.uniform(0, 4, n), 2)
    years[0] = 2004.0  # most recent sample
    names = ["s%d_%s" % (i, ("%.2f" % years[i]).rstrip("0").rstrip(".")) for i in range(n)]
    dates = {nm: float(nm.rsplit("_", 1)[1]) for nm in names}
    mx = max(dates.values())
    heights = {i: mx - dates[names[i]] for i in range(n)}
    topo = rt.random_topology(n, rng)
    root = rt.random_time_tree(topo, rng, heights, {i: names[i] for i in range(n)}, scale=1.5)
    newick = rt.to_newick(root, fmt="%.10g")
    files = {}
    files["tree"] = os.path.join(d, "tree.nwk")
    open(files["tree"], "w").write(newick + "\n")
    files["nexus"] = os.path.join(d, "tree.nex")
    open(files["nexus"], "w").write("#NEXUS\nBegin trees;\ntree t1 = [&R] %s\nEnd;\n" % newick)
    # alignments: evolve roughly along the tree so that the likelihood is not degenerate
    def evolve(alphabet, L, rate):
        seqs = {}
        nodes = rt.preorder(root)
        state = {}
        for nd in nodes:
            if nd.parent is None:
                state[id(nd)] = rng.integers(0, len(alphabet), L)
            else:
                s = state[id(nd.parent)].copy()
                p = 1 - np.exp(-rate * nd.length)
                flip = rng.random(L) < p
                s[flip] = rng.integers(0, len(alphabet), int(flip.sum()))
                state[id(nd)] = s
            if nd.is_leaf():
                seqs[nd.name] = [alphabet[i] for i in state[id(nd)]]
        return seqs

    def fasta(path, seqs, order):
        with open(path, "w") as fp:
            for nm in order:
                fp.write(">%s\n%s\n" % (nm, "".join(seqs[nm])))

    order = [names[i] for i in rng.permutation(n)]
    leaf_order = [nd.name for nd in rt.preorder(root) if nd.is_leaf()]
    if order == leaf_order or order == sorted(order):
        # the alignment never lists the taxa in the order in which the tree file (or the alphabet) does: whoever reads both must match by name
        order = order[1:] + order[:1]
    nuc = evolve(list("ACGT"), 48, 0.15)
    nuc[order[0]][3] = "R"  # an ambiguity code and a gap
    nuc[order[1]][5] = "-"
    files["nuc"] = os.path.join(d, "nuc.fasta")
    fasta(files["nuc"], nuc, order)
    sense, _ = ctmc.genetic_code("Universal")
    cod = evolve(sense, 12, 0.1)
    files["codon"] = os.path.join(d, "codon.fasta")
    fasta(files["codon"], cod, order)
    aa = evolve(list(ctmc.AA), 20, 0.15)
    files["aa"] = os.path.join(d, "aa.fasta")
    fasta(files["aa"], aa, order)
    files["dates_csv"] = os.path.join(d, "dates.csv")
    with open(files["dates_csv"], "w") as fp:
        fp.write('"strain","date"\n')
        for nm in names:
            fp.write('"%s","%s"\n' % (nm, dates[nm]))
    truth = {"names": names, "dates": dates, "newick": newick, "root_height": root.height,
             "node_heights": {",".join(sorted(x.name for x in rt.postorder(nd) if x.is_leaf())): nd.height for nd in rt.postorder(root) if not nd.is_leaf()},
             "span": max(dates.values()) - min(dates.values())}
    return files, truth
