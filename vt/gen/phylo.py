"""Likelihood cases: generation, torchtree JSON, and the independent reference evaluation."""
from __future__ import annotations

import numpy as np

from ..ref import ctmc, like
from ..ref import tree as rt
from . import models as gm


# ---------------------------------------------------------------- data types / alignments
def datatype_for(subst):
    k = subst["kind"]
    if k in ("JC69", "HKY", "GTR"):
        return {"kind": "nucleotide"}
    if k in ("LG", "WAG"):
        return {"kind": "aa"}
    if k == "MG94":
        return {"kind": "codon", "code": subst["code"]}
    # (general data types with an even number of states write their states with two characters: "aA", "bB", ...)
    return {"kind": "general", "k": gm.n_states(subst), "width": 2 if gm.n_states(subst) % 2 == 0 else 1}


def codes_of(dt):
    codes = gm.general_codes(dt["k"])
    return [c + c.upper() for c in codes] if dt.get("width", 1) == 2 else codes


def add_general_ambiguities(rng, dt):
    k = dt["k"]
    codes = codes_of(dt)
    w = dt.get("width", 1)
    amb = {}
    if k >= 3 and rng.random() < 0.7:
        m = int(rng.integers(2, k))
        amb["X" * w] = [codes[i] for i in sorted(rng.choice(k, size=m, replace=False).tolist())]
    if rng.random() < 0.5:
        amb["Y" * w] = codes[int(rng.integers(k))]  # alias, given as a string as the class documents ({'U': 'T'})
    dt["amb"] = amb
    return dt


def random_alignment(rng, names, dt, ncols, amb_rate=0.15, dup_rate=0.3):
    kind = dt["kind"]
    n = len(names)
    cols = []
    if kind == "nucleotide":
        plain, special = list("ACGT"), list("UKMRSWYBDHVN?-")
    elif kind == "aa":
        plain, special = list(ctmc.AA), list("BZX*?-")
    elif kind == "codon":
        sense, _ = ctmc.genetic_code(dt["code"])
        stops = [a + b + c for a in "ACGT" for b in "ACGT" for c in "ACGT" if a + b + c not in sense]
        # a stop codon is not a state of the model: it can only count as missing data (or be refused), never as another codon
        plain, special = sense, ["---", "???", "A-C", "NNN", "ACN", "RAT"] + stops[:2]
    else:
        plain = codes_of(dt)
        special = list(dt.get("amb", {}).keys()) + ["?" * dt.get("width", 1), "-" * dt.get("width", 1)]
    while len(cols) < ncols:
        if cols and rng.random() < dup_rate:
            cols.append(list(cols[int(rng.integers(len(cols)))]))
            continue
        # sites evolve on few states so that patterns are informative
        pool = [plain[int(i)] for i in rng.choice(len(plain), size=min(len(plain), int(rng.integers(1, 4))), replace=False)]
        col = []
        for _ in range(n):
            if rng.random() < amb_rate:
                c = special[int(rng.integers(len(special)))]
            else:
                c = pool[int(rng.integers(len(pool)))]
            if kind in ("nucleotide", "aa", "codon") and rng.random() < 0.2:
                c = c.lower()
            col.append(c)
        cols.append(col)
    return {nm: "".join(col[i] for col in cols) for i, nm in enumerate(names)}


def datatype_json(dt, id_="dt"):
    k = dt["kind"]
    if k == "nucleotide":
        return "nucleotide"
    if k == "aa":
        return {"id": id_, "type": "AminoAcidDataType"}
    if k == "codon":
        return {"id": id_, "type": "CodonDataType", "genetic_code": dt["code"]}
    d = {"id": id_, "type": "GeneralDataType", "codes": codes_of(dt)}
    if dt.get("amb"):
        d["ambiguities"] = dt["amb"]
    return d


def tip_vector(dt, sym, use_amb, tip_states):
    """Compatibility vector of one symbol, from the documented semantics:
    use_ambiguities -> union of the states the symbol may stand for; otherwise (or with tip states)
    every symbol that is not a plain state is missing data (all ones)."""
    k = dt["kind"]
    amb = use_amb and not tip_states
    if k == "nucleotide":
        return ctmc.nuc_partial(sym, amb)
    if k == "aa":
        return ctmc.aa_partial(sym, amb)
    if k == "codon":
        return ctmc.codon_partial(sym, ctmc.genetic_code(dt["code"])[0])
    codes = codes_of(dt)
    if sym in codes:
        v = [0.0] * len(codes)
        v[codes.index(sym)] = 1.0
        return v
    a = dt.get("amb", {}).get(sym)
    if isinstance(a, str):  # alias
        v = [0.0] * len(codes)
        v[codes.index(a)] = 1.0
        return v
    if a is not None and amb:  # declared ambiguity = union of states when ambiguities are on, missing otherwise (as for the other data types)
        return [1.0 if c in a else 0.0 for c in codes]
    return [1.0] * len(codes)


def selected(seq, indices):
    """The columns a SitePattern `indices` string selects (comma separated Python indices / slices, concatenated in the
    order given), applied by the reference itself."""
    if not indices:
        return seq
    out = ""
    for part in indices.split(","):
        part = part.strip()
        if ":" in part:
            a = [int(x) if x.strip() else None for x in part.split(":")]
            out += seq[slice(*a)]
        else:
            out += seq[int(part)]
    return out


def ref_tips(case):
    dt = case["datatype"]
    size = 3 if dt["kind"] == "codon" else dt.get("width", 1)
    names = case["names"]
    tips = []
    for nm in names:
        seq = selected(case["seqs"][nm], case.get("indices"))
        syms = [seq[i:i + size] for i in range(0, len(seq), size)]
        tips.append([tip_vector(dt, s, case["use_ambiguities"], case["use_tip_states"]) for s in syms])
    return np.array(tips, dtype=float)  # [n, sites, S]


# ---------------------------------------------------------------- reference tree with documented indices
def ref_tree(case):
    """Parse the Newick independently; assign the documented node indices (leaf = position of the taxon
    in the taxa list; internal nodes n, n+1, ... in post-order of the tree as written)."""
    root = rt.parse_newick(case["newick"])
    names = case["names"]
    n = len(names)
    nxt = n
    for nd in rt.postorder(root):
        if nd.is_leaf():
            nd.leaf = names.index(nd.name)
            nd.idx = nd.leaf
        else:
            nd.idx = nxt
            nxt += 1
    return root


def tip_heights(case):
    d = case.get("dates")
    names = case["names"]
    if not d:
        return [0.0] * len(names)
    vals = [float(d[nm]) for nm in names]
    if max(vals) == 0.0 and min(vals) == 0.0:
        return [0.0] * len(names)
    if min(vals) == 0.0:  # dates are ages
        return vals
    mx = max(vals)  # calendar dates
    return [mx - v for v in vals]


def ref_branch_subst_lengths(case, root):
    """dict id(node) -> expected substitutions on the branch above node."""
    n = len(case["names"])
    out = {}
    nodes = rt.postorder(root)
    if case["tree"] == "unrooted":
        if case.get("bl_mode", "keep") == "keep":
            for nd in nodes:
                if nd.parent is not None:
                    out[id(nd)] = nd.length
            if not gm.reversible(case["subst"]):
                # An unrooted tree model has no root branch: the two root branches of the Newick are one branch
                # (documented: lengths summed, the root child with the highest index gets length zero).  For
                # reversible models this is the same likelihood (the reference then keeps the Newick as written,
                # which also checks the summation); for non-reversible models the collapsed tree is the model.
                a, b = root.children
                hi, lo = (a, b) if a.idx > b.idx else (b, a)
                out[id(lo)] = a.length + b.length
                out[id(hi)] = 0.0
        else:
            # branch-length parameter indexed by node index (2n-3 entries); the root's child with the
            # highest index (2n-3) has no entry: the root branch is collapsed onto the other child
            bl = case["branch_lengths"]
            for nd in nodes:
                if nd.parent is not None:
                    out[id(nd)] = bl[nd.idx] if nd.idx < 2 * n - 3 else 0.0
        return out
    th = tip_heights(case)
    rt.heights_from_lengths(root, th)
    clock = case.get("clock")
    for nd in nodes:
        if nd.parent is None:
            continue
        dt_ = nd.parent.height - nd.height
        if clock is None:
            r = 1.0
        elif clock["kind"] == "strict":
            r = clock["rate"]
        else:
            r = clock["rates"][nd.idx]
        out[id(nd)] = dt_ * r
    return out


def ref_loglik(case, method="auto", empirical=None, P_override=None):
    root = ref_tree(case)
    q, pi = gm.ref_q(case["subst"], empirical)
    Qn = ctmc.normalise(q, pi)
    rates, probs = gm.ref_site(case["site"])
    bl = ref_branch_subst_lengths(case, root)
    cache = {}

    def P_of(node, k):
        if P_override is not None and k in P_override:
            return P_override[k]
        key = (bl[id(node)], k)  # equal lengths share a matrix
        if key not in cache:
            cache[key] = ctmc.p_t(Qn, bl[id(node)] * rates[k])
        return cache[key]

    tips = ref_tips(case)
    n = len(case["names"])
    S = len(pi)
    if method == "auto":
        method = "brute" if S ** (n - 1) <= 20000 else "pruning"
    if method == "brute":
        sl = like.brute_force_site_likelihoods(root, P_of, pi, tips, probs)
        with np.errstate(divide="ignore"):
            lsl = np.log(sl)
    elif method == "linear":
        sl = like.pruning_site_likelihoods_linear(root, P_of, pi, tips, probs)
        with np.errstate(divide="ignore", invalid="ignore"):
            lsl = np.log(sl)
    else:
        lsl = like.pruning_log_site_likelihoods(root, P_of, pi, tips, probs)
    return float(lsl.sum()), lsl, method


# ---------------------------------------------------------------- torchtree JSON
def taxa_json(case, id_="taxa"):
    taxa = []
    for nm in case["names"]:
        t = {"id": nm, "type": "Taxon"}
        if case.get("dates"):
            t["attributes"] = {"date": case["dates"][nm]}
        elif case["tree"] == "time":
            t["attributes"] = {"date": 0.0}
        if case.get("attribute_pattern"):
            t.setdefault("attributes", {})["trait"] = case["seqs"][nm]
        taxa.append(t)
    return {"id": id_, "type": "Taxa", "taxa": taxa}


def tree_json(case, taxa="taxa", batch=None):
    n = len(case["names"])
    if case["tree"] == "unrooted":
        d = {"id": "tree", "type": "UnRootedTreeModel", "newick": case["newick"], "taxa": taxa}
        if case.get("bl_mode", "keep") == "keep":
            d["keep_branch_lengths"] = True
            d["branch_lengths"] = gm.param("tree.blens", [0.0] * (2 * n - 3), dtype="torch.float64")
        else:
            d["branch_lengths"] = gm.param("tree.blens", case["branch_lengths"], dtype="torch.float64")
            if len(case["newick"]) % 2:
                d["keep_branch_lengths"] = False  # the switch written out with its default value: the given lengths are the lengths
        return d
    return {"id": "tree", "type": "TimeTreeModel", "newick": case["newick"], "taxa": taxa, "keep_branch_lengths": True,
            "internal_heights": gm.param("tree.heights", [1.0] * (n - 1), dtype="torch.float64")}


def clock_json(case):
    c = case.get("clock")
    if c is None:
        return None
    if c["kind"] == "strict":
        return {"id": "clock", "type": "StrictClockModel", "tree_model": "tree", "rate": gm.param("clock.rate", [c["rate"]], dtype="torch.float64")}
    return {"id": "clock", "type": "SimpleClockModel", "tree_model": "tree", "rate": gm.param("clock.rate", c["rates"], dtype="torch.float64")}


_FASTA_DIR = []


def _write_fasta(records, wrap=0, blank=False, comment=False):
    import atexit
    import hashlib
    import os
    import shutil
    import tempfile

    if not _FASTA_DIR:
        _FASTA_DIR.append(tempfile.mkdtemp(prefix="vt_fasta_"))
        atexit.register(shutil.rmtree, _FASTA_DIR[0], True)
    lines = []
    for nm, seq in records:
        lines.append(">" + nm)
        if wrap:
            lines.extend(seq[i:i + wrap] for i in range(0, len(seq), wrap))
        else:
            lines.append(seq)
        if blank:
            lines.append("")
    text = "\n".join(lines) + "\n"
    path = os.path.join(_FASTA_DIR[0], hashlib.sha1(text.encode()).hexdigest()[:16] + ".fasta")
    with open(path, "w") as fp:
        fp.write(text)
    return path


def as_attribute_case(case):
    """The same case with its data reduced to one symbol per taxon, handed over as a taxon attribute (AttributePattern)."""
    import copy

    c = copy.deepcopy(case)
    c["seqs"] = {nm: sq[:case["datatype"].get("width", 1)] for nm, sq in case["seqs"].items()}
    c["attribute_pattern"] = True
    c.pop("indices", None)
    c.pop("aln_file", None)
    c.pop("aln_taxa_order", None)
    return c


def likelihood_json(case):
    """List of top-level elements, as a torchtree input file would have them."""
    seq_order = case.get("seq_order") or case["names"]
    aln = {"id": "aln", "type": "Alignment", "datatype": datatype_json(case["datatype"]), "taxa": "taxa",
           "sequences": [{"taxon": nm, "sequence": case["seqs"][nm]} for nm in seq_order]}
    if case.get("aln_file"):
        # the 'file' form (what torchtree-cli writes): a FASTA file, sequences wrapped over several lines, optional blank lines
        del aln["sequences"]
        aln["file"] = _write_fasta([(nm, case["seqs"][nm]) for nm in seq_order], **case["aln_file"])
    pattern = dict({"id": "sp", "type": "SitePattern", "alignment": aln}, **({"indices": case["indices"]} if case.get("indices") else {}))
    if case.get("attribute_pattern"):
        # tip data read from a taxon attribute (discrete trait): one symbol per taxon (see as_attribute_case)
        pattern = {"id": "sp", "type": "AttributePattern", "taxa": "taxa", "data_type": datatype_json(case["datatype"]), "attribute": "trait"}
    like_ = {"id": "like", "type": "TreeLikelihoodModel",
             "tree_model": tree_json(case),
             "site_model": gm.site_json(case["site"]),
             "substitution_model": gm.subst_json(case["subst"]),
             "site_pattern": pattern}
    if case.get("use_ambiguities"):
        like_["use_ambiguities"] = True
    if case.get("use_tip_states"):
        like_["use_tip_states"] = True
    cj = clock_json(case)
    if cj is not None:
        like_["branch_model"] = cj
    if case.get("aln_taxa_order"):
        # the alignment refers to a Taxa object of its own: the same taxa (by reference), listed in another order than the tree's
        aln["taxa"] = "taxa.aln"
        return [taxa_json(case), {"id": "taxa.aln", "type": "Taxa", "taxa": list(case["aln_taxa_order"])}, like_]
    return [taxa_json(case), like_]


# ---------------------------------------------------------------- random cases
def random_case(rng, topo, subst_kind=None, site_kind=None, tree_kind=None, ncols=None, extreme=False):
    n = len(rt.leaves_of(topo))
    names_sorted = ["t%d" % i for i in range(n)]
    subst = gm.random_subst(rng, subst_kind or str(rng.choice(gm.SUBST_KINDS)))
    site = gm.random_site(rng, site_kind)
    dt = datatype_for(subst)
    if dt["kind"] == "general":
        add_general_ambiguities(rng, dt)
    tree_kind = tree_kind or str(rng.choice(["unrooted", "time"]))
    case = {"tree": tree_kind, "subst": subst, "site": site, "datatype": dt}
    # taxa list order != leaf order != sequence order
    perm = rng.permutation(n).tolist()
    names = [names_sorted[i] for i in perm]
    case["names"] = names
    case["seq_order"] = [names[i] for i in rng.permutation(n).tolist()]
    leafname = {i: names_sorted[i] for i in range(n)}
    if tree_kind == "unrooted":
        root = rt.build(topo, leafname)
        rt.set_lengths(root, rng, 1e-3 if not extreme else 1e-4, 1.0 if not extreme else 5.0)
        case["newick"] = rt.to_newick(root)
        case["bl_mode"] = "keep" if rng.random() < 0.7 else "param"
        if case["bl_mode"] == "param":
            case["branch_lengths"] = np.exp(rng.uniform(np.log(1e-3), np.log(1.0), 2 * n - 3)).tolist()
            case["newick"] = rt.to_newick(root, lengths=False)
    else:
        mode = str(rng.choice(["iso", "ages", "calendar", "ties"]))
        if mode == "iso":
            dates = {nm: 0.0 for nm in names_sorted}
        elif mode == "ages":
            v = rng.uniform(0, 2, n)
            v[int(rng.integers(n))] = 0.0
            dates = {nm: float(x) for nm, x in zip(names_sorted, v)}
        elif mode == "calendar":
            v = 2000 + rng.uniform(0, 3, n)
            dates = {nm: float(x) for nm, x in zip(names_sorted, v)}
        else:
            v = rng.choice([0.0, 0.5, 1.0], n)
            v[int(rng.integers(n))] = 0.0
            dates = {nm: float(x) for nm, x in zip(names_sorted, v)}
        case["dates"] = dates
        th_by_leaf = dict(zip(names, tip_heights(case)))
        root = rt.random_time_tree(topo, rng, {i: th_by_leaf[names_sorted[i]] for i in range(n)}, leafname, scale=float(rng.choice([0.05, 0.3, 1.0])))
        case["newick"] = rt.to_newick(root)
        c = str(rng.choice(["none", "strict", "strict", "simple", "simple"]))
        if c == "strict":
            case["clock"] = {"kind": "strict", "rate": float(gm.loguniform(rng, 0.01, 2.0))}
        elif c == "simple":
            case["clock"] = {"kind": "simple", "rates": gm.loguniform(rng, 0.01, 2.0, 2 * n - 2).tolist()}
        else:
            case["clock"] = None
    ncols = ncols or int(rng.integers(1, 13))
    case["seqs"] = random_alignment(rng, names_sorted, dt, ncols)
    mode = int(rng.integers(3))
    case["use_ambiguities"] = mode == 0
    case["use_tip_states"] = mode == 1
    if rng.random() < 0.2:
        case["rescale"] = True
    if dt["kind"] != "codon" and dt.get("width", 1) == 1 and ncols >= 3 and rng.random() < 0.25:
        # a site pattern over a subset of the columns (what partitioned analyses use), written as the `indices` key
        opts = ["::2", "1::2", "::3", "1::3,2::3", "%d:" % int(rng.integers(1, ncols)), ":%d" % int(rng.integers(1, ncols)), "-1,0", "0,::2", "%d,%d" % (int(rng.integers(ncols)), int(rng.integers(ncols)))]
        case["indices"] = opts[int(rng.integers(len(opts)))]
    return case
