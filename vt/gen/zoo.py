"""A zoo of model graphs (JSON specifications) that together contain every parameter kind and every registered
density class.  Shared by C10 (batching), C11 (cache coherence), C12 (gradients).

Each graph is a dict:
   spec    : list of top-level JSON elements (as a torchtree input file)
   evals   : ids of callables whose value is observed (`dic[id]()`)
   leaves  : {id: domain} of the leaf Parameters that may be updated; domain in
             real | positive | unit | simplex | ratio | ordered-positive (the update generators respect it)
   derived : ids of derived parameters whose `.tensor` is observed
   tensors : {id: python expression on the loaded object} extra observables (e.g. branch lengths)
"""
from __future__ import annotations

import numpy as np

from ..ref import tree as rt
from . import models as gm
from . import phylo

F64 = "torch.float64"


def P(id_, tensor, **kw):
    return gm.param(id_, tensor, dtype=F64, **kw)


def dist(id_, distribution, x, **params):
    return {"id": id_, "type": "Distribution", "distribution": distribution, "x": x, "parameters": params}


def small_alignment(rng, names, n_cols=6, dt=None):
    return phylo.random_alignment(rng, names, dt or {"kind": "nucleotide"}, n_cols, amb_rate=0.1)


def taxa(names, dates=None):
    out = []
    for nm in names:
        t = {"id": nm, "type": "Taxon"}
        if dates is not None:
            t["attributes"] = {"date": dates[nm]}
        out.append(t)
    return {"id": "taxa", "type": "Taxa", "taxa": out}


def alignment(seqs, datatype="nucleotide"):
    return {"id": "aln", "type": "Alignment", "datatype": datatype, "taxa": "taxa",
            "sequences": [{"taxon": k, "sequence": v} for k, v in seqs.items()]}


def draw(rng, domain, shape):
    """a random value in the domain (used for initial values and for updates)"""
    if domain == "real":
        return rng.normal(0, 1.0, shape)
    if domain == "positive":
        return np.exp(rng.normal(0, 0.5, shape))
    if domain == "unit" or domain == "ratio":
        return rng.uniform(0.1, 0.9, shape)
    if domain == "simplex":
        x = rng.dirichlet([4.0] * shape[-1], size=shape[:-1] if len(shape) > 1 else None)
        return x
    if domain == "height":  # kept above the tips by the caller
        return 3.0 + np.exp(rng.normal(0, 0.3, shape))
    raise ValueError(domain)


# ---------------------------------------------------------------- graphs
def g_unrooted(rng):
    """HKY + Weibull(4)+invariant+mu on an unrooted tree, gamma-Dirichlet tree prior, priors through transformed parameters"""
    n = 5
    names = ["t%d" % i for i in range(n)]
    topo = rt.random_topology(n, rng)
    root = rt.build(topo, {i: names[i] for i in range(n)})
    seqs = small_alignment(rng, names)
    spec = [taxa(names), alignment(seqs),
            {"id": "tree", "type": "UnRootedTreeModel", "newick": rt.to_newick(root, lengths=False), "taxa": "taxa",
             "branch_lengths": {"id": "tree.blens", "type": "TransformedParameter", "transform": "torch.distributions.ExpTransform",
                                "x": P("tree.blens.unres", rng.normal(-2, 0.5, 2 * n - 3).tolist())}},
            {"id": "freqs", "type": "TransformedParameter", "transform": "torch.distributions.StickBreakingTransform", "x": P("freqs.unres", rng.normal(0, 0.3, 3).tolist())},
            {"id": "sm", "type": "HKY", "kappa": P("kappa", [2.5]), "frequencies": "freqs"},
            {"id": "site", "type": "WeibullSiteModel", "categories": 4, "shape": P("shape", [0.7]), "invariant": P("pinv", [0.2]), "mu": P("mu", [1.3])},
            {"id": "like", "type": "TreeLikelihoodModel", "tree_model": "tree", "site_model": "site", "substitution_model": "sm",
             "site_pattern": {"id": "sp", "type": "SitePattern", "alignment": "aln"}},
            {"id": "treeprior", "type": "CompoundGammaDirichletPrior", "tree_model": "tree", "alpha": P("gd.alpha", [1.2]), "c": P("gd.c", [0.8]),
             "shape": P("gd.shape", [1.5]), "rate": P("gd.rate", [0.9])},
            dist("prior.kappa", "torch.distributions.LogNormal", "kappa", loc=P("prior.kappa.loc", [1.0]), scale=P("prior.kappa.scale", [1.25])),
            dist("prior.shape", "torch.distributions.Exponential", "shape", rate=2.0),
            {"id": "joint", "type": "JointDistributionModel", "distributions": ["like", "treeprior", "prior.kappa", "prior.shape", "tree.blens", "freqs"]}]
    return {"name": "unrooted", "spec": spec, "evals": ["like", "treeprior", "prior.kappa", "prior.shape", "joint"],
            "leaves": {"tree.blens.unres": "real", "freqs.unres": "real", "kappa": "positive", "shape": "positive", "pinv": "unit", "mu": "positive",
                       "gd.alpha": "positive", "gd.c": "positive", "gd.shape": "positive", "gd.rate": "positive", "prior.kappa.loc": "real", "prior.kappa.scale": "positive"},
            "derived": ["tree.blens", "freqs"], "tensors": {"tree": "branch_lengths()", "site": ["rates()", "probabilities()"], "sm": "frequencies"}}


def time_tree_bits(rng, n, param, clock="strict"):
    names = ["t%d" % i for i in range(n)]
    topo = rt.random_topology(n, rng)
    root = rt.build(topo, {i: names[i] for i in range(n)})
    dates = {nm: float(x) for nm, x in zip(names, rng.choice([0.0, 0.5, 1.0, 1.7], n))}
    dates[names[int(rng.integers(n))]] = 0.0
    if rng.random() < 0.25:
        dates = {nm: 0.0 for nm in names}  # contemporaneous tips
    tree = {"id": "tree", "type": "ReparameterizedTimeTreeModel", "newick": rt.to_newick(root, lengths=False), "taxa": "taxa"}
    leaves = {}
    derived = []
    if param == "ratio":
        tree["ratios"] = {"id": "tree.ratios", "type": "TransformedParameter", "transform": "torch.distributions.SigmoidTransform",
                          "x": P("tree.ratios.unres", rng.normal(0, 1, n - 2).tolist())}
        tree["root_height"] = {"id": "tree.root_height", "type": "TransformedParameter", "transform": "torch.distributions.AffineTransform",
                               "parameters": {"loc": 1.7, "scale": 1.0},
                               "x": {"id": "tree.root_height.shifted", "type": "TransformedParameter", "transform": "torch.distributions.ExpTransform",
                                     "x": P("tree.root_height.unres", [float(rng.normal(0.5, 0.3))])}}
        leaves.update({"tree.ratios.unres": "real", "tree.root_height.unres": "real"})
        derived += ["tree.ratios", "tree.root_height", "tree.root_height.shifted"]
    else:
        tree["shifts"] = {"id": "tree.shifts", "type": "TransformedParameter", "transform": "torch.distributions.ExpTransform",
                          "x": P("tree.shifts.unres", rng.normal(-0.5, 0.5, n - 1).tolist())}
        leaves["tree.shifts.unres"] = "real"
        derived.append("tree.shifts")
    return names, dates, tree, leaves, derived


def g_time_ratio(rng):
    """GTR + constant site + ratio-parameterised time tree + strict clock + constant / exponential coalescent + CTMC scale"""
    n = 5
    names, dates, tree, leaves, derived = time_tree_bits(rng, n, "ratio")
    seqs = small_alignment(rng, names)
    spec = [taxa(names, dates), alignment(seqs), tree,
            {"id": "clock", "type": "StrictClockModel", "tree_model": "tree",
             "rate": {"id": "clock.rate", "type": "TransformedParameter", "transform": "torch.distributions.ExpTransform", "x": P("clock.rate.unres", [-1.0])}},
            {"id": "sm", "type": "GTR", "rates": P("gtr.rates", np.exp(rng.normal(0, 0.4, 6)).tolist()), "frequencies": P("gtr.freqs", rng.dirichlet([5] * 4).tolist())},
            {"id": "site", "type": "ConstantSiteModel"},
            {"id": "like", "type": "TreeLikelihoodModel", "tree_model": "tree", "site_model": "site", "substitution_model": "sm", "branch_model": "clock",
             "site_pattern": {"id": "sp", "type": "SitePattern", "alignment": "aln"}},
            {"id": "coal", "type": "ConstantCoalescentModel", "tree_model": "tree", "theta": P("coal.theta", [3.0])},
            {"id": "expcoal", "type": "ExponentialCoalescentModel", "tree_model": "tree", "theta": P("expcoal.theta", [4.0]), "growth": P("expcoal.growth", [0.3])},
            {"id": "coalint", "type": "ConstantCoalescentIntegratedModel", "tree_model": "tree", "alpha": 0.7, "beta": 1.3},
            {"id": "ctmc", "type": "CTMCScale", "x": "clock.rate", "tree_model": "tree"},
            # Poisson model of the number of substitutions per branch (counts are data held in a parameter)
            {"id": "poisson", "type": "PoissonTreeLikelihood", "tree_model": "tree", "branch_model": "clock", "edge_lengths": P("poisson.counts", [float(x) for x in rng.integers(0, 6, 2 * n - 2)])},
            {"id": "bdsk.origin", "type": "TransformedParameter", "transform": "torch.distributions.AffineTransform", "parameters": {"loc": "tree.root_height", "scale": 1.0},
             "x": P("bdsk.origin.delta", [0.8])},
            {"id": "bdsk", "type": "BDSKModel", "tree_model": "tree", "R": P("bdsk.R", [1.5, 2.0]), "delta": P("bdsk.delta", [1.0, 0.7]), "s": P("bdsk.s", [0.3, 0.4]),
             "rho": P("bdsk.rho", [0.35]), "origin": "bdsk.origin"},
            # the origin given as the length of the edge above the root
            {"id": "bdsk.edge", "type": "BDSKModel", "tree_model": "tree", "R": P("bdsk.edge.R", [1.3, 1.8]), "delta": P("bdsk.edge.delta", [0.9, 0.6]), "s": P("bdsk.edge.s", [0.25, 0.35]),
             "rho": P("bdsk.edge.rho", [0.3]), "origin": P("bdsk.edge.length", [0.6]), "origin_is_root_edge": True},
            {"id": "bd", "type": "BirthDeathModel", "tree_model": "tree", "lambda": P("bd.lambda", [2.1]), "mu": P("bd.mu", [0.9]), "psi": P("bd.psi", [0.4]),
             "rho": P("bd.rho", [0.3]), "origin": "bdsk.origin"},
            {"id": "joint", "type": "JointDistributionModel", "distributions": ["like", "coal", "ctmc", "bdsk", "tree", "clock.rate", "tree.ratios", "tree.root_height.shifted"]}]
    leaves.update({"bd.lambda": "positive", "bd.mu": "positive", "bd.psi": "positive", "bd.rho": "unit"})
    leaves.update({"bdsk.edge.R": "positive", "bdsk.edge.delta": "positive", "bdsk.edge.s": "unit", "bdsk.edge.rho": "unit", "bdsk.edge.length": "positive"})
    leaves.update({"clock.rate.unres": "real", "gtr.rates": "positive", "gtr.freqs": "simplex", "coal.theta": "positive", "expcoal.theta": "positive", "expcoal.growth": "real",
                   "bdsk.origin.delta": "positive", "bdsk.R": "positive", "bdsk.delta": "positive", "bdsk.s": "unit", "bdsk.rho": "unit"})
    return {"name": "time-ratio", "spec": spec, "evals": ["like", "coal", "expcoal", "coalint", "ctmc", "poisson", "bdsk", "bdsk.edge", "bd", "tree", "joint"], "leaves": leaves, "data": {"poisson.counts": "counts"},
            "derived": derived + ["clock.rate", "bdsk.origin"], "tensors": {"tree": "node_heights", "clock": "rates"}}


def g_time_shift(rng):
    """HKY+invariant, shift-parameterised tree, per-branch clock through a rescaled-rate transform, skyride + time-aware GMRF, skygrid + GMRF,
    piecewise-linear, birth-death skyline with origin = root height + delta (AffineTransform whose loc is a parameter)"""
    n = 5
    names, dates, tree, leaves, derived = time_tree_bits(rng, n, "shift")
    seqs = small_alignment(rng, names)
    spec = [taxa(names, dates), alignment(seqs), tree,
            {"id": "clock", "type": "SimpleClockModel", "tree_model": "tree",
             "rate": {"id": "clock.rates", "type": "TransformedParameter", "transform": "RescaledRateTransform",
                      "parameters": {"rate": P("clock.mean", [0.05]), "tree_model": "tree"},
                      "x": P("clock.rates.unscaled", np.exp(rng.normal(0, 0.3, 2 * n - 2)).tolist())}},
            {"id": "sm", "type": "HKY", "kappa": P("kappa", [3.0]), "frequencies": P("freqs", rng.dirichlet([5] * 4).tolist())},
            {"id": "site", "type": "InvariantSiteModel", "invariant": P("pinv", [0.3])},
            {"id": "like", "type": "TreeLikelihoodModel", "tree_model": "tree", "site_model": "site", "substitution_model": "sm", "branch_model": "clock",
             "site_pattern": {"id": "sp", "type": "SitePattern", "alignment": "aln"}},
            {"id": "skyride", "type": "PiecewiseConstantCoalescentModel", "tree_model": "tree",
             "theta": {"id": "skyride.theta", "type": "TransformedParameter", "transform": "torch.distributions.ExpTransform", "x": P("skyride.theta.log", rng.normal(1, 0.5, n - 1).tolist())}},
            {"id": "gmrf.ta", "type": "GMRF", "x": "skyride.theta.log", "precision": P("gmrf.ta.precision", [2.0]), "tree_model": "tree"},
            {"id": "skygrid", "type": "PiecewiseConstantCoalescentGridModel", "tree_model": "tree", "theta": P("skygrid.theta", np.exp(rng.normal(1, 0.5, 4)).tolist()), "cutoff": 6.0},
            # soft-sort mode of the skygrid
            {"id": "skygrid.soft", "type": "PiecewiseConstantCoalescentGridModel", "tree_model": "tree", "theta": P("skygrid.soft.theta", [2.0, 3.5, 1.5, 4.0]), "cutoff": 6.0, "temperature": 0.05},
            {"id": "gmrf", "type": "GMRF", "x": "skygrid.theta", "precision": P("gmrf.precision", [1.5])},
            {"id": "gmrfint", "type": "GMRFGammaIntegrated", "x": "skygrid.theta", "shape": 0.5, "rate": 0.7},
            {"id": "skyglide", "type": "PiecewiseLinearCoalescentGridModel", "tree_model": "tree", "theta": P("skyglide.theta", np.exp(rng.normal(1, 0.5, 4)).tolist()), "cutoff": 6.0},
            # grids that end well below the root (events beyond the last grid point fall on the last, constant piece)
            {"id": "skyglide.short", "type": "PiecewiseLinearCoalescentGridModel", "tree_model": "tree", "theta": P("skyglide.short.theta", np.exp(rng.normal(1, 0.5, 3)).tolist()), "cutoff": 0.9},
            {"id": "skygrid.short", "type": "PiecewiseConstantCoalescentGridModel", "tree_model": "tree", "theta": P("skygrid.short.theta", np.exp(rng.normal(1, 0.5, 3)).tolist()), "cutoff": 0.9},
            {"id": "origin", "type": "TransformedParameter", "transform": "torch.distributions.AffineTransform",
             "parameters": {"loc": {"id": "root.view", "type": "ViewParameter", "parameter": "tree.shifts", "indices": "-1:"}, "scale": 1.0},
             "x": P("origin.delta", [0.8])},
            {"id": "joint", "type": "JointDistributionModel", "distributions": ["like", "skyride", "gmrf.ta", "skygrid", "gmrf", "tree", "tree.shifts", "skyride.theta"]}]
    leaves.update({"clock.mean": "positive", "clock.rates.unscaled": "positive", "kappa": "positive", "freqs": "simplex", "pinv": "unit", "skyride.theta.log": "real",
                   "gmrf.ta.precision": "positive", "skygrid.theta": "positive", "gmrf.precision": "positive", "skyglide.theta": "positive", "origin.delta": "positive",
                   "skyglide.short.theta": "positive", "skygrid.short.theta": "positive", "skygrid.soft.theta": "positive"})
    return {"name": "time-shift", "spec": spec, "evals": ["like", "skyride", "gmrf.ta", "skygrid", "gmrf", "gmrfint", "skyglide", "skyglide.short", "skygrid.short", "skygrid.soft", "tree", "joint"], "leaves": leaves,
            "derived": derived + ["clock.rates", "skyride.theta", "origin", "root.view"], "tensors": {"tree": "node_heights", "clock": "rates", "site": ["rates()", "probabilities()"]}}


def g_general(rng):
    """general symmetric / non-symmetric / JC models on a general data type; MG94 on a codon alignment"""
    n = 4
    names = ["t%d" % i for i in range(n)]
    root = rt.build(rt.random_topology(n, rng), {i: names[i] for i in range(n)})
    dt = {"kind": "general", "k": 3, "amb": {"X": ["a", "b"]}}
    seqs = phylo.random_alignment(rng, names, dt, 5)
    code = "Vertebrate Mitochondrial"
    cdt = {"kind": "codon", "code": code}
    cseqs = phylo.random_alignment(rng, names, cdt, 2)
    from ..ref import ctmc

    ns = len(ctmc.genetic_code(code)[0])
    spec = [taxa(names),
            {"id": "dt", "type": "GeneralDataType", "codes": ["a", "b", "c"], "ambiguities": {"X": ["a", "b"]}},
            alignment(seqs, "dt"),
            {"id": "tree", "type": "UnRootedTreeModel", "newick": rt.to_newick(root, lengths=False), "taxa": "taxa", "branch_lengths": P("tree.blens", np.exp(rng.normal(-1.5, 0.4, 2 * n - 3)).tolist())},
            {"id": "site", "type": "WeibullSiteModel", "categories": 3,
             "shape": {"id": "shape", "type": "TransformedParameter", "transform": "torch.distributions.ExpTransform", "x": P("shape.unres", [0.26])}},
            {"id": "sym", "type": "GeneralSymmetricSubstitutionModel", "data_type": "dt", "mapping": [0, 1, 0], "rates": P("sym.rates", [1.0, 2.5]), "frequencies": P("sym.freqs", rng.dirichlet([5] * 3).tolist())},
            {"id": "nonsym", "type": "GeneralNonSymmetricSubstitutionModel", "data_type": "dt", "mapping": [0, 1, 2, 3, 1, 0], "rates": P("nonsym.rates", np.exp(rng.normal(0, 0.4, 4)).tolist()),
             "frequencies": P("nonsym.freqs", rng.dirichlet([5] * 3).tolist())},
            {"id": "like.sym", "type": "TreeLikelihoodModel", "tree_model": "tree", "site_model": "site", "substitution_model": "sym", "site_pattern": {"id": "sp", "type": "SitePattern", "alignment": "aln"}},
            {"id": "like.nonsym", "type": "TreeLikelihoodModel", "tree_model": "tree", "site_model": "site", "substitution_model": "nonsym", "site_pattern": "sp", "use_tip_states": True},
            {"id": "like.jc", "type": "TreeLikelihoodModel", "tree_model": "tree", "site_model": "site", "substitution_model": {"id": "gjc", "type": "GeneralJC69", "state_count": 3}, "site_pattern": "sp"},
            {"id": "cdt", "type": "CodonDataType", "genetic_code": code},
            {"id": "caln", "type": "Alignment", "datatype": "cdt", "taxa": "taxa", "sequences": [{"taxon": k, "sequence": v} for k, v in cseqs.items()]},
            {"id": "mg94", "type": "MG94", "data_type": "cdt", "alpha": P("mg.alpha", [0.8]), "beta": P("mg.beta", [0.4]), "kappa": P("mg.kappa", [2.2]), "frequencies": P("mg.freqs", rng.dirichlet([3] * ns).tolist())},
            {"id": "like.codon", "type": "TreeLikelihoodModel", "tree_model": "tree", "site_model": {"id": "csite", "type": "ConstantSiteModel"}, "substitution_model": "mg94",
             "site_pattern": {"id": "csp", "type": "SitePattern", "alignment": "caln"}},
            {"id": "joint", "type": "JointDistributionModel", "distributions": ["like.sym", "like.nonsym", "like.jc", "like.codon"]}]
    return {"name": "general", "spec": spec, "evals": ["like.sym", "like.nonsym", "like.jc", "like.codon", "joint"],
            "leaves": {"tree.blens": "positive", "shape.unres": "real", "sym.rates": "positive", "sym.freqs": "simplex", "nonsym.rates": "positive", "nonsym.freqs": "simplex",
                       "mg.alpha": "positive", "mg.beta": "positive", "mg.kappa": "positive", "mg.freqs": "simplex"},
            "derived": ["shape"], "tensors": {"tree": "branch_lengths()", "site": ["rates()", "probabilities()"]}}


def g_distributions(rng):
    """distribution wrappers, parameter kinds (views, concatenations, transformed with parametric transforms), joints of joints"""
    d = 4
    spec = [P("x", rng.normal(0, 1, d).tolist()), P("y", np.exp(rng.normal(0, 0.5, d)).tolist()),
            {"id": "x.first", "type": "ViewParameter", "parameter": "x", "indices": 0},
            {"id": "x.head", "type": "ViewParameter", "parameter": "x", "indices": "0:2"},
            {"id": "x.rev", "type": "ViewParameter", "parameter": "x", "indices": "::-1"},
            {"id": "xy", "type": "CatParameter", "parameters": ["x", "y"], "dim": -1},
            {"id": "xy.mid", "type": "ViewParameter", "parameter": "xy", "indices": "1:3"},  # a view of a concatenation (entries of x)
            {"id": "y.log", "type": "TransformedParameter", "transform": "LogTransform", "x": "y"},
            {"id": "ylog.first", "type": "ViewParameter", "parameter": "y.log", "indices": "0:1"},
            {"id": "x.affine", "type": "TransformedParameter", "transform": "torch.distributions.AffineTransform", "parameters": {"loc": P("aff.loc", [0.5]), "scale": 2.0}, "x": "x"},
            {"id": "y.convex", "type": "TransformedParameter", "transform": "ConvexCombinationTransform", "parameters": {"weights": P("conv.w", rng.dirichlet([3] * d).tolist())}, "x": "y"},
            {"id": "x.cumsumexp", "type": "TransformedParameter", "transform": "CumSumExpTransform", "x": "x"},
            dist("d.normal", "torchtree.distributions.normal.Normal", "x", loc=P("n.loc", [0.1]), precision=P("n.prec", [2.0])),
            dist("d.lognormal", "torchtree.distributions.log_normal.LogNormal", "y", mean=P("ln.mean", [1.2]), scale=P("ln.scale", [0.6])),
            dist("d.gamma", "torch.distributions.Gamma", "y", concentration=P("g.conc", [2.0]), rate=P("g.rate", [1.5])),
            dist("d.head", "torch.distributions.Normal", "x.head", loc=0.0, scale=1.0),
            dist("d.rev", "torch.distributions.Normal", "x.rev", loc=P("rev.loc", [0.0, 0.1, 0.2, 0.3]), scale=1.0),
            dist("d.xy", "torch.distributions.Normal", "xy", loc=0.0, scale=P("xy.scale", [1.5])),
            dist("d.xymid", "torch.distributions.Normal", "xy.mid", loc=0.3, scale=1.2),
            dist("d.affine", "torch.distributions.Normal", "x.affine", loc=0.0, scale=3.0),
            dist("d.convex", "torch.distributions.Exponential", "y.convex", rate=1.0),
            dist("d.cse", "torch.distributions.LogNormal", "x.cumsumexp", loc=0.0, scale=2.0),
            dist("d.oneonx", "torchtree.distributions.one_on_x.OneOnX", "y"),
            {"id": "mvn", "type": "MultivariateNormal", "x": "x", "parameters": {"loc": P("mvn.loc", rng.normal(0, 0.3, d).tolist()),
                                                                                   "scale_tril": {"id": "mvn.tril", "type": "TransformedParameter", "transform": "TrilExpDiagonalTransform",
                                                                                                  "x": P("mvn.tril.unres", rng.normal(0, 0.3, d * (d + 1) // 2).tolist())}}},
            {"id": "detn", "type": "DeterministicNormal", "x": "x", "loc": P("detn.loc", rng.normal(0, 0.3, d).tolist()), "scale": P("detn.scale", np.exp(rng.normal(0, 0.2, d)).tolist()), "shape": []},
            {"id": "bridge", "type": "BayesianBridge", "x": "x", "scale": P("bb.scale", [1.2]), "alpha": P("bb.alpha", [0.7])},
            # regularised bridge (local scales and a slab)
            {"id": "bridge.reg", "type": "BayesianBridge", "x": "x", "scale": P("bbr.scale", [0.9]), "local_scale": P("bbr.local", np.exp(rng.normal(0, 0.3, d)).tolist()), "slab": P("bbr.slab", [2.0])},
            {"id": "mixture", "type": "ScaleMixtureNormal", "x": "x", "loc": 0.0, "global_scale": P("sm.global", [0.9]), "local_scale": P("sm.local", np.exp(rng.normal(0, 0.3, d)).tolist())},
            {"id": "gmrfcov", "type": "GMRFCovariate", "field": "x", "precision": P("gc.prec", [1.1]), "covariates": rng.normal(0, 1, (d, 2)).round(3).tolist(), "beta": P("gc.beta", [0.3, -0.2])},
            # an L1 penalty and two things that depend on its variable without being part of it
            dist("lasso", "torch.distributions.Laplace", P("beta", rng.normal(0, 1, 2).tolist()), loc=0.0, scale=1.0),
            {"id": "beta.exp", "type": "TransformedParameter", "transform": "torch.distributions.ExpTransform", "x": "beta"},
            dist("d.obs", "torch.distributions.Normal", P("obs.y", [0.3, -0.2]), loc="beta", scale=1.0),
            {"id": "inner", "type": "JointDistributionModel", "distributions": ["d.normal", "d.lognormal", "y.log"]},
            {"id": "joint", "type": "JointDistributionModel", "distributions": ["inner", "d.gamma", "d.head", "d.rev", "d.xy", "d.affine", "mvn", "bridge", "mixture", "x.affine", "x.cumsumexp"]}]
    return {"name": "distributions", "spec": spec,
            "evals": ["d.normal", "d.lognormal", "d.gamma", "d.head", "d.rev", "d.xy", "d.xymid", "d.affine", "d.convex", "d.cse", "d.oneonx", "mvn", "detn", "bridge", "bridge.reg", "mixture", "gmrfcov", "lasso", "d.obs", "inner", "joint"],
            "leaves": {"beta": "real", "obs.y": "real", "x": "real", "y": "positive", "aff.loc": "real", "conv.w": "simplex", "n.loc": "real", "n.prec": "positive", "ln.mean": "positive", "ln.scale": "positive",
                       "g.conc": "positive", "g.rate": "positive", "rev.loc": "real", "xy.scale": "positive", "mvn.loc": "real", "mvn.tril.unres": "real", "detn.loc": "real", "detn.scale": "positive",
                       "bb.scale": "positive", "bb.alpha": "unit", "bbr.scale": "positive", "bbr.local": "positive", "bbr.slab": "positive", "sm.global": "positive", "sm.local": "positive", "gc.prec": "positive", "gc.beta": "real"},
            "derived": ["x.first", "x.head", "x.rev", "xy", "xy.mid", "y.log", "ylog.first", "x.affine", "y.convex", "x.cumsumexp", "mvn.tril", "beta.exp"], "tensors": {}}


def g_time_plain(rng):
    """plain TimeTreeModel (node heights as the parameter) + JC69 + strict clock + skygrid with an explicit grid parameter"""
    n = 4
    names = ["t%d" % i for i in range(n)]
    dates = {nm: 0.0 for nm in names}
    spec = [taxa(names, dates), alignment(small_alignment(rng, names)),
            {"id": "tree", "type": "TimeTreeModel", "newick": "((t0,t1),(t2,t3));", "taxa": "taxa", "internal_heights": P("tree.heights", [1.0, 1.5, 3.0])},
            {"id": "clock", "type": "StrictClockModel", "tree_model": "tree", "rate": P("clock.rate", [0.1])},
            {"id": "like", "type": "TreeLikelihoodModel", "tree_model": "tree", "site_model": {"id": "site", "type": "ConstantSiteModel", "mu": P("mu", [1.0])},
             "substitution_model": {"id": "sm", "type": "JC69"}, "branch_model": "clock", "site_pattern": {"id": "sp", "type": "SitePattern", "alignment": "aln"}},
            {"id": "skygrid", "type": "PiecewiseConstantCoalescentGridModel", "tree_model": "tree", "theta": P("skygrid.theta", [2.0, 3.0, 4.0]), "grid": P("skygrid.grid", [1.2, 2.2])},
            {"id": "joint", "type": "JointDistributionModel", "distributions": ["like", "skygrid"]}]
    return {"name": "time-plain", "spec": spec, "evals": ["like", "skygrid", "joint"],
            "leaves": {"clock.rate": "positive", "mu": "positive", "skygrid.theta": "positive"}, "derived": [], "tensors": {"tree": "branch_lengths()", "site": ["rates()", "probabilities()"]}}


def g_variational(rng):
    """variational objectives over a small conjugate-looking model: the objectives use their variational model through
    rsample()/entropy()/log_prob and not only through __call__; they draw samples, so evaluations are seeded (`stochastic`)"""
    d = 3
    spec = [P("z", rng.normal(0, 1, d).tolist()), P("obs", rng.normal(0.5, 1, d).tolist()),
            dist("prior", "torch.distributions.Normal", "z", loc=0.0, scale=P("p.scale", [1.7])),
            dist("lik", "torch.distributions.Normal", "obs", loc="z", scale=P("lik.scale", [0.8])),
            {"id": "p", "type": "JointDistributionModel", "distributions": ["prior", "lik"]},
            {"id": "var", "type": "JointDistributionModel", "distributions": [
                dist("q", "torch.distributions.Normal", "z", loc=P("q.loc", rng.normal(0, 0.5, d).tolist()), scale=P("q.scale", np.exp(rng.normal(-0.3, 0.2, d)).tolist()))]},
            {"id": "elbo", "type": "ELBO", "samples": 3, "joint": "p", "variational": "var"},
            {"id": "elbo.entropy", "type": "ELBO", "samples": 4, "entropy": True, "joint": "p", "variational": "var"},
            {"id": "elbo.multi", "type": "ELBO", "samples": [2, 3], "joint": "p", "variational": "var"},
            {"id": "klpq", "type": "KLpq", "samples": 5, "joint": "p", "variational": "var"},
            {"id": "cubo", "type": "CUBO", "samples": 4, "joint": "p", "variational": "var"},
            {"id": "vr", "type": "VR", "samples": 4, "alpha": 0.5, "joint": "p", "variational": "var"}]
    return {"name": "variational", "spec": spec, "evals": ["prior", "lik", "p", "var", "elbo", "elbo.entropy", "elbo.multi", "klpq", "cubo", "vr"],
            "stochastic": ["elbo", "elbo.entropy", "elbo.multi", "klpq", "cubo", "vr"],
            "leaves": {"z": "real", "p.scale": "positive", "lik.scale": "positive", "q.loc": "real", "q.scale": "positive"}, "derived": [], "tensors": {}}


def g_time_flexible(rng):
    """FlexibleTimeTreeModel whose internal heights are a TransformedParameter over the increment transform that refers back to the
    same tree model (the layout of the repository's own node-height tests): tree <-> parameter notify each other"""
    n = 4
    names = ["t%d" % i for i in range(n)]
    dates = {nm: 0.0 for nm in names}
    spec = [taxa(names, dates), alignment(small_alignment(rng, names)),
            {"id": "tree", "type": "FlexibleTimeTreeModel", "newick": "((t0,t1),(t2,t3));", "taxa": "taxa",
             "internal_heights": {"id": "tree.heights", "type": "TransformedParameter", "transform": "torchtree.evolution.tree_height_transform.DifferenceNodeHeightTransform",
                                  "parameters": {"tree_model": "tree"}, "x": P("tree.shifts", [1.0, 1.5, 0.7])}},
            {"id": "clock", "type": "StrictClockModel", "tree_model": "tree", "rate": P("clock.rate", [0.1])},
            {"id": "like", "type": "TreeLikelihoodModel", "tree_model": "tree", "site_model": {"id": "site", "type": "ConstantSiteModel"},
             "substitution_model": {"id": "sm", "type": "JC69"}, "branch_model": "clock", "site_pattern": {"id": "sp", "type": "SitePattern", "alignment": "aln"}},
            {"id": "coal", "type": "ConstantCoalescentModel", "tree_model": "tree", "theta": P("coal.theta", [3.0])},
            {"id": "joint", "type": "JointDistributionModel", "distributions": ["like", "coal"]}]
    return {"name": "time-flexible", "spec": spec, "evals": ["like", "coal", "joint"],
            "leaves": {"tree.shifts": "positive", "clock.rate": "positive", "coal.theta": "positive"}, "derived": ["tree.heights"], "tensors": {"tree": "branch_lengths()"}}


GRAPHS = {"time-flexible": g_time_flexible, "variational": g_variational, "time-plain": g_time_plain, "unrooted": g_unrooted, "time-ratio": g_time_ratio, "time-shift": g_time_shift, "general": g_general, "distributions": g_distributions}


DETERMINISTIC = [k for k in GRAPHS if k != "variational"]  # graphs whose evaluations draw no random numbers (C10, C12)


def build(name, seed):
    rng = np.random.default_rng([seed, sum(map(ord, name))])
    return GRAPHS[name](rng)
