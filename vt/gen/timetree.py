"""Time-tree cases for C06/C07 (+ C08/C09/C12 re-use): JSON of (re)parameterised time-tree models and the
reference recursions for node heights."""
from __future__ import annotations

import numpy as np

from ..ref import tree as rt
from . import models as gm
from . import phylo


def random_dates(rng, n, mode=None):
    mode = mode or str(rng.choice(["iso", "ages", "calendar", "ties", "ties-calendar", "negative", "int-ages", "int-calendar"]))
    if mode == "iso":
        v = np.zeros(n)
    elif mode == "ages":
        v = rng.uniform(0, 5, n)
        v[int(rng.integers(n))] = 0.0
    elif mode == "calendar":
        v = 1990 + rng.uniform(0, 20, n)
    elif mode in ("int-ages", "int-calendar"):
        # whole numbers written without a decimal point (JSON integers): years, or ages in whole time units
        v = rng.integers(0, 7, n)
        v[int(rng.integers(n))] = 0
        return mode, [int(x) + (1995 if mode == "int-calendar" else 0) for x in v]
    elif mode == "negative":
        # forward-running dates relative to a reference day / the last sample, BCE years: all <= 0 (the latest one 0 or below)
        v = -rng.uniform(0.1, 5, n)
        if rng.random() < 0.6:
            v[int(rng.integers(n))] = 0.0
    elif mode == "ties":
        v = rng.choice([0.0, 1.0, 2.5], n)
        v[int(rng.integers(n))] = 0.0
    else:
        v = rng.choice([2000.0, 2001.0, 2003.5], n)
    return mode, [float(x) for x in v]


def make_case(rng, topo, param="ratio", dates_mode=None, batch=0):
    n = len(rt.leaves_of(topo))
    names_sorted = ["t%d" % i for i in range(n)]
    perm = rng.permutation(n).tolist()
    names = [names_sorted[i] for i in perm]  # taxa-list order != leaf numbering of the topology
    mode, dv = random_dates(rng, n, dates_mode)
    dates = dict(zip(names_sorted, dv))
    root = rt.build(topo, {i: names_sorted[i] for i in range(n)})
    case = {"newick": rt.to_newick(root, lengths=False), "names": names, "dates": dates, "tree": "time",
            "param": param, "dates_mode": mode}
    B = max(batch, 1)
    if param == "ratio":
        u = rng.random((B, n - 2)) if n > 2 else np.zeros((B, 0))
        style = rng.random()
        if style < 0.15:
            u = np.where(rng.random(u.shape) < 0.5, 1e-6, 1 - 1e-6) * np.ones_like(u)
        elif style < 0.25:
            # closer to the ends of the interval than any plausible guard value
            u = rng.choice([1e-9, 3e-8, 1 - 1e-9, 1 - 4e-7, 0.5], size=u.shape)
        else:
            u = np.clip(u, 1e-6, 1 - 1e-6)
        th = phylo.tip_heights(case)
        off = rng.exponential(float(rng.choice([0.01, 1.0, 10.0])), size=(B, 1)) + 1e-6
        case["ratios"] = u.tolist() if batch else u[0].tolist()
        rh = (max(th) + off)
        case["root_height"] = rh.tolist() if batch else rh[0].tolist()
    else:
        s = rng.exponential(float(rng.choice([0.01, 1.0, 10.0])), size=(B, n - 1)) + 1e-9
        case["shifts"] = s.tolist() if batch else s[0].tolist()
    case["batch"] = batch
    return case


def tree_json(case, id_="tree", taxa="taxa", pre=None):
    pre = pre or id_
    d = {"id": id_, "type": "ReparameterizedTimeTreeModel", "newick": case["newick"], "taxa": taxa}
    if case["param"] == "ratio":
        d["ratios"] = gm.param(pre + ".ratios", case["ratios"], dtype="torch.float64")
        d["root_height"] = gm.param(pre + ".root_height", case["root_height"], dtype="torch.float64")
    else:
        d["shifts"] = gm.param(pre + ".shifts", case["shifts"], dtype="torch.float64")
    return d


def ref_heights(case, row=None):
    """Reference recursion -> (root Node with .idx/.height, heights array indexed by node idx)."""
    root = phylo.ref_tree(case)
    th = phylo.tip_heights(case)
    n = len(case["names"])
    nodes = rt.postorder(root)
    if case["param"] == "ratio":
        ratios = case["ratios"] if row is None else case["ratios"][row]
        rh = case["root_height"] if row is None else case["root_height"][row]
        bound = {}
        for nd in nodes:
            bound[id(nd)] = th[nd.leaf] if nd.is_leaf() else max(bound[id(c)] for c in nd.children)
        for nd in rt.preorder(root):
            if nd.is_leaf():
                nd.height = th[nd.leaf]
            elif nd.parent is None:
                nd.height = rh[0]
            else:
                b = bound[id(nd)]
                nd.height = b + ratios[nd.idx - n] * (nd.parent.height - b)
    else:
        shifts = case["shifts"] if row is None else case["shifts"][row]
        for nd in nodes:
            if nd.is_leaf():
                nd.height = th[nd.leaf]
            else:
                nd.height = max(c.height for c in nd.children) + shifts[nd.idx - n]
    h = np.empty(2 * n - 1)
    for nd in nodes:
        h[nd.idx] = nd.height
    return root, h
