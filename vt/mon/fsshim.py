"""File-system shim with crash injection for torchtree.core.parameter_utils.

The shim replaces, inside that module only, `open` and `os` (rename / remove / path.lexists).  A virtual directory
(path -> bytes durably on 'disk') models what survives process death: data written to a file object sits in a
user-space buffer of `bufsize` bytes and reaches the disk only when the buffer overflows, on flush() or close().
Every disk-affecting operation (create/truncate on open, each buffer write-out, rename, remove) is a numbered
crash point; `Crash` is raised *before* operation `crash_at`, after which nothing more reaches the disk."""
from __future__ import annotations

import posixpath
from collections.abc import MutableMapping


class Crash(BaseException):
    """Simulated process death (BaseException: must not be swallowed by `except Exception`)."""


class Interrupt(KeyboardInterrupt):
    """The process dies through an exception delivered at a file-system operation (Ctrl-C, SIGTERM handler, I/O error): the
    operation does not happen, but the interpreter still unwinds - `with` blocks close (and flush) their files, `finally`
    clauses run - and what they do does reach the disk."""


class _Files(MutableMapping):
    """path -> bytes, with hard links: several paths may name one inode, and writing or truncating through one of them
    is seen through all of them (os.link); rename and remove only touch the directory entry."""

    def __init__(self, files=None):
        self._ino, self._data, self._next = {}, {}, 0
        if isinstance(files, _Files):  # a copy keeps the hard links (a directory handed from one killed write to the next)
            self._ino, self._data, self._next = dict(files._ino), dict(files._data), files._next
            return
        for k, v in dict(files or {}).items():
            self[k] = v

    def __getitem__(self, path):
        return self._data[self._ino[path]]

    def __setitem__(self, path, data):
        if path not in self._ino:
            self._ino[path] = self._next
            self._next += 1
        self._data[self._ino[path]] = data

    def __delitem__(self, path):
        ino = self._ino.pop(path)
        if ino not in self._ino.values():
            del self._data[ino]

    def __iter__(self):
        return iter(list(self._ino))

    def __len__(self):
        return len(self._ino)

    def link(self, src, dst):
        self._ino[dst] = self._ino[src]

    def rename(self, src, dst):
        if src == dst or self._ino.get(dst) == self._ino[src]:
            return  # POSIX: renaming onto another name of the same inode does nothing (both names stay)
        if dst in self._ino:
            del self[dst]
        self._ino[dst] = self._ino.pop(src)

    def nlinks(self, path):
        return sum(1 for i in self._ino.values() if i == self._ino[path])


def _device(path):
    """the virtual disk has one file system per top-level directory (/tmp and /ckpt are different devices)"""
    parts = [x for x in str(path).split("/") if x]
    return parts[0] if str(path).startswith("/") and len(parts) > 1 else "."


class VFS:
    def __init__(self, files=None, bufsize=1, crash_at=None, interrupt_at=None, deny=()):
        self.deny = set(deny)  # paths that cannot be created (a directory sits there, name too long, no permission, disk full): OSError
        self.files = _Files(files)  # path -> bytes (hard links share their bytes)
        self._ntmp = 0
        self.bufsize = bufsize
        self.crash_at = crash_at
        self.interrupt_at = interrupt_at  # operation at which an ordinary exception is raised once (see Interrupt)
        self.interrupted = False
        self.ops = []  # log of operations that reached the disk
        self.dead = False
        self._fds = {}

    def _op(self, name, *args):
        if self.dead:
            raise Crash()
        if self.interrupt_at is not None and not self.interrupted and len(self.ops) == self.interrupt_at:
            self.interrupted = True
            raise Interrupt()
        if self.crash_at is not None and len(self.ops) == self.crash_at:
            self.dead = True
            raise Crash()
        self.ops.append((name,) + args)

    # ---- what parameter_utils sees
    def open(self, path, mode="r", *a, **k):
        if "w" in mode:
            if path in self.deny:
                raise OSError(28, "cannot create (injected)", path)
            self._op("create", path)
            self.files[path] = b""
            return _File(self, path)
        if "a" in mode:
            self._op("open-append", path)
            self.files.setdefault(path, b"")
            return _File(self, path)
        raise NotImplementedError(mode)

    # ---- whole-file copies (shutil.copyfile / copy / copy2): the destination is truncated, then written
    def copyfile(self, src, dst, *a, **k):
        if src not in self.files:
            raise FileNotFoundError(2, "No such file or directory", src)
        data = self.files[src]
        with self.open(dst, "wb") as f:
            f.write(data)
        return dst

    # ---- low-level descriptors (os.open / os.fdopen / os.fsync)
    def os_open(self, path, flags, mode=0o777):
        import os as _os

        if path not in self.files:
            if not flags & _os.O_CREAT:
                raise FileNotFoundError(path)
            self._op("create", path)
            self.files[path] = b""
        elif flags & _os.O_TRUNC:
            self._op("create", path)
            self.files[path] = b""
        else:
            self._op("open-overwrite", path)  # existing content stays; writes replace it from offset 0 (or append with O_APPEND)
        fd = 1000 + len(self._fds)
        self._fds[fd] = (path, bool(flags & _os.O_APPEND))
        return fd

    def os_fdopen(self, fd, mode="r", *a, **k):
        path, append = self._fds[fd]
        return _File(self, path, offset=None if append else 0)

    def rename(self, src, dst):
        if src not in self.files:
            raise FileNotFoundError(src)
        self._op("rename", src, dst)
        self.files.rename(src, dst)

    def link(self, src, dst):
        if src not in self.files:
            raise FileNotFoundError(2, "No such file or directory", src)
        if dst in self.files:
            raise FileExistsError(17, "File exists", dst)
        if _device(src) != _device(dst):
            raise OSError(18, "Invalid cross-device link", dst)
        self._op("link", src, dst)
        self.files.link(src, dst)

    # ---- shutil.move: a rename on one file system, copy then unlink across two
    def move(self, src, dst, *a, **k):
        if src not in self.files:
            raise FileNotFoundError(2, "No such file or directory", src)
        if _device(src) == _device(dst):
            self.rename(src, dst)
        else:
            self.copyfile(src, dst)
            self.remove(src)
        return dst

    # ---- tempfile.NamedTemporaryFile / mkstemp: the default directory is the system one (/tmp), another device
    def _tmpname(self, suffix=None, prefix=None, dir=None):
        self._ntmp += 1
        return "%s/%svt%06d%s" % (str(dir) if dir is not None else "/tmp", prefix or "tmp", self._ntmp, suffix or "")

    def named_temporary_file(self, mode="w+b", buffering=-1, encoding=None, newline=None, suffix=None, prefix=None, dir=None,
                             delete=True, **k):
        path = self._tmpname(suffix, prefix, dir)
        f = self.open(path, "w")
        f.name = path
        f.delete = delete
        return f

    def mkstemp(self, suffix=None, prefix=None, dir=None, text=False):
        import os as _os

        path = self._tmpname(suffix, prefix, dir)
        return self.os_open(path, _os.O_CREAT | _os.O_WRONLY | _os.O_EXCL), path

    def remove(self, path):
        if path not in self.files:
            raise FileNotFoundError(path)
        self._op("remove", path)
        del self.files[path]

    def lexists(self, path):
        return path in self.files


class _File:
    def __init__(self, vfs, path, offset=None):
        self.vfs, self.path, self.buf, self.closed = vfs, path, b"", False
        self.offset = offset  # None: append at the end; int: overwrite existing bytes from there (file opened without truncation)

    def _put(self, chunk):
        cur = self.vfs.files.get(self.path, b"")
        if self.offset is None:
            self.vfs.files[self.path] = cur + chunk
        else:
            self.vfs.files[self.path] = cur[: self.offset] + chunk + cur[self.offset + len(chunk):]
            self.offset += len(chunk)

    def write(self, s):
        if self.vfs.dead:
            raise Crash()
        data = s.encode() if isinstance(s, str) else bytes(s)
        self.buf += data
        while len(self.buf) >= self.vfs.bufsize:
            chunk, self.buf = self.buf[: self.vfs.bufsize], self.buf[self.vfs.bufsize:]
            self.vfs._op("write", self.path, len(chunk))
            self._put(chunk)
        return len(s)

    def flush(self):
        if self.buf:
            chunk, self.buf = self.buf, b""
            self.vfs._op("write", self.path, len(chunk))
            self._put(chunk)

    def close(self):
        if not self.closed:
            self.closed = True
            if not self.vfs.dead:
                self.flush()
                if getattr(self, "delete", False) and self.path in self.vfs.files:
                    self.vfs.remove(self.path)

    def fileno(self):
        return -1

    def __enter__(self):
        return self

    def __exit__(self, et, ev, tb):
        # a dying process does not run the flush of close(): the buffer is simply lost
        if et is not None and issubclass(et, Crash):
            self.closed = True
            return False
        self.close()
        return False


class _Path:
    def __init__(self, vfs):
        self._vfs = vfs

    def lexists(self, p):
        return self._vfs.lexists(p)

    def exists(self, p):
        return self._vfs.lexists(p)

    def __getattr__(self, name):
        return getattr(posixpath, name)


class _OS:
    def __init__(self, vfs, real_os):
        self._vfs = vfs
        self._real = real_os
        self.path = _Path(vfs)

    def rename(self, a, b):
        return self._vfs.rename(a, b)

    def replace(self, a, b):
        return self._vfs.rename(a, b)

    def remove(self, a):
        return self._vfs.remove(a)

    def unlink(self, a):
        return self._vfs.remove(a)

    def link(self, a, b, **k):
        return self._vfs.link(a, b)

    def open(self, path, flags, mode=0o777, *a, **k):
        return self._vfs.os_open(path, flags, mode)

    def fdopen(self, fd, *a, **k):
        return self._vfs.os_fdopen(fd, *a, **k)

    def fsync(self, fd):
        return None  # what reached the virtual disk is durable; data still in a user-space buffer is not touched by fsync

    def fdatasync(self, fd):
        return None

    def close(self, fd):
        self._vfs._fds.pop(fd, None)

    def __getattr__(self, name):
        return getattr(self._real, name)


class installed:
    """context manager: route parameter_utils' file-system access through `vfs`; counts the calls it intercepted."""

    def __init__(self, vfs):
        self.vfs = vfs

    def __enter__(self):
        import os

        import torchtree.core.parameter_utils as pu

        import shutil

        self.pu = pu
        self.saved = (pu.__dict__.get("open", None), pu.os)
        pu.open = self.vfs.open
        pu.os = _OS(self.vfs, os)
        # whoever copies checkpoint files (any module) does so on the virtual disk
        self.saved_shutil = {n: getattr(shutil, n) for n in ("copyfile", "copy", "copy2", "move")}
        for n in self.saved_shutil:
            setattr(shutil, n, self.vfs.move if n == "move" else self.vfs.copyfile)
        # any module that opens a path on the virtual disk (a writability probe, a hand-rolled copy) does so on the virtual disk
        import builtins
        import io

        real_open = self.saved_builtin_open = builtins.open
        vfs = self.vfs
        roots = tuple(sorted({"/" + str(p_).split("/")[1] + "/" for p_ in list(vfs.files) + list(vfs.deny) if str(p_).startswith("/") and str(p_).count("/") >= 2} | {"/ckpt/"}))

        def vopen(file, mode="r", *a, **k):
            if isinstance(file, str) and file.startswith(roots):
                if "w" in mode or "a" in mode:
                    return vfs.open(file, mode)
                if file not in vfs.files:
                    raise FileNotFoundError(2, "No such file or directory", file)
                data = vfs.files[file]
                return io.BytesIO(data) if "b" in mode else io.StringIO(data.decode())
            return real_open(file, mode, *a, **k)

        builtins.open = vopen
        import tempfile

        self.saved_tmp = {n: getattr(tempfile, n) for n in ("NamedTemporaryFile", "mkstemp")}
        tempfile.NamedTemporaryFile = self.vfs.named_temporary_file
        tempfile.mkstemp = self.vfs.mkstemp
        return self.vfs

    def __exit__(self, *a):
        if self.saved[0] is None:
            self.pu.__dict__.pop("open", None)
        else:
            self.pu.open = self.saved[0]
        self.pu.os = self.saved[1]
        import shutil

        for n, f in self.saved_shutil.items():
            setattr(shutil, n, f)
        import builtins

        builtins.open = self.saved_builtin_open
        import tempfile

        for n, f in self.saved_tmp.items():
            setattr(tempfile, n, f)
        return False
