"""Contract overlay: post-conditions attached from the harness to real torchtree methods (icontract.ensure with named
conditions that *record and return True*, so the surrounding workload continues).  An invariant written for one property
thereby fires on every call made by any workload that runs with the overlay on - the repository's own test-suite,
configurations emitted by torchtree-cli, short real MCMC / HMC / ADVI / MAP runs.

    ov = Overlay(["C04", "C05"]); ov.install(); ...workload...; ov.uninstall(); ov.violations, ov.counters

Conditions only judge calls whose *inputs* are in the domain the property quantifies over (finite non-negative branch
lengths, frequencies on the simplex, ratios in [0,1] ...): workloads such as the test-suite legitimately feed other
things, and a contract stricter than the statement is the classic false alarm of this technique."""
from __future__ import annotations

import importlib
import traceback

import icontract
import numpy as np


class ContractBroken(Exception):
    pass


def _np(t):
    return t.detach().cpu().double().numpy()


def _eps_tol(t, base, factor=200.0):
    """tolerance for a quantity computed in t's precision: `base` in double precision, a few hundred ulps in single precision
    (the repository's own tests run with the float32 default)"""
    import torch

    try:
        eps = torch.finfo(t.dtype).eps
    except TypeError:
        eps = 2.2e-16
    return max(base, factor * eps)


class Overlay:
    def __init__(self, props, context=None, max_violations=40, recompute_every=7):
        self.props = set(props)
        self.counters = {}
        self.violations = []
        self._undo = []
        self.context = context or (lambda: None)
        self.max_violations = max_violations
        self.recompute_every = recompute_every
        self._tick = 0
        self._busy = False

    # ---------------------------------------------------------------- bookkeeping
    def count(self, key, n=1):
        self.counters[key] = self.counters.get(key, 0) + n

    def record(self, sig, msg, **detail):
        if len(self.violations) < self.max_violations and not any(v["sig"] == sig for v in self.violations):
            stack = [("%s:%d %s" % (fr.filename.split("/torchtree/")[-1], fr.lineno, fr.name)) for fr in traceback.extract_stack()[:-2] if "/torchtree/" in fr.filename][-6:]
            self.violations.append({"sig": sig, "msg": msg, "detail": dict(detail, context=self.context(), stack=stack)})

    def _patch(self, cls, name, new):
        old = cls.__dict__[name]
        setattr(cls, name, new)
        self._undo.append((cls, name, old))

    def uninstall(self):
        for cls, name, old in reversed(self._undo):
            setattr(cls, name, old)
        self._undo = []

    def _ensure(self, cls, name, cond):
        """attach `cond` as an icontract post-condition of cls.<name> (method or property)"""
        old = cls.__dict__[name]
        if isinstance(old, property):
            new = property(icontract.ensure(cond, error=ContractBroken)(old.fget), old.fset, old.fdel)
        else:
            new = icontract.ensure(cond, error=ContractBroken)(old)
        self._patch(cls, name, new)

    # ---------------------------------------------------------------- installation
    def install(self):
        import torchtree  # noqa: F401

        if "C04" in self.props:
            self._install_c04()
        if "C05" in self.props:
            self._install_c05()
        if "C06" in self.props:
            self._install_c06()
        if "C11" in self.props:
            self._install_c11()
        return self

    # C04: every transition matrix handed to the likelihood is row-stochastic
    def _install_c04(self):
        ov = self
        from torchtree.evolution.substitution_model.abstract import SubstitutionModel

        for modname in ("abstract", "nucleotide", "general", "amino_acid", "codon"):
            importlib.import_module("torchtree.evolution.substitution_model." + modname)

        def subclasses(c):
            for s in c.__subclasses__():
                yield s
                yield from subclasses(s)

        def p_t_is_row_stochastic(self, branch_lengths, result):
            try:
                if ov._busy:
                    return True
                ov.count("C04.p_t_calls")
                bl = _np(branch_lengths)
                # the domain the property quantifies over: t in [0, 100], rates / kappa / omega in 1e-4..1e4, frequencies on the open simplex
                if not np.all(np.isfinite(bl)) or bl.min(initial=0.0) < 0 or bl.max(initial=0.0) > 100:
                    ov.count("C04.p_t_outside_domain")
                    return True
                pars = {}
                for q in self._parameters.values():  # the (constrained) parameters the model itself reads
                    v = _np(q.tensor)
                    pars[str(q.id)] = v.reshape(-1)[:8].tolist()
                    if not np.all(np.isfinite(v)) or v.min() <= 0 or v.max() > 1e4 or ("freq" not in str(q.id) and v.min() < 1e-4):
                        ov.count("C04.p_t_outside_domain")
                        return True
                fr = getattr(self, "frequencies", None)
                if fr is not None:
                    f = _np(fr)
                    if not np.all(np.isfinite(f)) or f.min() < 1e-6 or np.abs(f.sum(-1) - 1).max() > 1e-8:
                        ov.count("C04.p_t_outside_domain")
                        return True
                P = _np(result)
                ov.count("C04.p_t_judged")
                ov.count("C04.p_t_matrices", int(P.size // max(1, P.shape[-1] * P.shape[-2])))
                name = type(self).__name__
                ov.counters.setdefault("C04.classes", set()).add(name)
                if not np.all(np.isfinite(P)):
                    ov.record("C04:overlay:p_t-not-finite:" + name, "p_t returned non-finite entries for finite branch lengths >= 0", model=name, parameters=pars)
                    return True
                tolp = _eps_tol(result, 1e-8)
                rs = np.abs(P.sum(-1) - 1).max()
                if rs > tolp:
                    ov.record("C04:overlay:p_t-row-sum:" + name, "rows of P(t) sum to 1%+.3g" % (P.sum(-1) - 1).flat[np.abs(P.sum(-1) - 1).argmax()], model=name,
                              branch_lengths=bl.reshape(-1)[:6].tolist(), parameters=pars)
                if P.min() < -tolp:
                    ov.record("C04:overlay:p_t-negative:" + name, "P(t) has an entry %.3g" % P.min(), model=name, branch_lengths=bl.reshape(-1)[:6].tolist(), parameters=pars)
            except Exception as e:  # the monitor must never break the workload
                ov.count("C04.monitor_errors")
                ov.counters.setdefault("monitor_error_text", set()).add("%s: %s" % (type(e).__name__, str(e)[:80]))
            return True

        for cls in [SubstitutionModel] + list(subclasses(SubstitutionModel)):
            f = cls.__dict__.get("p_t")
            if f is not None and not getattr(f, "__isabstractmethod__", False):
                self._ensure(cls, "p_t", p_t_is_row_stochastic)
                self.count("C04.hooked_classes")

    # C05: whenever a site model hands out rates, probabilities and rates satisfy the identities
    def _install_c05(self):
        ov = self
        from torchtree.evolution import site_model as sm

        def rates_and_probabilities_consistent(self, result):
            try:
                if ov._busy:
                    return True
                ov._busy = True
                ov.count("C05.rates_calls")
                name = type(self).__name__
                r = _np(result)
                p = _np(self.probabilities())
                mu = _np(self._mu.tensor) if getattr(self, "_mu", None) is not None else np.ones(1)
                inv = getattr(self, "_invariant", None)
                pinv = _np(inv.tensor) if inv is not None else None
                shape = getattr(self, "_parameter", None)
                ok = np.all(np.isfinite(mu)) and mu.min() > 1e-6 and mu.max() < 1e6
                if pinv is not None:
                    ok = ok and np.all(np.isfinite(pinv)) and pinv.min() >= 0 and pinv.max() < 1
                if shape is not None:
                    sh = _np(shape.tensor)
                    ok = ok and np.all(np.isfinite(sh)) and sh.min() >= 1e-2 and sh.max() <= 1e2  # the range the property names
                if not ok:
                    ov.count("C05.outside_domain")
                    return True
                ov.count("C05.judged")
                ov.counters.setdefault("C05.classes", set()).add(name)
                if not (np.all(np.isfinite(r)) and np.all(np.isfinite(p))):
                    ov.record("C05:overlay:nonfinite:" + name, "non-finite rates or probabilities for parameters in the domain", model=name)
                    return True
                tolr = _eps_tol(result, 1e-9)
                if p.min() < 0 or np.abs(p.sum(-1) - 1).max() > tolr:
                    ov.record("C05:overlay:probabilities:" + name, "category probabilities %s are not a probability vector" % p.reshape(-1)[:6].tolist(), model=name)
                if r.min() < 0:
                    ov.record("C05:overlay:rate-negative:" + name, "negative category rate %.3g" % r.min(), model=name)
                mean = (np.broadcast_to(p, np.broadcast(p, r).shape) * r).sum(-1)
                want = mu[..., 0] if mu.ndim >= 1 else mu
                if np.abs(mean - want).max() > tolr * max(1.0, float(np.max(want))):
                    ov.record("C05:overlay:mean-rate:" + name, "sum_k p_k r_k = %s, expected %s" % (np.asarray(mean).reshape(-1)[:3].tolist(), np.asarray(want).reshape(-1)[:3].tolist()), model=name)
            except Exception as e:
                ov.count("C05.monitor_errors")
                ov.counters.setdefault("monitor_error_text", set()).add("%s: %s" % (type(e).__name__, str(e)[:80]))
            finally:
                ov._busy = False
            return True

        for cls in (sm.ConstantSiteModel, sm.InvariantSiteModel, sm.UnivariateDiscretizedSiteModel):
            if "rates" in cls.__dict__:
                self._ensure(cls, "rates", rates_and_probabilities_consistent)
                self.count("C05.hooked_classes")

    # C06: the heights a reparameterised tree model publishes form a valid time tree
    def _install_c06(self):
        ov = self
        from torchtree.evolution.tree_model import ReparameterizedTimeTreeModel, TimeTreeModel

        def relation(model):
            rel = getattr(model, "_vt_relation", None)
            if rel is None:
                rel = [(nd.index, ch.index) for nd in model.tree.postorder_node_iter() if not nd.is_leaf() for ch in nd.child_node_iter()]
                model._vt_relation = rel
            return rel

        def in_domain(model):
            from torchtree.evolution.tree_height_transform import GeneralNodeHeightTransform

            x = _np(model._internal_heights.tensor)
            if not np.all(np.isfinite(x)):
                return False
            if isinstance(model.transform, GeneralNodeHeightTransform):
                oldest = float(_np(model.sampling_times).max())
                return x[..., :-1].min(initial=0.5) >= 0 and x[..., :-1].max(initial=0.5) <= 1 and x[..., -1].min() >= oldest
            return x.min() >= 0

        def heights_form_a_time_tree(self, result):
            try:
                if ov._busy:
                    return True
                ov.count("C06.node_heights_calls")
                if not in_domain(self):
                    ov.count("C06.outside_domain")
                    return True
                h = _np(result)
                ov.count("C06.judged")
                kind = type(self.transform).__name__
                ov.counters.setdefault("C06.transforms", set()).add(kind)
                n = self.taxa_count if hasattr(self, "taxa_count") else len(self.taxa)
                st = _np(self.sampling_times)
                if np.abs(h[..., :n] - st).max() != 0:
                    ov.record("C06:overlay:tip-not-at-sampling-time:" + kind, "a tip height differs from its sampling time", transform=kind)
                for pa, ch in relation(self):
                    if (h[..., pa] < h[..., ch]).any():
                        ov.record("C06:overlay:parent-younger-than-child:" + kind, "node %d (height %.6g) is younger than its child %d (height %.6g)" % (pa, h[..., pa].reshape(-1)[0], ch, h[..., ch].reshape(-1)[0]), transform=kind,
                                  taxa=int(n))
                        break
            except Exception as e:
                ov.count("C06.monitor_errors")
                ov.counters.setdefault("monitor_error_text", set()).add("%s: %s" % (type(e).__name__, str(e)[:80]))
            return True

        def branch_lengths_are_height_differences(self, result):
            try:
                if ov._busy:
                    return True
                ov._busy = True
                ov.count("C06.branch_lengths_calls")
                h = _np(self.node_heights)
                b = _np(result)
                if not np.all(np.isfinite(h)):
                    return True
                ov.count("C06.branch_lengths_judged")
                for pa, ch in relation(self):
                    d = h[..., pa] - h[..., ch]
                    if np.abs(b[..., ch] - d).max() > _eps_tol(result, 1e-12, 20.0) * max(1.0, float(np.abs(h).max())):
                        ov.record("C06:overlay:branch-length-not-height-difference:" + type(self).__name__, "branch above node %d has length %.9g, heights differ by %.9g" % (ch, b[..., ch].reshape(-1)[0], d.reshape(-1)[0]),
                                  model=type(self).__name__)
                        break
            except Exception as e:
                ov.count("C06.monitor_errors")
                ov.counters.setdefault("monitor_error_text", set()).add("%s: %s" % (type(e).__name__, str(e)[:80]))
            finally:
                ov._busy = False
            return True

        self._ensure(ReparameterizedTimeTreeModel, "node_heights", heights_form_a_time_tree)
        self._ensure(TimeTreeModel, "branch_lengths", branch_lengths_are_height_differences)
        self.count("C06.hooked_classes", 2)

    # C11: a cached value handed out by a clean model equals its recomputation on the spot (that level only)
    DETERMINISTIC = {"TreeLikelihoodModel", "ConstantCoalescentModel", "ExponentialCoalescentModel", "PiecewiseConstantCoalescentModel", "PiecewiseConstantCoalescentGridModel",
                     "PiecewiseLinearCoalescentGridModel", "BDSKModel", "BirthDeathModel", "GMRF", "GMRFCovariate", "Distribution", "JointDistributionModel", "CTMCScale",
                     "CompoundGammaDirichletPrior", "ReparameterizedTimeTreeModel", "MultivariateNormal", "ScaleMixtureNormal", "BayesianBridge", "FakeConstantCoalescentModel"}

    def _install_c11(self):
        ov = self
        import torch
        from torchtree.core.model import CallableModel

        orig = CallableModel.__dict__["__call__"]

        def call(self, *args, **kwargs):
            clean = not self.lp_needs_update and self.lp is not None
            out = orig(self, *args, **kwargs)
            if clean and not ov._busy and not args and not kwargs and type(self).__name__ in ov.DETERMINISTIC:
                ov._tick += 1
                ov.count("C11.cached_returns")
                if ov._tick % ov.recompute_every == 0:
                    ov._busy = True
                    try:
                        fresh = self._call()
                        ov.count("C11.recomputed")
                        ov.counters.setdefault("C11.classes", set()).add(type(self).__name__)
                        a, b = _np(out), _np(fresh)
                        if a.shape != b.shape or not np.allclose(a, b, rtol=1e-11, atol=1e-11, equal_nan=True):
                            ov.record("C11:overlay:cached-value-differs-from-recomputation:" + type(self).__name__, "%s (%s) returned its cached %s, recomputing gives %s" % (type(self).__name__, self.id, a.reshape(-1)[:3].tolist(), b.reshape(-1)[:3].tolist()),
                                      model=type(self).__name__, id=str(self.id))
                    except Exception as e:
                        ov.count("C11.monitor_errors")
                        ov.counters.setdefault("monitor_error_text", set()).add("%s: %s" % (type(e).__name__, str(e)[:80]))
                    finally:
                        ov._busy = False
            return out

        self._patch(CallableModel, "__call__", call)
        self.count("C11.hooked_classes")

    # ---------------------------------------------------------------- export
    def export(self):
        c = {}
        for k, v in self.counters.items():
            c[k] = sorted(v) if isinstance(v, set) else v
        return {"violations": self.violations, "counters": c}
