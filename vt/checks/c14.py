"""C14 - variational objectives are exact at the true posterior.

Closed-form oracle: conjugate models whose posterior lies in the variational family; with q set to the exact posterior
log p(x,z) - log q(z) = log Z for every z, so ELBO, multi-sample ELBO, Renyi bound, chi upper bound and the
self-normalised inclusive-KL estimate must equal log Z for every draw and every sample count.  A sample-pairing
monitor (wrappers on p._call / q._call / rsample) records which samples the two densities saw; with q moved off the
posterior the value is recomputed from the recorded log densities by an independent implementation of each objective."""
from __future__ import annotations

import math

import numpy as np
from scipy import special, stats

from .. import tt
from ..gen import models as gm

PROPERTY = "C14"
LEVEL = "exploration"
RULE = ("cases = conjugate family {gamma-exponential, gamma-Poisson, normal-normal, beta-binomial, multivariate normal, log-normal through ExpTransform, "
        "normal through AffineTransform} x random hyper-parameters and data (1..50 points) x objective {ELBO, ELBO with analytic entropy, multi-sample ELBO, "
        "VR(alpha), CUBO(n), KLpq} x sample shape [S] (1..64) or [S,K] x variational distribution given as joint (CLI form) or bare x q at / off the posterior; "
        "5 fresh draws each; non-trivial = S*K >= 2; distinct by (family, objective, shape, q form, seed)")
ASSUMPTIONS = [
    "log Z and the posterior are computed from textbook conjugate formulas with scipy.special / scipy.stats (independent of torchtree)",
    "'evaluation request' = a call made the way the drivers make it (a parameter fires a change, then the objective is called); a second call on a clean objective returning the cached number is documented CallableModel behaviour",
    "KLpq has no documented meaning for two-dimensional sample shapes: raising is accepted there; a returned number must equal one of the natural definitions (weights normalised over all samples or per row)",
]
BUDGET = {"quick": 80, "thorough": 800}
ROUNDS = {"thorough": 8}
FLOORS = {"posterior_identities": {"quick": 3000, "thorough": 30000}, "off_posterior_recomputations": {"quick": 800, "thorough": 8000}, "api_cases": {"quick": 30, "thorough": 300}, "pairing_checks": {"quick": 3000, "thorough": 30000},
          "families": 10, "objectives": 6, "driver_iterations": 20, "q_moved_to_posterior_after_use": {"quick": 200, "thorough": 2000}, "moved_between_requests": {"quick": 300, "thorough": 3000}}

FAMILIES = ["gamma-exponential", "gamma-poisson", "normal-normal", "beta-binomial", "mvn", "lognormal-exp", "normal-affine",
            "normal-normal-vector", "product-of-unequal-blocks", "lognormal-cumsumexp"]
OBJECTIVES = ["ELBO", "ELBO-entropy", "ELBO-multi", "VR", "CUBO", "KLpq"]


def cases(tier, seed):
    rng = np.random.default_rng([seed, 14])
    n = {"quick": 1400, "thorough": 14000}[tier]
    out = []
    for i in range(n):
        fam = FAMILIES[i % len(FAMILIES)]
        obj = OBJECTIVES[(i // len(FAMILIES)) % len(OBJECTIVES)]
        two_d = obj == "ELBO-multi" or (obj in ("VR", "CUBO", "KLpq") and rng.random() < 0.3)
        S = int(rng.choice([1, 2, 3, 5, 8, 16, 64]))
        shape = [S, int(rng.choice([1, 2, 3, 5, S]))] if two_d else [S]
        if fam == "mvn" and i % 70 == 4:
            out.append({"family": fam, "objective": "ELBO", "shape": [int(rng.choice([2, 8]))], "qform": "joint", "off": False, "seed": int(rng.integers(2**31)), "alpha": 0.0, "n": 2.0, "mvn_class_likelihood": True})
        out.append({"family": fam, "objective": obj, "shape": shape, "qform": "joint" if rng.random() < 0.7 else "bare",
                    "off": bool(rng.random() < 0.3), "seed": int(rng.integers(2**31)), "alpha": float(rng.choice([0.0, 0.5, 2.0])), "n": float(rng.choice([2.0, 3.0]))})
        if fam == "mvn" and rng.random() < 0.5:
            out[-1]["blocks"] = True
        if fam in ("gamma-exponential", "gamma-poisson", "normal-normal") and i % 19 == 5:
            out[-1]["big_data"] = True
        if fam == "product-of-unequal-blocks":
            out[-1].update(qform="joint", off=False)
        if fam == "normal-normal-vector" and obj != "ELBO-entropy":
            out[-1]["qform"] = "joint"  # (a bare element-wise q of several components has no summed log density: the known mechanism, met on the scalar families)
        if fam == "mvn":
            out[-1]["q_param"] = ["covariance_matrix", "precision_matrix", "scale_tril", "scale_tril_transformed"][(i // len(FAMILIES)) % 4]
        if (i % 4 == 1 and fam != "mvn") or (fam == "mvn" and (i // (len(FAMILIES) * 4)) % 2 == 0):
            # (for the multivariate normal every parameterisation is met with and without such a history)
            out[-1]["q_history"] = True  # q starts somewhere else, is used once, and is then moved to the posterior through its parameters
        if fam == "normal-affine" and i % 2 == 0:
            out[-1]["reversed_keys"] = True  # the transform's arguments written in another order than its constructor takes them
        if len(shape) == 1 and i % 5 == 2:
            out[-1]["override_samples"] = True  # later requests pass samples=... with another count, as the convergence checks do
    for i in range(40 if tier == "quick" else 400):
        out.append({"api": True, "objective": ["ELBO", "VR", "CUBO", "KLpq"][i % 4], "seed": int(rng.integers(2**31))})
    for i in range(8 if tier == "quick" else 60):
        out.append({"family": FAMILIES[i % len(FAMILIES)], "objective": "driver", "shape": [int(rng.choice([1, 4, 16]))], "qform": "joint", "off": False, "seed": int(rng.integers(2**31))})
    return out


F64 = "torch.float64"


def P(i, v):
    return gm.param(i, v, dtype=F64)


def D(i, dist, x, **params):
    return {"id": i, "type": "Distribution", "distribution": dist, "x": x, "parameters": params}


def build(case):
    """-> spec pieces, log Z, posterior description (for the reference density of q), id of the latent parameter"""
    rng = np.random.default_rng(case["seed"])
    fam = case["family"]
    n = int(rng.integers(1, 51))
    if case.get("big_data"):
        n = int(rng.integers(600, 1001))  # log p(data) far below log(smallest double): weights must be normalised in log space
    off = case["off"]
    jitter = (lambda v: v * float(np.exp(rng.normal(0, 0.3)))) if off else (lambda v: v)
    if fam == "gamma-exponential":
        a, b = float(gm.loguniform(rng, 0.3, 5)), float(gm.loguniform(rng, 0.3, 5))
        x = rng.exponential(1.0 / float(gm.loguniform(rng, 0.3, 3)), n)
        an, bn = a + n, b + x.sum()
        logZ = a * math.log(b) - special.gammaln(a) + special.gammaln(an) - an * math.log(bn)
        p = [D("lik", "torch.distributions.Exponential", P("data", x.tolist()), rate="z"), D("prior", "torch.distributions.Gamma", P("z", [1.0]), concentration=a, rate=b)]
        p = [p[1], p[0]]
        qa, qb = jitter(an), jitter(bn)
        q = D("q", "torch.distributions.Gamma", "z", concentration=P("q.a", [qa]), rate=P("q.b", [qb]))
        ref = {"logq": lambda z: stats.gamma.logpdf(z, qa, scale=1 / qb).sum(-1), "entropy": stats.gamma.entropy(qa, scale=1 / qb)}
        terms = ["prior", "lik"]
        if case["seed"] % 4 == 1 and case["objective"] != "driver":
            # a factor of the joint that involves no sampled variable (a hyper-prior on a quantity held fixed): a constant added to log Z
            h0 = float(gm.loguniform(rng, 0.5, 3))
            p.append(D("hyper", "torch.distributions.Gamma", P("hyper.x", [h0]), concentration=2.0, rate=1.5))
            terms = ["hyper", "prior", "lik"]
            logZ += float(stats.gamma.logpdf(h0, 2.0, scale=1 / 1.5))
        return {"p": p, "q": q, "joint_terms": terms, "logZ": logZ, "ref": ref, "latent": "z", "qparam": "q.a"}
    if fam == "gamma-poisson":
        a, b = float(gm.loguniform(rng, 0.3, 5)), float(gm.loguniform(rng, 0.3, 5))
        x = rng.poisson(float(gm.loguniform(rng, 0.3, 6)), n).astype(float)
        an, bn = a + x.sum(), b + n
        logZ = a * math.log(b) - special.gammaln(a) + special.gammaln(an) - an * math.log(bn) - special.gammaln(x + 1).sum()
        p = [D("prior", "torch.distributions.Gamma", P("z", [1.0]), concentration=a, rate=b), D("lik", "torch.distributions.Poisson", P("data", x.tolist()), rate="z")]
        if case["seed"] % 2 == 0 and not case.get("big_data"):
            # counts with exposures t_i: rate_i = t_i z, written as a transformed parameter over the (constant) exposures whose transform holds
            # the latent - through a view of it, i.e. a derived parameter - as its scale
            t = gm.loguniform(rng, 0.2, 5.0, n)
            x = rng.poisson(float(gm.loguniform(rng, 0.3, 3)) * t).astype(float)
            an, bn = a + x.sum(), b + t.sum()
            logZ = a * math.log(b) - special.gammaln(a) + special.gammaln(an) - an * math.log(bn) + (x * np.log(t)).sum() - special.gammaln(x + 1).sum()
            lam = {"id": "lam", "type": "TransformedParameter", "transform": "torch.distributions.AffineTransform", "x": P("t", t.tolist()),
                   "parameters": {"loc": 0.0, "scale": {"id": "z.view", "type": "ViewParameter", "parameter": "z", "indices": "0:1"}}}
            p = [D("prior", "torch.distributions.Gamma", P("z", [1.0]), concentration=a, rate=b), D("lik", "torch.distributions.Poisson", P("data", x.tolist()), rate=lam)]
        qa, qb = jitter(an), jitter(bn)
        q = D("q", "torch.distributions.Gamma", "z", concentration=P("q.a", [qa]), rate=P("q.b", [qb]))
        ref = {"logq": lambda z: stats.gamma.logpdf(z, qa, scale=1 / qb).sum(-1), "entropy": stats.gamma.entropy(qa, scale=1 / qb)}
        return {"p": p, "q": q, "joint_terms": ["prior", "lik"], "logZ": logZ, "ref": ref, "latent": "z", "qparam": "q.a"}
    if fam in ("normal-normal", "lognormal-exp", "normal-affine"):
        m0, s0, sig = float(rng.normal()), float(gm.loguniform(rng, 0.3, 3)), float(gm.loguniform(rng, 0.3, 3))
        x = rng.normal(rng.normal(), sig, n)
        prec = 1 / s0**2 + n / sig**2
        sn = math.sqrt(1 / prec)
        mn = (m0 / s0**2 + x.sum() / sig**2) / prec
        mu = 0.37
        logZ = stats.norm.logpdf(x, mu, sig).sum() + stats.norm.logpdf(mu, m0, s0) - stats.norm.logpdf(mu, mn, sn)
        qm, qs = (mn + (0.3 * sn if off else 0.0)), jitter(sn)
        ref = {"logq": lambda z: stats.norm.logpdf(z, qm, qs).sum(-1), "entropy": stats.norm.entropy(qm, qs)}
        if fam == "normal-normal":
            p = [D("prior", "torch.distributions.Normal", P("z", [0.1]), loc=m0, scale=s0), D("lik", "torch.distributions.Normal", P("data", x.tolist()), loc="z", scale=sig)]
            q = D("q", "torch.distributions.Normal", "z", loc=P("q.m", [qm]), scale=P("q.s", [qs]))
            return {"p": p, "q": q, "joint_terms": ["prior", "lik"], "logZ": logZ, "ref": ref, "latent": "z", "qparam": "q.m"}
        if fam == "lognormal-exp":
            # theta = exp(z) with a log-normal prior on theta; the joint over the unconstrained z carries the Jacobian term theta()
            theta = {"id": "theta", "type": "TransformedParameter", "transform": "torch.distributions.ExpTransform", "x": P("z", [0.1])}
            p = [D("prior", "torch.distributions.LogNormal", theta, loc=m0, scale=s0), D("lik", "torch.distributions.Normal", P("data", x.tolist()), loc="z", scale=sig)]
            q = D("q", "torch.distributions.Normal", "z", loc=P("q.m", [qm]), scale=P("q.s", [qs]))
            return {"p": p, "q": q, "joint_terms": ["prior", "lik", "theta"], "logZ": logZ, "ref": ref, "latent": "z", "qparam": "q.m"}
        # normal through an affine transform: w = c + d z, prior N(m0, s0) on w, likelihood on w; q on z
        c, d = float(rng.normal()), float(gm.loguniform(rng, 0.5, 2))
        w = {"id": "w", "type": "TransformedParameter", "transform": "torch.distributions.AffineTransform", "parameters": ({"scale": d, "loc": c} if case.get("reversed_keys") else {"loc": c, "scale": d}),
             "x": P("z", [0.1])}
        p = [D("prior", "torch.distributions.Normal", w, loc=m0, scale=s0), D("lik", "torch.distributions.Normal", P("data", x.tolist()), loc="w", scale=sig)]
        qmz, qsz = (qm - c) / d, qs / d
        q = D("q", "torch.distributions.Normal", "z", loc=P("q.m", [qmz]), scale=P("q.s", [qsz]))
        ref = {"logq": lambda z: stats.norm.logpdf(z, qmz, qsz).sum(-1), "entropy": stats.norm.entropy(qmz, qsz)}
        return {"p": p, "q": q, "joint_terms": ["prior", "lik", "w"], "logZ": logZ, "ref": ref, "latent": "z", "qparam": "q.m"}
    if fam == "normal-normal-vector":
        # d independent normal-normal problems held in one vector parameter (element-wise prior, likelihood and q)
        d = 3
        m0, s0, sig = rng.normal(0, 1, d), gm.loguniform(rng, 0.3, 3, d), gm.loguniform(rng, 0.3, 3, d)
        x = rng.normal(0, 1, d)
        prec = 1 / s0**2 + 1 / sig**2
        sn = np.sqrt(1 / prec)
        mn = (m0 / s0**2 + x / sig**2) / prec
        logZ = float(stats.norm.logpdf(x, m0, np.sqrt(s0**2 + sig**2)).sum())
        qm, qs = mn + (0.3 * sn if off else 0.0), np.array([jitter(v) for v in sn])
        p = [D("prior", "torch.distributions.Normal", P("z", [0.1] * d), loc=P("m0", m0.tolist()), scale=P("s0", s0.tolist())),
             D("lik", "torch.distributions.Normal", P("data", x.tolist()), loc="z", scale=P("sig", sig.tolist()))]
        q = D("q", "torch.distributions.Normal", "z", loc=P("q.m", qm.tolist()), scale=P("q.s", qs.tolist()))
        ref = {"logq": lambda z: stats.norm.logpdf(z, qm, qs).sum(-1), "entropy": float(stats.norm.entropy(qm, qs).sum())}
        return {"p": p, "q": q, "joint_terms": ["prior", "lik"], "logZ": logZ, "ref": ref, "latent": "z", "qparam": "q.m"}
    if fam == "product-of-unequal-blocks":
        # two independent conjugate problems of different size (a scalar gamma-exponential one and a three-component normal-normal
        # one); the variational distribution is a joint of two factors of unequal size
        a, b = float(gm.loguniform(rng, 0.5, 5)), float(gm.loguniform(rng, 0.5, 5))
        xe = rng.exponential(1.0, int(rng.integers(1, 10)))
        an, bn = a + len(xe), b + xe.sum()
        logZ1 = a * math.log(b) - special.gammaln(a) + special.gammaln(an) - an * math.log(bn)
        d = 3
        m0, s0, sig = rng.normal(0, 1, d), gm.loguniform(rng, 0.3, 3, d), gm.loguniform(rng, 0.3, 3, d)
        x = rng.normal(0, 1, d)
        prec = 1 / s0**2 + 1 / sig**2
        sn, mn = np.sqrt(1 / prec), (m0 / s0**2 + x / sig**2) / prec
        logZ2 = float(stats.norm.logpdf(x, m0, np.sqrt(s0**2 + sig**2)).sum())
        qa, qb = jitter(an), jitter(bn)
        qm, qs = mn + (0.3 * sn if off else 0.0), np.array([jitter(v) for v in sn])
        p = [D("prior.l", "torch.distributions.Gamma", P("lam", [1.0]), concentration=a, rate=b), D("lik.l", "torch.distributions.Exponential", P("data.l", xe.tolist()), rate="lam"),
             D("prior", "torch.distributions.Normal", P("z", [0.1] * d), loc=P("m0", m0.tolist()), scale=P("s0", s0.tolist())),
             D("lik", "torch.distributions.Normal", P("data", x.tolist()), loc="z", scale=P("sig", sig.tolist()))]
        q = [D("q.l", "torch.distributions.Gamma", "lam", concentration=P("q.a", [qa]), rate=P("q.b", [qb])),
             D("q", "torch.distributions.Normal", "z", loc=P("q.m", qm.tolist()), scale=P("q.s", qs.tolist()))]
        ref = {"logq": None, "entropy": float(stats.gamma.entropy(qa, scale=1 / qb) + stats.norm.entropy(qm, qs).sum())}
        return {"p": p, "q": q, "joint_terms": ["prior.l", "lik.l", "prior", "lik"], "logZ": float(logZ1 + logZ2), "ref": ref, "latent": "z", "qparam": "q.m", "q_is_list": True}
    if fam == "lognormal-cumsumexp":
        # theta_i = exp(z_1 + ... + z_i) with independent log-normal priors and log-normal observations on theta; the joint over the
        # unconstrained z carries the Jacobian term of the transform, the exact posterior of z is multivariate normal
        d = int(rng.integers(2, 4))
        m0, s0, sig = rng.normal(0, 0.5, d), gm.loguniform(rng, 0.4, 2, d), gm.loguniform(rng, 0.4, 2, d)
        ld = rng.normal(0, 1, d)  # logarithms of the observations
        prec = 1 / s0**2 + 1 / sig**2
        sn, mn = np.sqrt(1 / prec), (m0 / s0**2 + ld / sig**2) / prec
        logZ = float(stats.norm.logpdf(ld, m0, np.sqrt(s0**2 + sig**2)).sum())
        Dm = np.eye(d) - np.eye(d, k=-1)  # z = Dm u with u = cumsum(z)
        qm = Dm @ mn + (0.2 if off else 0.0)
        qS = Dm @ np.diag(sn**2) @ Dm.T * (1.3 if off else 1.0)
        theta = {"id": "theta", "type": "TransformedParameter", "transform": "torchtree.distributions.transforms.CumSumExpTransform", "x": P("z", [0.1] * d)}
        u = {"id": "u", "type": "TransformedParameter", "transform": "torchtree.distributions.transforms.CumSumTransform", "x": "z"}
        p = [D("prior", "torch.distributions.LogNormal", theta, loc=P("m0", m0.tolist()), scale=P("s0", s0.tolist())),
             D("lik", "torch.distributions.Normal", P("data", ld.tolist()), loc=u, scale=P("sig", sig.tolist()))]
        q = {"id": "q", "type": "MultivariateNormal", "x": "z", "parameters": {"loc": P("q.m", qm.tolist()), "covariance_matrix": P("q.S", qS.tolist())}}
        ref = {"logq": lambda z: stats.multivariate_normal.logpdf(z, qm, qS), "entropy": stats.multivariate_normal.entropy(qm, qS)}
        return {"p": p, "q": q, "joint_terms": ["prior", "lik", "theta"], "logZ": logZ, "ref": ref, "latent": "z", "qparam": "q.m", "tril": np.linalg.cholesky(qS)}
    if fam == "beta-binomial":
        a, b = float(gm.loguniform(rng, 0.5, 5)), float(gm.loguniform(rng, 0.5, 5))
        N = int(rng.integers(1, 30))
        k = int(rng.integers(0, N + 1))
        logZ = special.gammaln(N + 1) - special.gammaln(k + 1) - special.gammaln(N - k + 1) + special.betaln(a + k, b + N - k) - special.betaln(a, b)
        p = [D("prior", "torch.distributions.Beta", P("z", [0.5]), concentration1=a, concentration0=b),
             D("lik", "torch.distributions.Binomial", P("data", [float(k)]), total_count=N, probs="z")]
        qa, qb = jitter(a + k), jitter(b + N - k)
        q = D("q", "torch.distributions.Beta", "z", concentration1=P("q.a", [qa]), concentration0=P("q.b", [qb]))
        ref = {"logq": lambda z: stats.beta.logpdf(z, qa, qb).sum(-1), "entropy": stats.beta.entropy(qa, qb)}
        return {"p": p, "q": q, "joint_terms": ["prior", "lik"], "logZ": logZ, "ref": ref, "latent": "z", "qparam": "q.a"}
    if fam == "mvn":
        d = int(rng.integers(2, 4))
        A = rng.normal(0, 1, (d, d))
        S0 = A @ A.T + np.eye(d)
        blocks = bool(case.get("blocks"))
        if blocks:
            # the latent vector is a concatenation of two parameters of unequal length (1, 2) with independent priors:
            # what a full-rank family over several model parameters looks like; q draws the whole vector
            d = 3
            A = rng.normal(0, 1, (2, 2))
            S0 = np.zeros((3, 3))
            S0[0, 0] = float(np.exp(rng.normal(0, 0.4)))
            S0[1:, 1:] = A @ A.T + np.eye(2)
        B = rng.normal(0, 1, (d, d))
        Sig = B @ B.T + np.eye(d)
        m0 = rng.normal(0, 1, d)
        nobs = int(rng.integers(1, 4))
        xs = rng.multivariate_normal(rng.normal(0, 1, d), Sig, nobs)
        P0, Pl = np.linalg.inv(S0), np.linalg.inv(Sig)
        Sn = np.linalg.inv(P0 + nobs * Pl)
        mn = Sn @ (P0 @ m0 + Pl @ xs.sum(0))
        mu = np.zeros(d)
        logZ = sum(stats.multivariate_normal.logpdf(x, mu, Sig) for x in xs) + stats.multivariate_normal.logpdf(mu, m0, S0) - stats.multivariate_normal.logpdf(mu, mn, Sn)
        p = [{"id": "prior", "type": "MultivariateNormal", "x": P("z", [0.0] * d), "parameters": {"loc": P("m0", m0.tolist()), "covariance_matrix": P("S0", S0.tolist())}}]
        prior_terms = ["prior"]
        if blocks:
            p = [{"id": "z", "type": "CatParameter", "parameters": [P("z1", [0.0]), P("z2", [0.0, 0.0])], "dim": -1},
                 {"id": "prior1", "type": "MultivariateNormal", "x": "z1", "parameters": {"loc": P("m01", m0[:1].tolist()), "covariance_matrix": P("S01", S0[:1, :1].tolist())}},
                 {"id": "prior2", "type": "MultivariateNormal", "x": "z2", "parameters": {"loc": P("m02", m0[1:].tolist()), "covariance_matrix": P("S02", S0[1:, 1:].tolist())}}]
            prior_terms = ["prior1", "prior2"]
        for i, x in enumerate(xs):
            if case.get("mvn_class_likelihood"):
                p.append({"id": "lik%d" % i, "type": "MultivariateNormal", "x": P("data%d" % i, x.tolist()), "parameters": {"loc": "z", "covariance_matrix": P("Sig%d" % i, Sig.tolist())}})
            else:
                p.append(D("lik%d" % i, "torch.distributions.MultivariateNormal", P("data%d" % i, x.tolist()), loc="z", covariance_matrix=P("Sig%d" % i, Sig.tolist())))
        qm = mn + (0.2 if off else 0.0)
        qS = Sn * (1.3 if off else 1.0)
        qpar = case.get("q_param", "covariance_matrix")
        L = np.linalg.cholesky(qS)
        if qpar == "scale_tril_transformed":
            # the Cholesky factor through the triangular transform the full-rank family of torchtree-cli uses (row-major lower
            # triangle, logarithms on the diagonal)
            packed = [float(np.log(L[i, j]) if i == j else L[i, j]) for i in range(d) for j in range(i + 1)]
            q = {"id": "q", "type": "MultivariateNormal", "x": "z", "parameters": {"loc": P("q.m", qm.tolist()), "scale_tril": {
                "id": "q.S", "type": "TransformedParameter", "transform": "TrilExpDiagonalTransform", "x": P("q.S.unres", packed)}}}
        else:
            qval = {"covariance_matrix": qS, "precision_matrix": np.linalg.inv(qS), "scale_tril": L}[qpar]
            q = {"id": "q", "type": "MultivariateNormal", "x": "z", "parameters": {"loc": P("q.m", qm.tolist()), qpar: P("q.S", qval.tolist())}}
        ref = {"logq": lambda z: stats.multivariate_normal.logpdf(z, qm, qS), "entropy": stats.multivariate_normal.entropy(qm, qS)}
        return {"p": p, "q": q, "joint_terms": prior_terms + ["lik%d" % i for i in range(nobs)], "logZ": float(logZ), "ref": ref, "latent": "z", "qparam": "q.m", "tril": L}
    raise ValueError(fam)


def run_api_case(case):
    """The gamma-exponential model through an exp transform, built through the Python API with every id left at None (what a
    script does), q a normal on the unconstrained coordinate: every objective must equal its definition evaluated on the very
    samples it drew, with log p = log prior(z) + sum log lik + log |dz/du| computed by scipy."""
    import torch
    from torchtree import Parameter
    from torchtree.core.parameter import TransformedParameter
    from torchtree.distributions.distributions import Distribution
    from torchtree.distributions.joint_distribution import JointDistributionModel
    from torchtree.variational.chi import CUBO
    from torchtree.variational.kl import ELBO, KLpq
    from torchtree.variational.renyi import VR

    V = []
    C = {"posterior_identities": 0, "off_posterior_recomputations": 0, "pairing_checks": 0, "declined_shapes": 0, "api_cases": 1, "families": ["api:gamma-exponential-exp"], "objectives": [case["objective"]]}
    rng = np.random.default_rng(case["seed"])
    T = lambda v: torch.tensor(v, dtype=torch.float64)
    a, b = float(gm.loguniform(rng, 0.5, 4)), float(gm.loguniform(rng, 0.5, 4))
    x = rng.exponential(1.0, int(rng.integers(2, 12)))
    u = Parameter(None, T([0.1]))
    z = TransformedParameter(None, u, torch.distributions.ExpTransform())
    prior = Distribution(None, torch.distributions.Gamma, z, {"concentration": Parameter(None, T([a])), "rate": Parameter(None, T([b]))})
    lik = Distribution(None, torch.distributions.Exponential, Parameter(None, T(x.tolist())), {"rate": z})
    joint = JointDistributionModel(None, [prior, lik, z])
    m, sd = float(rng.normal(0, 0.3)), float(gm.loguniform(rng, 0.2, 0.8))
    q = JointDistributionModel(None, [Distribution(None, torch.distributions.Normal, u, {"loc": Parameter(None, T([m])), "scale": Parameter(None, T([sd]))})])
    S = int(rng.choice([2, 3, 7]))
    o = case["objective"]
    obj = {"ELBO": lambda: ELBO(None, q, joint, torch.Size([S])), "VR": lambda: VR(None, q, joint, torch.Size([S]), 0.5),
           "CUBO": lambda: CUBO(None, q, joint, torch.Size([S]), torch.tensor(2.0)), "KLpq": lambda: KLpq(None, q, joint, torch.Size([S]))}[o]()
    val = float(tt.as_np(obj(), "C14:not-a-tensor:" + o).reshape(-1)[0])
    us = u.tensor.detach().numpy().reshape(S)
    zs = np.exp(us)
    lp = stats.gamma.logpdf(zs, a, scale=1 / b) + np.array([stats.expon.logpdf(x, scale=1 / zz).sum() for zz in zs]) + us
    lq = stats.norm.logpdf(us, m, sd)
    expect = reference_value({"objective": o, "alpha": 0.5, "n": 2.0, "shape": [S]}, lp.reshape(S), lq.reshape(S))
    C["off_posterior_recomputations"] += 1
    if not any(abs(val - e) <= 1e-9 * max(1.0, abs(e)) for e in expect):
        V.append(tt.viol("C14:api-built-model:%s" % o, "%s on a model built through the Python API (ids None, Jacobian of the exp transform listed in the joint) gives %.12g, its definition on the drawn samples gives %s" % (o, val, expect), case=case))
    return {"violations": V, "counters": C, "fingerprint": "api|%s|%d" % (o, case["seed"]), "sample": None}


def objective_json(case):
    o = case["objective"]
    base = {"id": "obj", "variational": "var", "joint": "joint", "samples": case["shape"] if len(case["shape"]) > 1 else case["shape"][0]}
    if o in ("ELBO", "ELBO-multi", "driver"):
        base["type"] = "ELBO"
    elif o == "ELBO-entropy":
        base["type"] = "ELBO"
        base["entropy"] = True
    elif o == "VR":
        base.update(type="VR", alpha=case["alpha"])
    elif o == "CUBO":
        base.update(type="CUBO", n=case["n"])
    elif o == "KLpq":
        base["type"] = "KLpq"
    return base


def reference_value(case, lp, lq):
    """independent implementation of each objective from arrays of log p and log q (shape = sample shape)"""
    o = case["objective"]
    lw = lp - lq
    if o in ("ELBO", "driver"):
        return [float(lw.mean())]
    if o == "ELBO-multi":
        return [float((special.logsumexp(lw, -1) - math.log(lw.shape[-1])).mean())]
    if o == "VR":
        al = case["alpha"]
        if lw.ndim == 1:
            return [float((special.logsumexp((1 - al) * lw) - math.log(lw.size)) / (1 - al))]
        return [float(((special.logsumexp((1 - al) * lw, -1) - math.log(lw.shape[-1])) / (1 - al)).mean())]
    if o == "CUBO":
        nn = case["n"]
        return [float((special.logsumexp(nn * lw) - math.log(lw.size)) / nn)]
    if o == "KLpq":
        w = np.exp(lw - special.logsumexp(lw))
        vals = [float((w * lw).sum())]
        if lw.ndim == 2:
            wr = np.exp(lw - special.logsumexp(lw, -1, keepdims=True))
            vals += [float((wr * lw).sum(-1).mean()), float((wr * lw).sum())]
        return vals
    raise ValueError(o)


def run_case(case):
    import torch

    if case.get("api"):
        return run_api_case(case)
    V = []
    fam, o = case["family"], case["objective"]
    C = {"posterior_identities": 0, "off_posterior_recomputations": 0, "pairing_checks": 0, "declined_shapes": 0, "driver_iterations": 0, "families": [fam], "objectives": [o] if o != "driver" else []}
    b = build(case)
    if b.get("q_is_list"):
        var = {"id": "var", "type": "JointDistributionModel", "distributions": list(b["q"])}
    else:
        var = b["q"] if case["qform"] == "bare" else {"id": "var", "type": "JointDistributionModel", "distributions": [b["q"]]}
    if case["qform"] == "bare" and not b.get("q_is_list"):
        var = dict(b["q"])
        var["id"] = "var"
    final = {}
    if case.get("q_history") and not b.get("q_is_list"):
        # the variational parameters start at neutral values and reach the posterior only later, through the parameter interface
        import copy

        qd = copy.deepcopy(b["q"])
        for key, pv in qd["parameters"].items():
            if isinstance(pv, dict) and pv.get("type") == "TransformedParameter":
                # starts at the identity factor; later the Cholesky factor itself is assigned through the transformed parameter
                final[pv["id"]] = np.asarray(b["tril"], dtype=float)
                pv["x"] = dict(pv["x"], tensor=[0.0] * len(pv["x"]["tensor"]))
            elif isinstance(pv, dict) and "tensor" in pv:
                t = np.asarray(pv["tensor"], dtype=float)
                final[pv["id"]] = t
                start = np.eye(t.shape[0]) if t.ndim == 2 else (np.zeros_like(t) if pv["id"] == "q.m" else np.ones_like(t))
                pv["tensor"] = start.tolist()
        if case["qform"] == "bare":
            var = dict(qd, id="var")
        else:
            var = {"id": "var", "type": "JointDistributionModel", "distributions": [qd]}
    spec = b["p"] + [{"id": "joint", "type": "JointDistributionModel", "distributions": b["joint_terms"]}, var, objective_json(case)]
    objs, dic = tt.load(spec)
    obj, pm, qm = dic["obj"], dic["joint"], dic["var"]
    if final:
        try:
            obj()  # used once where it starts
        except Exception:
            pass  # (what a first request does is judged below, on the posterior)
        for pid, t in final.items():
            dic[pid].tensor = torch.tensor(t, dtype=dic[pid].tensor.dtype)
        C["q_moved_to_posterior_after_use"] = 1
    latent = dic[b["latent"]]
    logZ = float(b["logZ"])
    shape = tuple(case["shape"])
    detail = {"case": case, "logZ": logZ}
    # ---- sample-pairing monitor
    rec = {"p": [], "q": [], "draws": 0}
    orig_p, orig_q = pm._call, qm._call

    def p_call(*a, **k):
        out = orig_p(*a, **k)
        rec["p"].append((latent.tensor.detach().clone(), out.detach().clone()))
        return out

    def q_call(*a, **k):
        out = orig_q(*a, **k)
        rec["q"].append((latent.tensor.detach().clone(), out.detach().clone()))
        return out

    pm._call, qm._call = p_call, q_call
    for name in ("rsample", "sample"):
        f = getattr(qm, name)

        def wrapped(*a, _f=f, **k):
            rec["draws"] += 1
            return _f(*a, **k)

        setattr(qm, name, wrapped)
    qshape = "bare" if case["qform"] == "bare" else "joint"
    tag = "%s:%s:%s" % (o, "2d" if len(shape) == 2 else "1d", qshape)
    if o == "driver":
        return run_driver(case, dic, b, rec, V, C, detail, logZ)
    prev_sample = None
    shape0 = shape
    for draw in range(5):
        rec["p"].clear(), rec["q"].clear()
        rec["draws"] = 0
        if draw == 2 and case["seed"] % 2 == 0:
            # the models are moved between two requests (here to the dtype they already have: `.to()` as a set-up script calls it
            # unconditionally); the next request is as exact as the ones before
            for mdl in (pm, qm):
                mdl.to(torch.float64)
            C["moved_between_requests"] = 1
        dic[b["qparam"]].fire_parameter_changed()  # what the drivers do before asking for the objective
        override = bool(case.get("override_samples")) and draw >= 2 and o not in ("driver",)
        shape = tuple(shape0[:-1]) + (shape0[-1] + 2 + draw,) if override else shape0
        if override:
            C["requests_with_overridden_sample_count"] = C.get("requests_with_overridden_sample_count", 0) + 1
        try:
            val = obj(samples=torch.Size(shape)) if override else obj()
        except Exception as e:
            from ..worker import _blame
            import traceback

            if _blame(e) is None and "torchtree" not in traceback.format_exc():
                raise
            if (len(shape) == 2 and o in ("KLpq", "VR", "CUBO")) or (case["qform"] == "bare" and len(shape) == 2):
                C["declined_shapes"] += 1  # an undocumented shape combination that fails with an error: accepted
                return {"violations": V, "counters": C, "fingerprint": None, "sample": None}
            if "hyper" in b.get("joint_terms", []) and isinstance(e, RuntimeError) and "same number of dimensions" in str(e):
                V.append(tt.viol("C14:joint-with-a-sample-independent-term:raises", "a joint with a factor that involves no sampled variable (a hyper-prior on a fixed quantity) cannot be evaluated once the latent carries a sample dimension: %s: %s" % (type(e).__name__, str(e)[:120]), **detail))
            elif case.get("mvn_class_likelihood"):
                V.append(tt.viol("C14:mvn-class-as-likelihood-term:raises", "a MultivariateNormal model used as likelihood term (data as x, sampled location) cannot be evaluated inside the joint: %s: %s" % (type(e).__name__, str(e)[:120]), **detail))
            else:
                V.append(tt.viol("C14:raises:%s:%s" % (tag, type(e).__name__), "%s on %s with samples %s raises %s: %s" % (o, fam, list(shape), type(e).__name__, str(e)[:150]), **detail))
            return {"violations": V, "counters": C, "fingerprint": None, "sample": None}
        val = float(tt.as_np(val, "C14:not-a-tensor:" + o).reshape(-1)[0]) if np.size(tt.as_np(val, "C14:not-a-tensor:" + o)) == 1 else None
        if val is None:
            bare = case["qform"] == "bare"
            V.append(tt.viol(("C14:bare-distribution-as-q:log-q-has-extra-dimension:%s" % o) if bare else ("C14:not-a-scalar:" + tag), "%s returned a non-scalar" % o, **detail))
            break
        # pairing: one fresh draw, p and q evaluated at that very sample
        C["pairing_checks"] += 1
        z_p = rec["p"][-1][0] if rec["p"] else None
        if rec["draws"] != 1 or z_p is None or tuple(z_p.shape[: len(shape)]) != shape:
            V.append(tt.viol("C14:pairing:draws:" + tag, "evaluation request %d made %d draws; p saw a sample of shape %s (expected leading %s)" % (draw, rec["draws"], None if z_p is None else tuple(z_p.shape), shape), **detail))
            break
        if o != "ELBO-entropy":
            z_q = rec["q"][-1][0] if rec["q"] else None
            if z_q is None or not torch.equal(z_p, z_q):
                V.append(tt.viol("C14:pairing:different-samples:" + tag, "p and q were evaluated at different samples in evaluation request %d" % draw, **detail))
                break
        if prev_sample is not None and z_p.numel() > 0 and torch.equal(prev_sample, z_p):
            V.append(tt.viol("C14:pairing:stale-sample:" + tag, "evaluation request %d re-used the previous samples" % draw, **detail))
            break
        prev_sample = z_p
        z = z_p.numpy()
        lp = rec["p"][-1][1].numpy()
        lp = lp.reshape(shape) if lp.size == int(np.prod(shape)) else lp
        lq_ref = np.asarray(b["ref"]["logq"](z)).reshape(shape) if b["ref"]["logq"] is not None else np.zeros(shape)  # (None: judged at the posterior only)
        if o == "ELBO-entropy":
            # value = mean_s log p(x, z_s) + H(q)
            expect = [float(lp.mean() + b["ref"]["entropy"])]
        else:
            expect = reference_value(case, lp, lq_ref)
        bare_broadcast = bool(rec["q"]) and rec["q"][-1][1].dim() == rec["p"][-1][1].dim() + 1 and rec["q"][-1][1].shape[-1] == 1
        if bare_broadcast and o not in ("ELBO", "ELBO-entropy"):
            # mechanism: a bare Distribution as q returns [...,1] while the joint p returns [...]: the difference
            # broadcasts to a matrix of all pairs of samples (the plain ELBO survives: a mean over all pairs)
            tag2 = "C14:bare-distribution-as-q:log-q-has-extra-dimension:%s" % o
        else:
            tag2 = None
        if tag2 is None and o == "KLpq" and len(shape) == 2:
            tag2 = "C14:KLpq:two-dimensional-sample-shape:wrong-value"
        if not case["off"]:
            # exact posterior: log p - log q = log Z for every sample, hence every objective equals log Z
            C["posterior_identities"] += 1
            if o == "ELBO-entropy":
                ident = val - float(lq_ref.mean()) - float(b["ref"]["entropy"])
                # per-draw identity: value - mean log q(z_s) - H(q) ... = log Z - (mean log q + H): rewritten as value - H = mean log p
                ok = abs(val - expect[0]) <= 1e-9 * max(1.0, abs(expect[0]))
                shown = expect[0]
            else:
                ok = abs(val - logZ) <= 1e-9 * max(1.0, abs(logZ))
                shown = logZ
            if not ok:
                V.append(tt.viol(tag2 or ("C14:value-at-posterior:" + tag), "%s on %s with q = posterior, samples %s (%s q): %.12g, expected %.12g (draw %d)" % (o, fam, list(shape), qshape, val, shown, draw), draw=draw, **detail))
                break
        else:
            C["off_posterior_recomputations"] += 1
            if not any(abs(val - e) <= 1e-9 * max(1.0, abs(e)) for e in expect):
                V.append(tt.viol(tag2 or ("C14:value-off-posterior:" + tag), "%s on %s, samples %s (%s q): %.12g, recomputed from the recorded log densities %s (draw %d)" % (o, fam, list(shape), qshape, val, ["%.12g" % e for e in expect], draw), draw=draw, **detail))
                break
    fp = "%s|%s|%s|%s|%s|%d" % (fam, o, shape, qshape, case["off"], case["seed"]) if int(np.prod(shape)) >= 2 else None
    return {"violations": V, "counters": C, "fingerprint": fp, "sample": {"family": fam, "objective": o, "samples": list(shape), "q": qshape, "log_marginal": logZ}}


def run_driver(case, dic, b, rec, V, C, detail, logZ):
    """the real call site: Optimizer._run for a few iterations with a zero learning rate (q stays at the posterior);
    every objective value it obtains must be log Z and each iteration must draw fresh, paired samples."""
    import io
    import contextlib

    obj = dic["obj"]
    values = []
    orig = obj._call

    def call(*a, **k):
        out = orig(*a, **k)
        values.append(float(out.detach()))
        return out

    obj._call = call
    names = [i for i in dic if i.startswith("q.") and type(dic[i]).__name__ == "Parameter"]  # (the variational parameters, not a distribution called q.*)
    spec = {"id": "opt", "type": "Optimizer", "algorithm": "torch.optim.SGD", "options": {"lr": 0.0}, "maximize": True, "loss": "obj", "parameters": names, "iterations": 4, "checkpoint": False}
    tt.load(spec, dic)
    dic["opt"].checkpoint = None
    with contextlib.redirect_stdout(io.StringIO()):
        dic["opt"].run()
    C["driver_iterations"] += len(values)
    if len(values) < 4:
        V.append(tt.viol("C14:driver:too-few-evaluations", "Optimizer ran 4 iterations but the objective was recomputed %d times" % len(values), **detail))
    for i, v in enumerate(values):
        C["posterior_identities"] += 1
        if abs(v - logZ) > 1e-9 * max(1.0, abs(logZ)):
            V.append(tt.viol("C14:driver:value-at-posterior", "objective obtained by Optimizer iteration %d is %.12g, log Z = %.12g" % (i, v, logZ), **detail))
            break
    zs = [z for z, _ in rec["p"]]
    C["pairing_checks"] += len(zs)
    import torch

    for a, c in zip(zs[:-1], zs[1:]):
        if a.numel() > 0 and torch.equal(a, c):
            V.append(tt.viol("C14:driver:stale-sample", "two consecutive Optimizer iterations evaluated the model at the same samples", **detail))
            break
    return {"violations": V, "counters": C, "fingerprint": "driver|%s|%d" % (case["family"], case["seed"]), "sample": None}
