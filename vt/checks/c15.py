"""C15 - every MCMC transition is a Metropolis-Hastings step on the stated target.

Trace checker.  Real MCMC runs (MCMC.run, driven from JSON) are executed with
  * the guarded hook in MCMC.run (TORCHTREE_VERIF=1) appending one record per iteration (carried density, proposed
    density, Hastings ratio, log alpha, acceptance probability, decision),
  * harness wrappers on every operator's step / accept / reject / tune (deep snapshots of *all* leaf parameters before
    the proposal, after it, after the decision; tuning values), on the uniform draws made by mcmc.py, on
    Hamiltonian.sample_momentum and the integrator.
The joined transition records are checked offline against a *shadow target* (second object graph from the same JSON,
fed the recorded parameter values and evaluated from scratch; periodically rebuilt from JSON), independent Hastings
ratios per operator type, the exact accept rule, bit-identical rejection, logger rows, and the tuning direction."""
from __future__ import annotations

import copy
import csv
import io
import math
import os
import tempfile
import contextlib

import numpy as np
from scipy import stats

from .. import tt
from ..gen import models as gm
from ..gen import zoo
from ..ref import kingman as kg

PROPERTY = "C15"
LEVEL = "exploration"
RULE = ("cases = target {toy joint with real / positive / simplex blocks, time-tree posterior of the zoo, skygrid + GMRF} x operator set {scaler, sliding "
        "window, Dirichlet, GMRF block update, HMC; alone or mixed with random weights} x adaptation on/off x 150..400 iterations x seed; every iteration "
        "yields one transition record; non-trivial = transition whose proposal changed the state; distinct by (target, operator, accepted, seed, iteration)")
ASSUMPTIONS = [
    "shadow target: same JSON, separate registry, parameter values copied in and evaluated from scratch; every 20th transition the shadow is rebuilt from JSON",
    "iterations with |u - alpha| < 1e-12 are not judged; the uniform draw is the torch.rand call made from mcmc.py in that iteration",
    "GMRF block update: the Newton-Raphson/Gaussian proposal is replicated in numpy from the operator's documented stopping rule (tolerance 1e-6)",
    "statistical correctness of long chains is deliberately not used as a verdict (implied by the per-transition identities)",
]
BUDGET = {"quick": 85, "thorough": 900}
ROUNDS = {"thorough": 3}
FLOORS = {"transitions": {"quick": 4000, "thorough": 40000}, "accepted": {"quick": 800, "thorough": 8000}, "rejected": {"quick": 800, "thorough": 8000},
          "hastings_checked": {"quick": 3000, "thorough": 30000}, "logger_rows": {"quick": 2000, "thorough": 20000}, "tune_calls": {"quick": 1500, "thorough": 15000},
          "operator_types": 5, "momentum_law_cases": 6, "hmc_retried_trajectories": {"quick": 4, "thorough": 40}, "reference_trajectories": {"quick": 1000, "thorough": 10000}, "nonfinite_proposals": {"quick": 40, "thorough": 400}, "tune_calls_adaptive_step_size": {"quick": 150, "thorough": 1500}, "adaptive_step_size_modes": 2, "resumed_runs": 2, "hook_records": {"quick": 4000, "thorough": 40000},
          "accepted:ScalerOperator": 30, "rejected:ScalerOperator": 30, "accepted:SlidingWindowOperator": 30, "rejected:SlidingWindowOperator": 30,
          "accepted:DirichletOperator": 30, "rejected:DirichletOperator": 30, "accepted:HMCOperator": 30, "rejected:HMCOperator": 30,
          "accepted:GMRFPiecewiseCoalescentBlockUpdatingOperator": 30, "rejected:GMRFPiecewiseCoalescentBlockUpdatingOperator": 30}

F64 = "torch.float64"


def P(i, v):
    return gm.param(i, v, dtype=F64)


def cases(tier, seed):
    rng = np.random.default_rng([seed, 15])
    n = {"quick": 48, "thorough": 480}[tier]
    out = []
    targets = ["toy", "toy", "tree", "skygrid", "toy", "nanregion"]
    for i in range(n):
        t = targets[i % len(targets)]
        out.append({"target": t, "seed": int(rng.integers(2**31)), "iterations": int(rng.integers(150, 401)) if t != "tree" else int(rng.integers(60, 140)),
                    "adapt": bool(rng.random() < 0.6), "single": bool(rng.random() < 0.3)})
        if t == "toy":
            ad = [None, "adaptive-prob", "adaptive-rate", "dual", "adaptive-rate", None, "dual+mass", "adaptive-prob"][(i // 2) % 8]
            if ad:
                out[-1]["adaptor"] = ad
                out[-1]["adapt"] = True
                out[-1]["single"] = False
            elif (i // 2) % 8 == 5:
                out[-1]["divergence_threshold"] = 0.5
                out[-1]["single"] = False
            if ad in ("dual+mass", "adaptive-rate"):
                out[-1]["resume"] = True
    # the law of the momentum an HMC move starts from (the forward proposal density behind the Hastings term K0 - K1)
    for i in range(6 if tier == "quick" else 40):
        out.append({"target": "momentum-law", "seed": int(rng.integers(2**31)), "dim": int(2 + i % 4), "dense": bool(i % 3 != 2), "draws": 6000})
    return out


# ---------------------------------------------------------------- targets
def op(id_, type_, params, rng, adapt, **kw):
    d = {"id": id_, "type": type_, "parameters": params, "weight": float(rng.uniform(0.5, 3.0)), "disable_adaptation": not adapt}
    d.update(kw)
    return d


def hmc_op(id_, joint, params, dim, rng, adapt, dense=False, eps=0.1, steps=5):
    if dense:
        A = rng.normal(0, 1, (dim, dim))
        mm = (A @ A.T / dim + 0.5 * np.eye(dim)).tolist()
    else:
        mm = np.exp(rng.normal(0, 0.3, dim)).tolist()
    return {"id": id_, "type": "HMCOperator", "joint": joint, "parameters": params, "weight": float(rng.uniform(0.5, 3.0)), "disable_adaptation": not adapt,
            "integrator": {"id": id_ + ".integrator", "type": "LeapfrogIntegrator", "steps": steps, "step_size": eps},
            "mass_matrix": P(id_ + ".mass", mm), "target_acceptance_probability": 0.7}


def target_toy(case, rng):
    spec = [{"id": "dx", "type": "Distribution", "distribution": "torch.distributions.Normal", "x": P("x", rng.normal(0.5, 1, 3).tolist()), "parameters": {"loc": 0.5, "scale": 1.3}},
            {"id": "dy", "type": "Distribution", "distribution": "torch.distributions.Gamma", "x": P("y", np.exp(rng.normal(0, 0.3, 2)).tolist()), "parameters": {"concentration": 2.0, "rate": 1.5}},
            {"id": "ds", "type": "Distribution", "distribution": "torch.distributions.Dirichlet", "x": P("s", rng.dirichlet([3, 3, 3]).tolist()), "parameters": {"concentration": [2.0, 3.0, 4.0]}},
            {"id": "dz", "type": "MultivariateNormal", "x": P("z", rng.normal(0, 1, 2).tolist()), "parameters": {"loc": {"id": "z.loc", "type": "ViewParameter", "parameter": "x", "indices": "0:2"}, "covariance_matrix": P("z.cov", [[1.0, 0.6], [0.6, 1.5]])}},
            # parameters in other numerical regimes: a rate of the order of 1e-9, a size of the order of 1e5 known to +-0.5, a positive
            # quantity known to three digits (a scaler that starts far too bold for it)
            {"id": "dr", "type": "Distribution", "distribution": "torch.distributions.Gamma", "x": P("r", [2.1e-9]), "parameters": {"concentration": 2.0, "rate": 1.0e9}},
            {"id": "dbig", "type": "Distribution", "distribution": "torch.distributions.Normal", "x": P("big", [2.0e5]), "parameters": {"loc": 2.0e5, "scale": 0.5}},
            {"id": "dw", "type": "Distribution", "distribution": "torch.distributions.Gamma", "x": P("w", [1.0]), "parameters": {"concentration": 1.0e6, "rate": 1.0e6}},
            {"id": "ds2", "type": "Distribution", "distribution": "torch.distributions.Dirichlet", "x": P("s2", rng.dirichlet([5, 2, 4]).tolist()), "parameters": {"concentration": [1.5, 2.5, 2.0]}},
            {"id": "joint", "type": "JointDistributionModel", "distributions": ["dx", "dy", "ds", "ds2", "dz", "dr", "dbig", "dw"]}]
    extra_ops = [op("op.scale.r", "ScalerOperator", ["r"], rng, case["adapt"], scaler=float(rng.uniform(0.3, 0.9))),
                 op("op.slide.big", "SlidingWindowOperator", ["big"], rng, case["adapt"], width=1.0),
                 op("op.scale.w", "ScalerOperator", ["w"], rng, True, scaler=0.9),
                 # a scaler on a real-valued parameter (entries of either sign), and HMC directly on a positive parameter without a
                 # transform: trajectories that cross zero fail and are tried again with another momentum
                 op("op.scale.x", "ScalerOperator", ["x"], rng, case["adapt"], scaler=float(rng.uniform(0.4, 0.9))),
                 # a Dirichlet operator acting on a simplex through a view of its parameter
                 op("op.dirichlet.view", "DirichletOperator", [{"id": "s2.view", "type": "ViewParameter", "parameter": "s2", "indices": ":"}], rng, case["adapt"], scaler=float(gm.loguniform(rng, 5, 200))),
                 # one Dirichlet operator over two simplexes of the same length
                 op("op.dirichlet.two", "DirichletOperator", ["s", "s2"], rng, case["adapt"], scaler=float(gm.loguniform(rng, 5, 200))),
                 hmc_op("op.hmc.y", "joint", ["y"], 2, rng, False, dense=False, eps=float(rng.uniform(0.3, 0.7)), steps=int(rng.integers(2, 6)))]
    ops = [op("op.slide", "SlidingWindowOperator", ["x"], rng, case["adapt"], width=float(gm.loguniform(rng, 0.2, 3))),
           op("op.scale", "ScalerOperator", ["y"], rng, case["adapt"], scaler=float(rng.uniform(0.3, 0.9))),
           op("op.dirichlet", "DirichletOperator", ["s"], rng, case["adapt"], scaler=float(gm.loguniform(rng, 5, 200))),
           hmc_op("op.hmc", "joint", ["z"], 2, rng, case["adapt"], dense=bool(rng.random() < 0.5), eps=float(gm.loguniform(rng, 0.3, 1.8)), steps=int(rng.integers(1, 8))),
           op("op.slide2", "SlidingWindowOperator", ["x", "z"], rng, case["adapt"], width=float(gm.loguniform(rng, 0.2, 3)))]
    if case.get("divergence_threshold"):
        ops[3]["divergence_threshold"] = case["divergence_threshold"]  # documented HMCOperator option: report large energy errors
        ops[3]["integrator"]["step_size"] = float(rng.uniform(1.2, 2.0))
        ops[3]["weight"] = 6.0
    if case["adapt"] and case.get("adaptor"):
        kind = case["adaptor"]
        integ = "op.hmc.integrator"
        ops[3]["adaptors"] = {"adaptive-prob": [{"id": "ad.step", "type": "AdaptiveStepSize", "integrator": integ, "target_acceptance_probability": 0.7, "use_acceptance_rate": False}],
                              "adaptive-rate": [{"id": "ad.step", "type": "AdaptiveStepSize", "integrator": integ, "target_acceptance_probability": 0.7, "use_acceptance_rate": True}],
                              "dual": [{"id": "ad.dual", "type": "DualAveragingStepSize", "integrator": integ, "target_acceptance_probability": 0.7}],
                              "dual+mass": [{"id": "ad.dual", "type": "DualAveragingStepSize", "integrator": integ, "target_acceptance_probability": 0.7},
                                            {"id": "ad.mass", "type": "MassMatrixAdaptor", "parameters": ["z"], "mass_matrix": "op.hmc.mass", "update_frequency": 5}]}[kind]
        ops[3]["weight"] = 6.0
    logged = ["x", "y", "s", "s2", "z", "r", "big", "w"]
    if not case.get("adaptor") and not case.get("divergence_threshold"):
        ops = ops + extra_ops
    return spec, ops, logged


def target_nanregion(case, rng):
    """a target with a region where the density is NaN (GMRF precision below zero) that a wide sliding window reaches:
    such proposals have to be rejected, and the density carried on must stay that of the current state"""
    G = int(rng.integers(3, 7))
    spec = [{"id": "gmrf", "type": "GMRF", "x": P("field", rng.normal(0.5, 2.0, G).tolist()), "precision": P("precision", [float(gm.loguniform(rng, 0.2, 1.0))])},
            {"id": "prior.field", "type": "Distribution", "distribution": "torch.distributions.Normal", "x": "field", "parameters": {"loc": 0.0, "scale": 3.0}},
            {"id": "joint", "type": "JointDistributionModel", "distributions": ["gmrf", "prior.field"]}]
    ops = [op("op.slide.precision", "SlidingWindowOperator", ["precision"], rng, False, width=float(rng.uniform(2.0, 5.0))),
           op("op.slide.field", "SlidingWindowOperator", ["field"], rng, case["adapt"], width=float(gm.loguniform(rng, 0.2, 2))),
           op("op.slide.both", "SlidingWindowOperator", ["precision", "field"], rng, False, width=float(rng.uniform(1.0, 3.0)))]
    return spec, ops, ["field", "precision"]


def target_tree(case, rng):
    g = zoo.build("time-ratio", case["seed"])
    spec = g["spec"]
    ops = [op("op.scale.theta", "ScalerOperator", ["coal.theta"], rng, case["adapt"], scaler=float(rng.uniform(0.4, 0.9))),
           op("op.scale.rate", "ScalerOperator", ["clock.rate"], rng, case["adapt"], scaler=float(rng.uniform(0.5, 0.9))),
           op("op.slide.ratios", "SlidingWindowOperator", ["tree.ratios.unres"], rng, case["adapt"], width=float(gm.loguniform(rng, 0.2, 2))),
           op("op.dirichlet.freqs", "DirichletOperator", ["gtr.freqs"], rng, case["adapt"], scaler=float(gm.loguniform(rng, 50, 500))),
           hmc_op("op.hmc", "joint", ["tree.ratios.unres", "tree.root_height.unres"], 4, rng, case["adapt"], eps=float(gm.loguniform(rng, 0.01, 0.08)), steps=int(rng.integers(1, 5)))]
    logged = ["coal.theta", "clock.rate.unres", "tree.ratios.unres", "tree.root_height.unres", "gtr.freqs"]
    return spec, ops, logged


def target_skygrid(case, rng):
    n = 6
    s = [0.0] * n
    c = kg.simulate(rng, s, 2.0)
    from . import c08

    tree_spec, ih = c08.tree_entry(None, {"sampling": s, "coalescent": c}, None, rng)
    G = int(rng.integers(3, 7))
    cutoff = max(c) * float(rng.uniform(0.6, 1.1))
    spec = tree_spec + [
        {"id": "theta", "type": "TransformedParameter", "transform": "torch.distributions.ExpTransform", "x": P("field", rng.normal(0.5, 0.4, G).tolist())},
        {"id": "skygrid", "type": "PiecewiseConstantCoalescentGridModel", "tree_model": "tree", "theta": "theta", "cutoff": cutoff},
        {"id": "gmrf", "type": "GMRF", "x": "field", "precision": P("precision", [float(gm.loguniform(rng, 0.5, 5))])},
        {"id": "prior.precision", "type": "Distribution", "distribution": "torch.distributions.Gamma", "x": "precision", "parameters": {"concentration": 1.5, "rate": 1.0}},
        {"id": "joint", "type": "JointDistributionModel", "distributions": ["skygrid", "gmrf", "prior.precision"]}]
    viewed = case["seed"] % 4 == 1
    if viewed:
        # the field is a view of a longer parameter (its first G entries)
        fld = spec[len(tree_spec)]["x"]
        spec[len(tree_spec)]["x"] = "field.view"
        spec.insert(len(tree_spec), {"id": "field.view", "type": "ViewParameter", "parameter": P("field", list(fld["tensor"]) + [0.3, -0.2]), "indices": "0:%d" % G})
        for e_ in spec:
            if isinstance(e_, dict) and e_.get("id") == "gmrf":
                e_["x"] = "field.view"
    unres = case["seed"] % 2 == 0
    if unres:
        # the chain torchtree-cli writes: the precision is exp(u) of a free parameter u and the target carries the Jacobian of that transform
        # (the transformed parameter itself is a term of the joint): the free parameters of the chain are (field, u)
        tau = spec[-3]["precision"]["tensor"][0]
        spec[-3]["precision"] = {"id": "precision", "type": "TransformedParameter", "transform": "torch.distributions.ExpTransform", "x": P("precision.unres", [float(np.log(tau))])}
        spec[-1]["distributions"].append("precision")
    ops = [{"id": "op.block", "type": "GMRFPiecewiseCoalescentBlockUpdatingOperator", "coalescent": "skygrid", "gmrf": "gmrf", "weight": 3.0, "scaler": float(rng.uniform(1.2, 3.0)) if case["seed"] % 3 else 1.0,  # 1.0: documented value (the precision is then not proposed until tuning moves the scaler)
            "disable_adaptation": not case["adapt"]},
           (op("op.slide.precision", "SlidingWindowOperator", ["precision.unres"], rng, case["adapt"], width=float(rng.uniform(0.3, 1.5))) if unres else
            op("op.scale.precision", "ScalerOperator", ["precision"], rng, case["adapt"], scaler=float(rng.uniform(0.4, 0.9)))),
           op("op.slide.field", "SlidingWindowOperator", ["field"], rng, case["adapt"], width=float(gm.loguniform(rng, 0.2, 2)))]
    meta = {"sampling": s, "coalescent": c, "cutoff": cutoff, "G": G, "viewed": viewed}
    return spec, ops, ["field", "precision.unres" if unres else "precision"], meta


# ---------------------------------------------------------------- helpers
def leaf_snapshot(dic):
    from torchtree import Parameter

    # the state of the chain: parameters of the target; parameters owned by operators (HMC mass matrices, which a mass-matrix adaptor
    # rewrites between iterations) are tuning state, not chain state
    return {i: o.tensor.detach().clone() for i, o in dic.items() if type(o) is Parameter and not str(i).startswith("op.")}


def set_leaves(dic, snap):
    for i, t in snap.items():
        if i in dic:  # parameters owned by operators (mass matrices) are not part of the target
            dic[i].tensor = t.clone()


def boldness(o):
    n = type(o).__name__
    if n == "ScalerOperator":
        return abs(1.0 / o._scaler - o._scaler)  # the factor is drawn between the scaler and its reciprocal, whichever is larger
    if n == "SlidingWindowOperator":
        return o._width
    if n == "DirichletOperator":
        return 1.0 / o._scaler
    if n == "HMCOperator":
        return o._integrator.step_size
    if n == "GMRFPiecewiseCoalescentBlockUpdatingOperator":
        return o._scaler
    return None


def skygrid_statistics(meta):
    """per-piece sum of C(k,2)*dt and coalescent counts, from the definition (numpy)"""
    s, c, cutoff, G = meta["sampling"], sorted(meta["coalescent"]), meta["cutoff"], meta["G"]
    grid = np.linspace(0, cutoff, G)[1:]
    bounds = [0.0] + list(grid) + [np.inf]
    ev = sorted([(t, 0) for t in s] + [(t, 1) for t in c])
    ss = np.zeros(G)
    cnt = np.zeros(G)
    k = 0
    prev = 0.0
    for t, kind in ev:
        if t > prev and k >= 2:
            for j in range(G):
                lo, hi = max(prev, bounds[j]), min(t, bounds[j + 1])
                if hi > lo:
                    ss[j] += k * (k - 1) / 2.0 * (hi - lo)
        if kind == 0:
            k += 1
        else:
            j = int(np.searchsorted(grid, t, side="right"))
            cnt[j] += 1
            k -= 1
        prev = t
    return ss, cnt


def block_update_log_hastings(gamma, gamma_new, tau, tau_new, ss, cnt, stop=0.1, max_iter=200):
    """independent replication of the block-update proposal densities (Knorr-Held & Rue): forward from
    (gamma, tau_new), backward from (gamma_new, tau)."""
    n = len(gamma)

    def Q(t):
        M = np.zeros((n, n))
        for i in range(n - 1):
            M[i, i] += t
            M[i + 1, i + 1] += t
            M[i, i + 1] -= t
            M[i + 1, i] -= t
        return M

    def newton(g, Qm):
        g = g.copy()
        grad = np.full(n, np.inf)
        it = 0
        while np.linalg.norm(grad) > stop and it < max_iter:
            jac = Qm + np.diag(np.exp(-g) * ss)
            grad = -(Qm @ g) - cnt + np.exp(-g) * ss
            g = g + np.linalg.solve(jac, grad)
            it += 1
        return g

    def gaussian(start, Qm, at):
        mode = newton(start, Qm)
        d = ss * np.exp(-mode)
        QW = Qm + np.diag(d)
        b = d * (mode + 1) - cnt
        mu = np.linalg.solve(QW, b)
        sign, logdet = np.linalg.slogdet(QW)
        r = at - mu
        return 0.5 * logdet - 0.5 * float(r @ QW @ r)

    lf = gaussian(gamma, Q(tau_new), gamma_new)
    lb = gaussian(gamma_new, Q(tau), gamma)
    return lb - lf


class RandProxy:
    """stands in for the `torch` module inside mcmc.py only: records the uniform draws made there"""

    def __init__(self, real, sink):
        self._real = real
        self._sink = sink

    def rand(self, *a, **k):
        u = self._real.rand(*a, **k)
        self._sink.append(float(u.reshape(-1)[0]))
        return u

    def __getattr__(self, name):
        return getattr(self._real, name)


def run_momentum_law(case):
    """K0 - K1 is the log ratio of reverse to forward proposal densities only if the momentum is drawn from N(0, M) for the very M whose
    inverse the kinetic energy uses: second moments of many draws of the operator's own sampler against M (6 standard errors)."""
    import torch

    V = []
    rng = np.random.default_rng(case["seed"])
    d, n = case["dim"], case["draws"]
    spec = [{"id": "dz", "type": "Distribution", "distribution": "torch.distributions.Normal", "x": P("z", rng.normal(0, 1, d).tolist()), "parameters": {"loc": 0.0, "scale": 1.0}},
            {"id": "joint", "type": "JointDistributionModel", "distributions": ["dz"]},
            hmc_op("op.hmc", "joint", ["z"], d, rng, False, dense=case["dense"])]
    objs, dic = tt.load(spec)
    o = dic["op.hmc"]
    M = o.mass_matrix.detach().clone()
    torch.manual_seed(case["seed"] % (2**31))
    draws = torch.stack([o._hamiltonian.sample_momentum(o.mass_matrix).detach() for _ in range(n)])
    Mfull = torch.diag(M) if M.dim() == 1 else M
    S = (draws.T @ draws / n).numpy()
    mean = draws.mean(0).numpy()
    Mn = Mfull.numpy()
    C = {"momentum_law_draws": n, "momentum_law_cases": 1, "transitions": 0, "accepted": 0, "rejected": 0, "hastings_checked": 0, "logger_rows": 0, "tune_calls": 0, "hook_records": 0,
         "operator_types": []}
    worst = 0.0
    for i in range(d):
        if abs(mean[i]) > 6 * math.sqrt(Mn[i, i] / n):
            V.append(tt.viol("C15:hmc-momentum-law:mean", "HMC momentum: mean of %d draws of component %d is %.4g (standard error %.3g)" % (n, i, mean[i], math.sqrt(Mn[i, i] / n)), case=case))
            break
        for j in range(d):
            se = math.sqrt((Mn[i, i] * Mn[j, j] + Mn[i, j] ** 2) / n)
            worst = max(worst, abs(S[i, j] - Mn[i, j]) / se)
    if not V and worst > 6:
        V.append(tt.viol("C15:hmc-momentum-law:covariance", "HMC momentum (%s mass matrix, dimension %d): the second moments of %d draws differ from the mass matrix by %.1f standard errors: %s vs %s; the kinetic energy in the Hastings term uses the inverse of the mass matrix" % (
            "dense" if case["dense"] else "diagonal", d, n, worst, np.round(S, 3).tolist(), np.round(Mn, 3).tolist()), case=case))
    return {"violations": V, "counters": C, "fingerprint": "momentum|%d|%s|%d" % (d, case["dense"], case["seed"]), "sample": None}


def run_case(case):
    import torch
    import torchtree.inference.mcmc.mcmc as mcmc_mod

    if case["target"] == "momentum-law":
        return run_momentum_law(case)
    V = []
    rng = np.random.default_rng(case["seed"])
    t = case["target"]
    meta = None
    if t == "toy":
        spec, ops, logged = target_toy(case, rng)
    elif t == "tree":
        spec, ops, logged = target_tree(case, rng)
    elif t == "nanregion":
        spec, ops, logged = target_nanregion(case, rng)
    else:
        spec, ops, logged, meta = target_skygrid(case, rng)
    if case["single"]:
        ops = [ops[int(rng.integers(len(ops)))]]
    _DECLARED.clear()
    _DECLARED.update({o_["id"]: o_["target_acceptance_probability"] for o_ in ops if "target_acceptance_probability" in o_})
    C = {"transitions": 0, "accepted": 0, "rejected": 0, "hastings_checked": 0, "logger_rows": 0, "tune_calls": 0, "hook_records": 0, "shadow_rebuilds": 0,
         "decisions_not_judged_tie": 0, "infinite_hastings": 0, "operator_types": [], "state_changed": 0}
    tmp = tempfile.mkdtemp(prefix="vt-c15-", dir="/dev/shm" if os.path.isdir("/dev/shm") else None)
    logfile = os.path.join(tmp, "samples.csv")
    mcmc = {"id": "mcmc", "type": "MCMC", "joint": "joint", "operators": ops, "iterations": case["iterations"], "checkpoint": os.path.join(tmp, "checkpoint.json"),
            "checkpoint_frequency": 10**9, "every": 0, "loggers": [{"id": "logger", "type": "Logger", "parameters": logged + ["joint"], "file_name": logfile, "every": 1}]}
    full = spec + [mcmc]
    try:
        objs, dic = tt.load(full)
        _, shadow = tt.load(spec)
        records = trace_run(case, dic, mcmc_mod, torch)
        check_records(case, dic, shadow, spec, records, meta, V, C, torch)
        check_log(case, logfile, shadow, logged, records, V, C, torch)
        if case.get("resume") and not V:
            # the run is resumed the way the entry point does it: a new object graph from the specification, the parameter values and the
            # algorithm's state_dict (through JSON) put back, and on it goes - every resumed transition is judged like the others
            import json

            from torchtree.core.parameter_encoder import ParameterEncoder

            from torchtree.core.utils import TensorDecoder

            state = json.loads(json.dumps(dic["mcmc"].state_dict(), cls=ParameterEncoder), cls=TensorDecoder)  # as main() reads a checkpoint
            carry = {}
            for r in records:
                if r.get("tune") is not None:
                    c0 = carry.get(r["hook"]["operator"], (0, 0))
                    carry[r["hook"]["operator"]] = (c0[0] + 1, c0[1] + int(bool(r["hook"]["accepted"])))
            snap = leaf_snapshot(dic)
            full2 = spec + [dict(mcmc, iterations=case["iterations"] + 60, loggers=[])]
            _, dic2 = tt.load(full2)
            set_leaves(dic2, snap)
            dic2["mcmc"].load_state_dict(state)
            records2 = trace_run(case, dic2, mcmc_mod, torch, carry)
            C["resumed_runs"] = C.get("resumed_runs", 0) + 1
            check_records(case, dic2, shadow, spec, records2, meta, V, C, torch)
            records = records + records2
    finally:
        import shutil

        shutil.rmtree(tmp, ignore_errors=True)
    fps = ["%s|%s|%s|%d|%d" % (t, r["operator_type"], r["hook"]["accepted"], case["seed"], r["hook"]["epoch"]) for r in records if r.get("changed")]
    sample = None
    if records:
        r = records[len(records) // 2]
        sample = {"target": t, "transition": {k: r["hook"][k] for k in r["hook"]}, "operator_type": r["operator_type"], "uniform_draw": r.get("u")}
    return {"violations": V, "counters": C, "fingerprint": None, "fingerprints": fps[:400], "sample": sample}


def trace_run(case, dic, mcmc_mod, torch, carry=None):
    """run MCMC.run under the wrappers; -> list of per-iteration records.  carry: operator id -> (tune calls, accepted) counted by
    the monitor in the first part of a resumed run"""
    m = dic["mcmc"]
    records = []
    cur = {}
    draws = []
    for o in m._operators:
        install(o, dic, cur, torch, (carry or {}).get(o.id))
    if mcmc_mod._VERIF_TRACE is None:
        raise RuntimeError("the MCMC trace hook is off (TORCHTREE_VERIF=1 not seen by torchtree)")
    del mcmc_mod._VERIF_TRACE[:]
    real_torch = mcmc_mod.torch
    mcmc_mod.torch = RandProxy(real_torch, draws)
    torch.manual_seed(case["seed"] % (2**31))
    try:
        with contextlib.redirect_stdout(io.StringIO()):
            # iterate manually-sized chunks: the hook list tells us where iterations end
            m.run()
    finally:
        mcmc_mod.torch = real_torch
    hook = list(mcmc_mod._VERIF_TRACE)
    steps = cur.get("log", [])
    # join: the k-th hook record belongs to the k-th wrapped step() call
    if len(hook) != len(steps):
        raise tt.SubjectError("C15:trace-mismatch", "hook recorded %d iterations, the operator wrappers saw %d proposals" % (len(hook), len(steps)))
    di = 0
    for h, s in zip(hook, steps):
        r = dict(s)
        r["hook"] = h
        # uniform draw of this iteration (made only when a decision by comparison was taken)
        took_draw = not (math.isinf(h["hastings_ratio"]) or h["log_joint_proposed"] is None or not math.isfinite(h["log_joint_proposed"]))
        if took_draw:
            r["u"] = draws[di] if di < len(draws) else None
            di += 1
        records.append(r)
    if di != len(draws):
        raise tt.SubjectError("C15:uniform-draws", "mcmc.py made %d uniform draws, %d decisions needed one" % (len(draws), di))
    return records


_DECLARED = {}  # operator id -> target acceptance probability written in its specification (the case being run)


def install(o, dic, cur, torch, carried=None):
    """wrap step / accept / reject / tune of one operator instance (and momentum / integrator for HMC)"""
    log = cur.setdefault("log", [])
    tname = type(o).__name__
    orig_step, orig_accept, orig_reject, orig_tune = o.step, o.accept, o.reject, o.tune

    def step():
        rec = {"operator": o.id, "operator_type": tname, "before": leaf_snapshot(dic), "op_before": [p.tensor.detach().clone() for p in o.parameters],
               "tuning_before": boldness(o), "scaler": getattr(o, "_scaler", None), "width": getattr(o, "_width", None)}
        cur["rec"] = rec
        hr = orig_step()
        rec["hr"] = float(hr)
        rec["proposed"] = leaf_snapshot(dic)
        rec["op_proposed"] = [p.tensor.detach().clone() for p in o.parameters]
        log.append(rec)
        return hr

    def accept():
        orig_accept()
        cur["rec"]["after"] = leaf_snapshot(dic)
        cur["rec"]["decision_call"] = "accept"

    def reject():
        orig_reject()
        cur["rec"]["after"] = leaf_snapshot(dic)
        cur["rec"]["decision_call"] = "reject"

    running = {"calls": carried[0] if carried else 0, "accepted": carried[1] if carried else 0}

    def tune(acceptance_prob, sample, accepted):
        b0 = boldness(o)
        running["calls"] += 1
        running["accepted"] += bool(accepted)
        orig_tune(acceptance_prob, sample=sample, accepted=accepted)
        ads = [(type(a).__name__, bool(getattr(a, "_acceptance_rate", False)), getattr(a, "target_acceptance_probability", None)) for a in getattr(o, "_adaptors", [])]
        cur["rec"]["tune"] = {"before": b0, "after": boldness(o), "acceptance_prob": float(acceptance_prob), "target": _DECLARED.get(o.id, o.target_acceptance_probability),
                              "disabled": o._disable_adaptation, "adaptors": ads, "calls": running["calls"], "running_rate": running["accepted"] / running["calls"]}

    o.step, o.accept, o.reject, o.tune = step, accept, reject, tune
    if tname == "HMCOperator":
        ham = o._hamiltonian
        orig_sample = ham.sample_momentum

        def sample(mass):
            p = orig_sample(mass)
            cur["rec"].setdefault("momenta0", []).append(p.detach().clone())
            cur["rec"]["mass"] = mass.detach().clone()
            return p

        ham.sample_momentum = sample
        integ = o._integrator
        orig_call = type(integ).__call__

        class Wrapped(type(integ)):
            def __call__(self_, model, parameters, momentum, inv):
                cur["rec"]["leapfrog"] = {"step_size": float(self_.step_size), "steps": int(self_.steps), "ids": [q.id for q in parameters],
                                          "start": [q.tensor.detach().clone() for q in parameters]}
                out = orig_call(self_, model, parameters, momentum, inv)
                cur["rec"].setdefault("momenta1", []).append(out.detach().clone())
                cur["rec"]["inverse_mass"] = inv.detach().clone()
                return out

        integ.__class__ = Wrapped


def shadow_value(shadow, snap, torch):
    set_leaves(shadow, snap)
    with torch.no_grad():
        return float(shadow["joint"]())


def check_records(case, dic, shadow, spec, records, meta, V, C, torch):
    t = case["target"]
    ss = cnt = None
    if meta is not None:
        ss, cnt = skygrid_statistics(meta)
    prev_after = None
    for k, r in enumerate(records):
        h = r["hook"]
        C["transitions"] += 1
        C["hook_records"] += 1
        tname = r["operator_type"]
        if tname not in C["operator_types"]:
            C["operator_types"].append(tname)
        where = "%s iteration %d operator %s" % (t, h["epoch"], r["operator"])
        detail = {"case": case, "iteration": h["epoch"], "operator": r["operator"], "hook": h}
        if k % 20 == 0:
            _, shadow2 = tt.load(spec)
            shadow.clear()
            shadow.update(shadow2)
            C["shadow_rebuilds"] += 1
        # continuity: the state this iteration starts from is the state the previous one ended in
        if prev_after is not None and any(not torch.equal(prev_after[i], r["before"][i]) for i in prev_after):
            V.append(tt.viol("C15:state-changed-between-iterations", where + ": parameters differ from the end of the previous iteration", **detail))
            return
        # (1) carried density = target at the current state
        cur_val = shadow_value(shadow, r["before"], torch)
        if abs(h["log_joint_carried"] - cur_val) > 1e-9 * max(1.0, abs(cur_val)):
            V.append(tt.viol("C15:carried-density:" + tname, "%s: density carried across iterations %.12g, target at the current state %.12g" % (where, h["log_joint_carried"], cur_val), **detail))
            return
        changed = any(not torch.equal(r["before"][i], r["proposed"][i]) for i in r["before"])
        r["changed"] = changed
        if changed:
            C["state_changed"] += 1
        inf_hr = math.isinf(h["hastings_ratio"])
        # (2) proposed density = target at the proposed state
        prop_val = None
        if not inf_hr:
            try:
                prop_val = shadow_value(shadow, r["proposed"], torch)
            except ValueError:
                prop_val = float("nan")
            if h["log_joint_proposed"] is None or (math.isfinite(prop_val) and abs(h["log_joint_proposed"] - prop_val) > 1e-9 * max(1.0, abs(prop_val))):
                V.append(tt.viol("C15:proposed-density:" + tname, "%s: density used for the proposal %s, target evaluated from scratch at the proposed state %.12g" % (where, h["log_joint_proposed"], prop_val), **detail))
                return
        else:
            C["infinite_hastings"] += 1
        # (3) Hastings ratio = log q(x|x') - log q(x'|x) of the operator
        if abs(r["hr"] - h["hastings_ratio"]) > 0 and not (inf_hr and math.isinf(r["hr"])):
            V.append(tt.viol("C15:hastings-passed-on:" + tname, "%s: step() returned %r, MCMC.run used %r" % (where, r["hr"], h["hastings_ratio"]), **detail))
            return
        ref_hr = independent_hastings(r, tname, ss, cnt, where, detail, V, torch)
        if ref_hr == "violation":
            return
        if tname == "HMCOperator" and inf_hr and ref_hr is not None and len(r.get("momenta1", [])) == len(r.get("momenta0", [])):
            # the last trajectory ran to its end (no numerical failure): its Hastings term is the finite change in kinetic energy,
            # whatever the size of the energy error - the accept step decides on it
            V.append(tt.viol("C15:hastings-ratio:HMCOperator:infinite-for-a-completed-trajectory", "%s: step() returned an infinite Hastings term although the trajectory completed; K(p0) - K(p1) = %.6g" % (where, ref_hr), **detail))
            return
        if tname == "HMCOperator" and ref_hr is not None and not inf_hr and "leapfrog" in r and all(i in shadow for i in r["leapfrog"]["ids"]):
            # the proposal is the leapfrog map of the *current* target: an independent integration on a freshly evaluated copy of the
            # target, from the same start and momentum, must arrive at the proposed point with the returned momentum
            lf = r["leapfrog"]
            set_leaves(shadow, r["before"])
            sizes = [int(t.numel()) for t in lf["start"]]

            def grad_logp(qvec):
                parts, st = [], 0
                for i, nn in zip(lf["ids"], sizes):
                    t = qvec[st:st + nn].clone().requires_grad_()
                    shadow[i].tensor = t
                    parts.append(t)
                    st += nn
                lp = shadow["joint"]()
                g = torch.autograd.grad(lp.sum(), parts)
                return torch.cat([x.reshape(-1) for x in g])

            inv = r["inverse_mass"]
            mv = (lambda pp: inv * pp) if inv.dim() == 1 else (lambda pp: inv @ pp)
            qv = torch.cat([t.reshape(-1) for t in lf["start"]])
            pv = r["momenta0"][-1].clone()
            eps = lf["step_size"]
            try:
                g = grad_logp(qv)
                pv = pv + eps / 2 * g
                for _ in range(lf["steps"]):
                    qv = qv + eps * mv(pv)
                    g = grad_logp(qv)
                    pv = pv + eps * g
                pv = pv - eps / 2 * g
                ok_traj = True
            except Exception:
                ok_traj = False  # the copy cannot be evaluated along the way (support left): nothing to compare
            for i, t0 in zip(lf["ids"], lf["start"]):
                shadow[i].tensor = t0.clone()
            if ok_traj:
                C["reference_trajectories"] = C.get("reference_trajectories", 0) + 1
                qlib = torch.cat([t.reshape(-1) for t in r["op_proposed"]])
                plib = r["momenta1"][-1]
                scale = max(1.0, float(qv.abs().max()), float(pv.abs().max()))
                if bool(torch.isfinite(qv).all()) and (float((qlib - qv).abs().max()) > 1e-7 * scale or float((plib - pv).abs().max()) > 1e-7 * scale):
                    V.append(tt.viol("C15:hmc-proposal-not-the-leapfrog-map-of-the-current-target", "%s: proposed point differs from an independent leapfrog integration of the current target from the same start and momentum (max |dq| %.3g, max |dp| %.3g): the Hastings term K0-K1 is not the proposal ratio" % (
                        where, float((qlib - qv).abs().max()), float((plib - pv).abs().max())), **detail))
                    return
        if math.isnan(h["hastings_ratio"]):
            V.append(tt.viol("C15:hastings-ratio:not-a-number:" + tname, "%s: step() returned NaN as Hastings ratio (MCMC.run turns that into an acceptance probability of one)" % where, **detail))
            return
        if tname == "HMCOperator" and len(r.get("momenta0", [])) > 1:
            C["hmc_retried_trajectories"] = C.get("hmc_retried_trajectories", 0) + 1
        if ref_hr is not None and not inf_hr:
            C["hastings_checked"] += 1
            tol = 1e-6 if tname.startswith("GMRF") else 1e-9
            if abs(ref_hr - h["hastings_ratio"]) > tol * max(1.0, abs(ref_hr)):
                V.append(tt.viol("C15:hastings-ratio:" + tname, "%s: Hastings ratio %.12g, the true log q(x|x')/q(x'|x) of the operator is %.12g" % (where, h["hastings_ratio"], ref_hr), **detail))
                return
        # (4) the decision
        if inf_hr or prop_val is None or not math.isfinite(prop_val):
            if not inf_hr:
                C["nonfinite_proposals"] = C.get("nonfinite_proposals", 0) + 1
            if h["accepted"]:
                V.append(tt.viol("C15:accepted-impossible-move:" + tname, where + ": a move with infinite Hastings ratio / non-finite density was accepted", **detail))
                return
        else:
            log_alpha = (prop_val - cur_val) + (ref_hr if ref_hr is not None else h["hastings_ratio"])
            alpha = math.exp(min(0.0, log_alpha))
            u = r.get("u")
            if u is None:
                V.append(tt.viol("C15:no-uniform-draw:" + tname, where + ": no uniform draw was made for this decision", **detail))
                return
            if abs(h["acceptance_prob"] - alpha) > 1e-9:
                V.append(tt.viol("C15:acceptance-probability:" + tname, "%s: acceptance probability %.12g, min(1, exp(change in log density + log Hastings ratio)) = %.12g" % (where, h["acceptance_prob"], alpha), **detail))
                return
            if abs(u - alpha) < 1e-12:
                C["decisions_not_judged_tie"] += 1
            elif h["accepted"] != (u < alpha):
                V.append(tt.viol("C15:decision:" + tname, "%s: u = %.12g, acceptance probability %.12g, but accepted = %s" % (where, u, alpha, h["accepted"]), **detail))
                return
        # (5) state after the decision
        after = r.get("after")
        if after is None or r.get("decision_call") != ("accept" if h["accepted"] else "reject"):
            V.append(tt.viol("C15:decision-call:" + tname, "%s: accepted=%s but operator.%s() was called" % (where, h["accepted"], r.get("decision_call")), **detail))
            return
        ref_state = r["proposed"] if h["accepted"] else r["before"]
        bad = [i for i in ref_state if not torch.equal(ref_state[i], after[i])]
        if bad and not h["accepted"]:
            # mechanism: reject() restores `parameter.tensor = saved`; on a TransformedParameter that assignment goes through the inverse
            # transform, so the underlying parameter comes back as inv(forward(x)), which can differ from x in the last bits
            try:
                transformed = any(type(q).__name__ == "TransformedParameter" for q in dic[h["operator"]].parameters)
            except Exception:
                transformed = False
            rel = max(float(((ref_state[i] - after[i]).abs() / ref_state[i].abs().clamp_min(1e-300)).max()) for i in bad)
            absd = max(float((ref_state[i] - after[i]).abs().max()) for i in bad)
            if transformed and (rel <= 1e-15 or absd <= 1e-15):  # (last bits: relative to the value, or - next to zero, where log(exp(u)) has an absolute error of one ulp of 1 - absolute)
                V.append(tt.viol("C15:reject-not-bit-identical:operator-on-a-transformed-parameter:restored-through-the-inverse-transform",
                                 "%s: after reject parameter %s is %s, it was %s before the proposal (relative difference %.2g)" % (where, bad[0], after[bad[0]].tolist(), ref_state[bad[0]].tolist(), rel), **detail))
                bad = []
                prev_after = after
                continue
        if bad:
            V.append(tt.viol("C15:%s:%s" % ("accept-changes-state" if h["accepted"] else "reject-not-bit-identical", tname),
                             "%s: after %s parameter %s is %s, expected %s" % (where, "accept" if h["accepted"] else "reject", bad[0], after[bad[0]].tolist(), ref_state[bad[0]].tolist()), **detail))
            return
        exp_after = prop_val if h["accepted"] else cur_val
        if abs(h["log_joint_after"] - exp_after) > 1e-9 * max(1.0, abs(exp_after)):
            V.append(tt.viol("C15:carried-density-after-decision:" + tname, "%s: density carried after the decision %.12g, target at the resulting state %.12g" % (where, h["log_joint_after"], exp_after), **detail))
            return
        C["accepted" if h["accepted"] else "rejected"] += 1
        key = ("accepted:" if h["accepted"] else "rejected:") + tname
        C[key] = C.get(key, 0) + 1
        prev_after = after
        # (6) tuning direction
        tn = r.get("tune")
        if tn is not None:
            C["tune_calls"] += 1
            if tn["disabled"]:
                if tn["after"] != tn["before"]:
                    V.append(tt.viol("C15:tuning-while-disabled:" + tname, "%s: adaptation is disabled but the proposal scale changed from %r to %r" % (where, tn["before"], tn["after"]), **detail))
                    return
            elif tn["before"] is not None and tn.get("adaptors"):
                # HMC with adaptors: judged for the plain Robbins-Monro step-size adaptor, on the statistic it is configured with
                # (this iteration's acceptance probability, or the running acceptance rate of the operator from the 10th call on);
                # dual averaging and mass-matrix adaptation are not monotone per iteration and are not judged
                ads = tn["adaptors"]
                if len(ads) == 1 and ads[0][0] == "AdaptiveStepSize":
                    use_rate, target = ads[0][1], ads[0][2]
                    stat = tn["running_rate"] if use_rate else tn["acceptance_prob"]
                    if not use_rate or tn["calls"] >= 10:
                        C["tune_calls_adaptive_step_size"] = C.get("tune_calls_adaptive_step_size", 0) + 1
                        C["adaptive_step_size_modes"] = sorted(set(C.get("adaptive_step_size_modes", [])) | {"rate" if use_rate else "probability"})
                        if stat > target + 1e-12 and tn["after"] < tn["before"] * (1 - 1e-12):
                            V.append(tt.viol("C15:tuning-direction:AdaptiveStepSize:%s" % ("acceptance-rate" if use_rate else "acceptance-probability"),
                                             "%s: %s %.3f is above the target %.3f but the step size shrank (%.6g -> %.6g)" % (where, "running acceptance rate" if use_rate else "acceptance probability", stat, target, tn["before"], tn["after"]), **detail))
                            return
                else:
                    C["tune_calls_not_judged_other_adaptors"] = C.get("tune_calls_not_judged_other_adaptors", 0) + 1
            elif tn["before"] is not None:
                if tn["acceptance_prob"] > tn["target"] + 1e-12 and tn["after"] < tn["before"] * (1 - 1e-12):
                    V.append(tt.viol("C15:tuning-direction:" + tname, "%s: acceptance %.3f is above the target %.3f but the proposal became more timid (boldness %.6g -> %.6g)" % (where, tn["acceptance_prob"], tn["target"], tn["before"], tn["after"]), **detail))
                    return
                if tn["acceptance_prob"] < tn["target"] - 1e-12 and tn["after"] > tn["before"] * (1 + 1e-12):
                    V.append(tt.viol("C15:tuning-direction-below:" + tname, "%s: acceptance %.3f is below the target %.3f but the proposal became bolder (boldness %.6g -> %.6g)" % (where, tn["acceptance_prob"], tn["target"], tn["before"], tn["after"]), **detail))
                    return


def independent_hastings(r, tname, ss, cnt, where, detail, V, torch):
    b = torch.cat([x.reshape(-1) for x in r["op_before"]]).numpy()
    a = torch.cat([x.reshape(-1) for x in r["op_proposed"]]).numpy()
    if tname in ("ScalerOperator", "SlidingWindowOperator"):
        diff = np.nonzero(b != a)[0]
        if len(diff) > 1:
            V.append(tt.viol("C15:proposal-support:" + tname, "%s: the proposal changed %d elements, this operator moves exactly one" % (where, len(diff)), **detail))
            return "violation"
        if len(diff) == 0:
            return 0.0
        i = diff[0]
        if tname == "ScalerOperator":
            s = a[i] / b[i]
            sc = r["scaler"]
            lo_, hi_ = sorted((sc, 1 / sc))
            if not (lo_ * (1 - 1e-9) <= s <= hi_ * (1 + 1e-9)):
                V.append(tt.viol("C15:proposal-support:" + tname, "%s: scale factor %.6g outside (%.6g, %.6g)" % (where, s, lo_, hi_), **detail))
                return "violation"
            return -math.log(s)
        shift = a[i] - b[i]
        if abs(shift) > r["width"] / 2 * (1 + 1e-9):
            V.append(tt.viol("C15:proposal-support:" + tname, "%s: shift %.6g exceeds half the window width %.6g" % (where, shift, r["width"]), **detail))
            return "violation"
        return 0.0
    if tname == "DirichletOperator":
        c = r["scaler"]
        if len(r["op_before"]) > 1:
            # an operator over several simplexes moves one of them: the ratio is that of the move actually made
            pairs = [(x.reshape(-1).numpy(), y.reshape(-1).numpy()) for x, y in zip(r["op_before"], r["op_proposed"])]
            moved = [k for k, (b_, a_) in enumerate(pairs) if not np.array_equal(b_, a_)]
            if len(moved) > 1:
                V.append(tt.viol("C15:proposal-support:" + tname, "%s: the proposal changed %d parameters, this operator moves one simplex" % (where, len(moved)), **detail))
                return "violation"
            if not moved:
                return None
            b, a = pairs[moved[0]]
        if abs(a.sum() - 1) > 1e-9 or a.min() <= 0:
            return None
        return float(stats.dirichlet.logpdf(b / b.sum(), c * a) - stats.dirichlet.logpdf(a / a.sum(), c * b))
    if tname == "HMCOperator":
        if "momenta1" not in r or len(r["momenta1"]) == 0:
            return None
        p0, p1, inv = r["momenta0"][-1], r["momenta1"][-1], r["inverse_mass"]
        M = r["mass"]
        ref_inv = 1.0 / M if M.dim() == 1 else torch.inverse(M)
        if float((inv - ref_inv).abs().max()) > 1e-9 * float(ref_inv.abs().max()):
            V.append(tt.viol("C15:hmc-mass-matrix", where + ": the integrator did not use the inverse of the mass matrix the momentum was drawn from", **detail))
            return "violation"
        K = lambda p: float(0.5 * (p @ (inv * p if inv.dim() == 1 else inv @ p)))
        return K(p0) - K(p1)
    if tname.startswith("GMRF"):
        # parameters: [field, precision]
        # (read from the state of the chain, not from the operator's own parameter list)
        unres = "precision" not in r["before"]
        g0, t0 = r["before"]["field"].numpy(), float(r["before"]["precision"]) if not unres else math.exp(float(r["before"]["precision.unres"]))
        g1, t1 = r["proposed"]["field"].numpy(), float(r["proposed"]["precision"]) if not unres else math.exp(float(r["proposed"]["precision.unres"]))
        if len(g0) > len(ss):  # the field is a view of the first entries of a longer parameter
            g0, g1 = g0[: len(ss)], g1[: len(ss)]
        sc = r["scaler"]
        ratio = t1 / t0
        if not (1 / sc * (1 - 1e-9) <= ratio <= sc * (1 + 1e-9)):
            V.append(tt.viol("C15:proposal-support:" + tname, "%s: precision ratio %.6g outside (1/%.4g, %.4g)" % (where, ratio, sc, sc), **detail))
            return "violation"
        try:
            # over the free parameters of the chain: when the precision is exp(u), the move (symmetric in the precision) has density
            # q(u'|u) = q(tau'|tau) tau', so that log q(u|u') - log q(u'|u) carries u - u' on top of the field part
            return block_update_log_hastings(g0, g1, t0, t1, ss, cnt) + ((math.log(t0) - math.log(t1)) if unres else 0.0)
        except np.linalg.LinAlgError:
            return None
    return None


def check_log(case, logfile, shadow, logged, records, V, C, torch):
    """every logged row: parameters equal the state after that iteration, logged density = target at the logged values"""
    if not os.path.exists(logfile) or V:
        return
    with open(logfile) as fp:
        rows = list(csv.reader(fp))
    header, rows = rows[0], rows[1:]
    cols = {}
    for j, hname in enumerate(header):
        cols.setdefault(hname.rsplit(".", 1)[0] if hname not in ("sample", "joint") else hname, []).append(j)
    by_epoch = {r["hook"]["epoch"]: r for r in records}
    for row in rows:
        sample = int(float(row[0]))
        if sample == 0 or sample not in by_epoch:
            continue
        r = by_epoch[sample]
        C["logger_rows"] += 1
        after = r.get("after")
        snap = dict(after)
        for pid in logged:
            vals = [float(row[j]) for j in cols[pid]]
            if pid in after:
                if not np.array_equal(np.array(vals), after[pid].numpy().reshape(-1)):
                    V.append(tt.viol("C15:logger:parameters", "%s: row %d logs %s = %s, the state after that iteration is %s" % (case["target"], sample, pid, vals[:3], after[pid].tolist()[:3]), case=case))
                    return
        val = float(row[cols["joint"][0]])
        ref = shadow_value(shadow, snap, torch)
        if abs(val - ref) > 1e-9 * max(1.0, abs(ref)):
            V.append(tt.viol("C15:logger:density", "%s: row %d logs the density %.12g, the target at the logged parameter values is %.12g" % (case["target"], sample, val, ref), case=case))
            return
