"""C13 - in a model specification every id denotes exactly one shared object.

A small reference interpreter of the id/reference language (definition order, set of defined ids, expected
ACCEPT/REJECT) is run in lock-step with the real loader (remove_comments, expand_plates, process_objects per
top-level element, as torchtree.main does) on grammar-generated specifications: random DAGs of inlined /
referenced objects with injected faults.  After an accepted load the real object graph is walked and grouped
by id (one instance per id, identical to the registry entry), sharing is observed behaviourally, comments /
ignored objects / plates must leave no trace, json_factory products must evaluate like direct construction."""
from __future__ import annotations

import copy
import json

import numpy as np

from .. import tt

PROPERTY = "C13"
LEVEL = "exploration"
RULE = ("cases = random specification (3..25 objects, depth <= 5, 1..4 top-level elements; classes Parameter, ViewParameter, CatParameter, "
        "TransformedParameter, Distribution, JointDistributionModel, Taxon/Taxa) x fault {none, duplicate id between siblings / cousins / "
        "ancestor-descendant / across top-level elements / Taxon-vs-parameter, dangling reference, forward reference, range reference with a "
        "missing member, comment keys, ignored objects, plates} + json_factory round trips; non-trivial = >= 1 reference or fault; distinct by hash of the specification")
ASSUMPTIONS = [
    "references are generated only to objects defined in earlier top-level elements or earlier items of an enclosing list, where definition order is unambiguous",
    "reference interpreter: REJECT iff an id is defined twice anywhere (after comment removal and plate expansion) or a reference names an id not yet defined",
]
BUDGET = {"quick": 60, "thorough": 500}
ROUNDS = {"thorough": 10}
FLOORS = {"loads": {"quick": 1500, "thorough": 15000}, "expected_reject": 400, "expected_accept": 400, "graph_walks": 300,
          "sharing_updates": 150, "factory_round_trips": 60, "faults": 19, "derived_parameters_consistent": {"quick": 300, "thorough": 3000}, "loads_through_main": 100, "reference_identity_checks": {"quick": 2000, "thorough": 20000}}

FAULTS = ["none", "none", "dup-sibling", "dup-cousin", "dup-ancestor", "dup-toplevel", "dup-taxon-parameter", "dangling", "forward",
          "range-missing", "range-ok", "comments", "ignored", "plate", "nested-plate", "ignored-plate",
          "group", "datatype-dangling", "datatype-ok", "shared-transform-argument", "shared-hyperparameter", "dup-tree-taxa", "tree-ok", "keep-shared-heights"]


def cases(tier, seed):
    rng = np.random.default_rng([seed, 13])
    n = {"quick": 2600, "thorough": 26000}[tier]
    out = [{"fault": FAULTS[i % len(FAULTS)], "seed": int(rng.integers(2**31))} for i in range(n)]
    for i in range(80 if tier == "quick" else 600):
        out.append({"fault": "factory", "seed": int(rng.integers(2**31))})
    return out


# ---------------------------------------------------------------- generator
class Gen:
    def __init__(self, rng):
        self.rng = rng
        self.count = 0
        self.params_defined = []  # ids of parameter-like objects completed so far (document order)
        self.refs = 0

    def new_id(self, stem):
        self.count += 1
        return "%s%d" % (stem, self.count)

    def param(self, d=2):
        return {"id": self.new_id("p"), "type": "Parameter", "tensor": self.rng.normal(0, 1, d).round(4).tolist()}

    def positive(self, d=1):
        return {"id": self.new_id("s"), "type": "Parameter", "tensor": np.exp(self.rng.normal(0, 0.5, d)).round(4).tolist()}

    def paramlike(self, depth, allow_ref=True):
        r = self.rng.random()
        if allow_ref and self.params_defined and r < 0.3:
            self.refs += 1
            return str(self.rng.choice(self.params_defined))
        if depth <= 0 or r < 0.55:
            o = self.param()
        elif r < 0.7:
            o = {"id": self.new_id("v"), "type": "ViewParameter", "parameter": self.paramlike(depth - 1), "indices": "0:1"}
        elif r < 0.85:
            o = {"id": self.new_id("t"), "type": "TransformedParameter", "transform": "torch.distributions.ExpTransform", "x": self.paramlike(depth - 1)}
        else:
            k = int(self.rng.integers(2, 4))
            o = {"id": self.new_id("c"), "type": "CatParameter", "parameters": [self.paramlike(depth - 1, allow_ref=False) for _ in range(k)], "dim": 0}
        return o

    def complete(self, o):
        """register the parameter-like ids of a finished top-level element / list item for later references"""
        for x in walk_defs(o):
            if x["type"] in ("Parameter", "ViewParameter", "TransformedParameter"):
                self.params_defined.append(x["id"])

    def dist(self, depth):
        o = {"id": self.new_id("d"), "type": "Distribution", "distribution": "torch.distributions.Normal", "x": self.paramlike(depth - 1),
             "parameters": {"loc": self.param(1) if self.rng.random() < 0.5 else float(self.rng.normal()),
                            "scale": self.positive(1) if self.rng.random() < 0.5 else float(np.exp(self.rng.normal()))}}
        return o

    def joint(self, depth):
        items = []
        for _ in range(int(self.rng.integers(1, 4))):
            it = self.joint(depth - 1) if (depth > 2 and self.rng.random() < 0.25) else self.dist(depth - 1)
            items.append(it)
            self.complete(it)
        return {"id": self.new_id("j"), "type": "JointDistributionModel", "distributions": items}

    def spec(self):
        top = []
        for _ in range(int(self.rng.integers(0, 3))):
            o = self.paramlike(2, allow_ref=True)
            if isinstance(o, dict):
                top.append(o)
                self.complete(o)
        j = self.joint(int(self.rng.integers(2, 6)))
        top.append(j)
        return top, j["id"]


def walk_defs(o):
    """all object definitions (dicts with id and type) in document order (pre-order)."""
    if isinstance(o, dict):
        if "id" in o and "type" in o:
            yield o
        for k, v in o.items():
            if k in ("id", "type"):
                continue
            yield from walk_defs(v)
    elif isinstance(o, list):
        for v in o:
            yield from walk_defs(v)


def parents(top):
    par = {}

    def rec(o, p):
        if isinstance(o, dict):
            me = o if ("id" in o and "type" in o) else p
            if me is o:
                par[id(o)] = p
            for k, v in o.items():
                if k not in ("id", "type"):
                    rec(v, me)
        elif isinstance(o, list):
            for v in o:
                rec(v, p)

    for t in top:
        rec(t, None)
    return par


# ---------------------------------------------------------------- reference interpreter
TREE_SLOTS = ["taxa", "internal_heights", "branch_lengths", "ratios", "root_height", "shifts"]
REF_SLOTS = {"TimeTreeModel": TREE_SLOTS, "FlexibleTimeTreeModel": TREE_SLOTS, "UnRootedTreeModel": TREE_SLOTS, "ReparameterizedTimeTreeModel": TREE_SLOTS, "BayesianBridge": ["x", "scale", "local_scale", "slab", "alpha"], "Alignment": ["datatype", "taxa"], "ViewParameter": ["parameter"], "TransformedParameter": ["x", "parameters"], "CatParameter": ["parameters"], "Distribution": ["x", "parameters"],
             "JointDistributionModel": ["distributions"], "Taxa": ["taxa"]}


def interpret(top):
    """-> ('ACCEPT', None) | ('REJECT', reason).  Document-order walk: an id becomes defined when its object is complete;
    defining an id a second time (anywhere) or referring to an undefined id rejects."""
    defined = set()
    seen = set()

    class Reject(Exception):
        pass

    def value(v):
        if isinstance(v, str):
            if "{" in v:
                stem, rest = v.split("{")
                a, b = rest.rstrip("}").split(":")
                for i in range(int(a), int(b)):
                    if stem + str(i) not in defined:
                        raise Reject("undefined reference %s%d" % (stem, i))
            elif v == "nucleotide":
                pass  # the built-in nucleotide data type does not have to be defined
            elif v not in defined:
                raise Reject("undefined reference " + v)
        elif isinstance(v, dict) and "id" in v and "type" in v:
            obj(v)
        elif isinstance(v, dict):
            for x in v.values():
                value(x)
        elif isinstance(v, list):
            for x in v:
                value(x)

    def obj(o):
        if o["id"] in seen:
            raise Reject("duplicate id " + o["id"])
        seen.add(o["id"])
        for slot in REF_SLOTS.get(o["type"], []):
            if slot in o:
                value(o[slot])
        defined.add(o["id"])

    try:
        for t in top:
            if isinstance(t, list):  # a group of objects in the top-level list: built member by member
                value(t)
            else:
                obj(t)
    except Reject as r:
        return "REJECT", str(r)
    return "ACCEPT", None


# ---------------------------------------------------------------- faults
def inject(fault, top, rng):
    """returns (top', note). The reference interpreter decides the expected verdict afterwards."""
    defs = [d for t in top for d in walk_defs(t)]
    par = parents(top)
    note = fault
    if fault == "dup-sibling":
        groups = {}
        for d in defs:
            groups.setdefault(id(par[id(d)]), []).append(d)
        cand = [g for g in groups.values() if len(g) >= 2]
        if cand:
            g = cand[int(rng.integers(len(cand)))]
            a, b = rng.choice(len(g), 2, replace=False)
            g[b]["id"] = g[a]["id"]
    elif fault == "dup-cousin":
        if len(defs) >= 3:
            a, b = rng.choice(len(defs), 2, replace=False)
            defs[b]["id"] = defs[a]["id"]
    elif fault == "dup-ancestor":
        inner = [d for d in defs if par[id(d)] is not None]
        if inner:
            d = inner[int(rng.integers(len(inner)))]
            anc = par[id(d)]
            while par[id(anc)] is not None and rng.random() < 0.5:
                anc = par[id(anc)]
            d["id"] = anc["id"]
    elif fault == "dup-toplevel":
        if len(top) >= 2:
            top[-1]["id"] = top[0]["id"]
        else:
            top.append({"id": top[0]["id"], "type": "Parameter", "tensor": [1.0]})
    elif fault == "dup-taxon-parameter":
        ps = [d for d in defs if d["type"] == "Parameter"]
        nm = ps[int(rng.integers(len(ps)))]["id"]
        taxa = {"id": "taxa", "type": "Taxa", "taxa": [{"id": "A", "type": "Taxon"}, {"id": nm, "type": "Taxon"}]}
        top.insert(int(rng.integers(len(top) + 1)), taxa)
    elif fault == "dangling":
        slots = ref_slots(top)
        if slots:
            holder, key = slots[int(rng.integers(len(slots)))]
            holder[key] = "no.such.id"
    elif fault == "forward":
        # a reference to a parameter that is only defined in a later top-level element
        later = {"id": "late1", "type": "Parameter", "tensor": [0.5, 0.5]}
        slots = ref_slots(top)
        if slots:
            holder, key = slots[int(rng.integers(len(slots)))]
            holder[key] = "late1"
            top.append(later)
    elif fault in ("range-missing", "range-ok"):
        k = int(rng.integers(2, 5))
        members = [{"id": "m.%d" % i, "type": "Parameter", "tensor": [float(i)]} for i in range(k)]
        if fault == "range-missing":
            del members[int(rng.integers(k))]
        top[0:0] = members
        top.append({"id": "rangeview", "type": "ViewParameter", "parameter": "m.{0:%d}" % k, "indices": "0:1"})
    return top, note


def ref_slots(top):
    """places where a parameter-like child sits (dict holder, key) - candidates for replacing by a reference string"""
    out = []
    for d in (x for t in top for x in walk_defs(t)):
        for slot in ("parameter", "x"):
            if slot in d and d["type"] in ("ViewParameter", "TransformedParameter", "Distribution"):
                out.append((d, slot))
    return out


def add_noise(top, rng, kind):
    """comment keys / ignored objects / plates that must leave no trace. Returns the decorated copy."""
    t2 = copy.deepcopy(top)
    if kind == "comments":
        for d in [x for t in t2 for x in walk_defs(t)]:
            if rng.random() < 0.4:
                d["_comment"] = "note"
            if rng.random() < 0.2:
                # a commented-out object, even one whose id clashes with a real one
                d["_disabled"] = {"id": d["id"], "type": "Parameter", "tensor": [9.0]}
            if rng.random() < 0.2 and d["type"] == "Distribution" and isinstance(d["parameters"], dict):
                d["parameters"]["_why"] = "prior"
    elif kind == "ignored":
        for d in [x for t in t2 for x in walk_defs(t)]:
            if rng.random() < 0.3:
                d["ignore"] = False  # an object switched back on - wherever it sits (list element, value of a key) - is in effect
        for d in [x for t in t2 for x in walk_defs(t)]:
            if d["type"] == "JointDistributionModel" and rng.random() < 0.7:
                d["distributions"].insert(int(rng.integers(len(d["distributions"]) + 1)),
                                          {"id": "ign%d" % int(rng.integers(1000)), "type": "Distribution", "distribution": "torch.distributions.Normal", "x": "no.such", "ignore": True})
            if d["type"] == "Distribution" and rng.random() < 0.3:
                d["extra_block"] = {"id": d["id"], "type": "Parameter", "tensor": [1.0], "ignore": True}
        if rng.random() < 0.5:
            t2.insert(0, {"id": "whole", "type": "Nonexistent", "ignore": True})
    return t2


# ---------------------------------------------------------------- real loader + observations
def load_through_main(top):
    """The specification written to a file and handed to the real entry point (`torchtree file --dry`): the pre-processing order
    (comments, plates, checkpoints) is main()'s own.  The registry is captured by wrapping process_objects in main's module.
    -> ('ACCEPT', dic) | ('REJECT', message) | ('ERROR', exception)"""
    import contextlib
    import io
    import logging
    import os
    import sys
    import tempfile

    import torch
    import torchtree.torchtree as entry

    captured = {}
    orig = entry.process_objects

    def wrapped(element, dic, *a, **k):
        captured["dic"] = dic
        return orig(element, dic, *a, **k)

    errors = []

    class H(logging.Handler):
        def emit(self, rec):
            if rec.levelno >= logging.ERROR:
                errors.append(rec.getMessage())

    fd, path = tempfile.mkstemp(prefix="vt-c13-", suffix=".json", dir="/dev/shm" if os.path.isdir("/dev/shm") else None)
    with os.fdopen(fd, "w") as fp:
        json.dump(top, fp)
    h = H()
    logging.getLogger().addHandler(h)
    argv, dtype = sys.argv, torch.get_default_dtype()
    sys.argv = ["torchtree", path, "--dry"]
    entry.process_objects = wrapped
    try:
        with contextlib.redirect_stdout(io.StringIO()), contextlib.redirect_stderr(io.StringIO()):
            entry.main()
    except SystemExit as e:
        return "ERROR", e
    except Exception as e:
        return "ERROR", e
    finally:
        entry.process_objects = orig
        sys.argv = argv
        torch.set_default_dtype(dtype)
        logging.getLogger().removeHandler(h)
        os.remove(path)
    if errors:
        return "REJECT", errors[0]
    return "ACCEPT", captured.get("dic", {})


def load_as_main(top):
    """-> ('ACCEPT', dic) | ('REJECT', message) | ('ERROR', exception)"""
    from torchtree.core.utils import JSONParseError

    try:
        objs, dic = tt.load(top)
        return "ACCEPT", dic
    except JSONParseError as e:
        return "REJECT", str(e)
    except Exception as e:  # anything else escapes torchtree.main as a crash
        return "ERROR", e


def reachable(dic):
    """walk the real object graph from every registry entry; yield objects that carry an id"""
    seen = {}
    stack = list(dic.values())
    while stack:
        o = stack.pop()
        if id(o) in seen or o is None:
            continue
        seen[id(o)] = o
        for attr in ("_parameters", "_models", "dict_parameters"):
            d = getattr(o, "__dict__", {}).get(attr)
            if isinstance(d, dict):
                stack.extend(d.values())
        for attr in ("x", "parameter", "_parameter_container", "_distributions", "distribution_parameters"):
            v = getattr(o, "__dict__", {}).get(attr)
            if v is not None and not isinstance(v, (int, float, str)):
                stack.append(v)
    return [o for o in seen.values() if getattr(o, "id", None) is not None and hasattr(o, "_id")]


def fingerprint_of(top):
    return json.dumps(top, sort_keys=True)


def run_case(case):
    if case["fault"] == "factory":
        return run_factory(case)
    import torch

    V = []
    fault = case["fault"]
    C = {"loads": 0, "expected_reject": 0, "expected_accept": 0, "graph_walks": 0, "sharing_updates": 0, "noise_comparisons": 0, "factory_round_trips": 0, "faults": [fault]}
    rng = np.random.default_rng(case["seed"])
    g = Gen(rng)
    top, jid = g.spec()
    clean = copy.deepcopy(top)
    if fault == "plate":
        k = int(rng.integers(1, 4))
        plate = {"id": "plate", "type": "torchtree.Plate", "range": "0:%d" % k, "var": "i",
                 "object": {"id": "pd.${i}", "type": "Distribution", "distribution": "torch.distributions.Normal", "x": {"id": "px.${i}", "type": "Parameter", "tensor": [0.3]},
                            "parameters": {"loc": 0.0, "scale": 1.0}}}
        jt = [d for t in top for d in walk_defs(t) if d["id"] == jid][0]
        pos = int(rng.integers(len(jt["distributions"]) + 1))
        jt["distributions"].insert(pos, plate)
        expanded = copy.deepcopy(clean)
        je = [d for t in expanded for d in walk_defs(t) if d["id"] == jid][0]
        for i in range(k):
            je["distributions"].insert(pos + i, {"id": "pd.%d" % i, "type": "Distribution", "distribution": "torch.distributions.Normal",
                                                 "x": {"id": "px.%d" % i, "type": "Parameter", "tensor": [0.3]}, "parameters": {"loc": 0.0, "scale": 1.0}})
        effective = expanded
    elif fault == "ignored-plate":
        # a plate switched off with "ignore": true leaves no trace (no clone is built)
        plate = {"id": "plate", "type": "torchtree.Plate", "range": "0:%d" % int(rng.integers(1, 4)), "var": "i", "ignore": True,
                 "object": {"id": "pd.${i}", "type": "Distribution", "distribution": "torch.distributions.Normal", "x": {"id": "px.${i}", "type": "Parameter", "tensor": [0.3]},
                            "parameters": {"loc": 0.0, "scale": 1.0}}}
        jt = [d for t in top for d in walk_defs(t) if d["id"] == jid][0]
        jt["distributions"].insert(int(rng.integers(len(jt["distributions"]) + 1)), plate)
        effective = clean
    elif fault == "nested-plate":
        # a plate whose object template holds a list with another plate; also a second plate in the same list
        k, m = int(rng.integers(1, 4)), int(rng.integers(1, 3))

        def leaf(i, j):
            return {"id": "nd.%s.%s" % (i, j), "type": "Distribution", "distribution": "torch.distributions.Normal", "x": {"id": "nx.%s.%s" % (i, j), "type": "Parameter", "tensor": [0.3]},
                    "parameters": {"loc": 0.0, "scale": 1.0}}

        inner = {"id": "inner", "type": "torchtree.Plate", "range": "0:%d" % m, "var": "j", "object": leaf("${i}", "${j}")}
        outer = {"id": "outer", "type": "torchtree.Plate", "range": "0:%d" % k, "var": "i",
                 "object": {"id": "nj.${i}", "type": "JointDistributionModel", "distributions": [inner]}}
        second = {"id": "second", "type": "torchtree.Plate", "range": "0:2", "var": "i", "object": leaf("s", "${i}")}
        jt = [d for t in top for d in walk_defs(t) if d["id"] == jid][0]
        pos = int(rng.integers(len(jt["distributions"]) + 1))
        jt["distributions"][pos:pos] = [outer, second]
        expanded = copy.deepcopy(clean)
        je = [d for t in expanded for d in walk_defs(t) if d["id"] == jid][0]
        je["distributions"][pos:pos] = [{"id": "nj.%d" % i, "type": "JointDistributionModel", "distributions": [leaf(i, j) for j in range(m)]} for i in range(k)] + [leaf("s", 0), leaf("s", 1)]
        effective = expanded
    elif fault in ("comments", "ignored"):
        top = add_noise(top, rng, fault)
        effective = clean
    elif fault == "group":
        # top-level elements collected into groups (lists that are entries of the top-level list); inside a group a switched-off
        # alternative that reuses the id of the active object, and comment keys: neither has any effect
        decorated = add_noise(top, rng, "comments")
        grouped = []
        i = 0
        while i < len(decorated):
            k = int(rng.integers(1, 3))
            members = decorated[i:i + k]
            i += k
            if rng.random() < 0.7:
                m0 = members[int(rng.integers(len(members)))]
                off = {"id": m0["id"], "type": "Parameter", "tensor": [7.0], "ignore": True, "_note": "the old " + m0["id"]}
                members.insert(int(rng.integers(len(members) + 1)), off)
                if rng.random() < 0.5:
                    members.append({"id": "grp.off.%d" % i, "type": "Nonexistent", "ignore": True})
                grouped.append(members)
            else:
                grouped.extend(members)
        if not any(isinstance(x, list) for x in grouped):
            grouped = [grouped[:1] + [{"id": grouped[0]["id"], "type": "Parameter", "tensor": [7.0], "ignore": True}]] + grouped[1:]
        top = grouped
        effective = clean
    elif fault in ("datatype-dangling", "datatype-ok"):
        # an alignment refers to its data type by id: a defined one (or the built-in literal 'nucleotide') is the shared object, an
        # undefined one is a dangling reference
        how = ["literal", "defined", "inline"][case["seed"] % 3] if fault == "datatype-ok" else ["undefined", "later"][case["seed"] % 2]
        dt = {"id": "dt1", "type": "GeneralDataType", "codes": ["a", "b"]}
        taxa = {"id": "taxa", "type": "Taxa", "taxa": [{"id": "A", "type": "Taxon"}, {"id": "B", "type": "Taxon"}]}
        aln = {"id": "aln", "type": "Alignment", "taxa": "taxa", "datatype": "dt1",
               "sequences": [{"taxon": "A", "sequence": "abab"}, {"taxon": "B", "sequence": "abba"}]}
        if how == "literal":
            aln["datatype"] = "nucleotide"
            aln["sequences"] = [{"taxon": "A", "sequence": "ACGT"}, {"taxon": "B", "sequence": "ACGA"}]
            top = top + [taxa, aln]
        elif how == "defined":
            top = top + [dt, taxa, aln]
        elif how == "inline":
            aln["datatype"] = dt
            top = top + [taxa, aln]
        elif how == "undefined":
            aln["datatype"] = "dt.typo"
            top = top + [dt, taxa, aln]
        else:
            top = top + [taxa, aln, dt]  # defined only later in the file
        effective = top
    elif fault in ("dup-tree-taxa", "tree-ok", "keep-shared-heights"):
        # a tree model with its taxa (and their Taxon entries) defined inline: ids are ids, whatever the class of the holder
        klass = ["TimeTreeModel", "FlexibleTimeTreeModel", "UnRootedTreeModel", "ReparameterizedTimeTreeModel"][case["seed"] % 4]
        taxa = {"id": "taxa1", "type": "Taxa", "taxa": [{"id": nm, "type": "Taxon", "attributes": {"date": 0.0}} for nm in ("A", "B", "C")]}
        tree = {"id": "tr1", "type": klass, "newick": "((A:0.3,B:0.3):0.4,C:0.7);", "taxa": taxa}
        if klass == "UnRootedTreeModel":
            tree["branch_lengths"] = {"id": "bl1", "type": "Parameter", "tensor": [0.1, 0.1, 0.1]}
        elif klass == "ReparameterizedTimeTreeModel":
            tree["ratios"] = {"id": "rt1", "type": "Parameter", "tensor": [0.5]}
            tree["root_height"] = {"id": "rh1", "type": "Parameter", "tensor": [1.0]}
        else:
            tree["internal_heights"] = {"id": "ih1", "type": "Parameter", "tensor": [0.4, 0.9]}
        if fault == "dup-tree-taxa":
            how = case["seed"] % 3
            if how == 0:
                taxa["id"] = "tr1"  # the Taxa object takes the id of the tree model that holds it
            elif how == 1:
                taxa["taxa"][1]["id"] = "tr1"  # a taxon named like the tree model
                tree["newick"] = tree["newick"].replace("B", "tr1")
            else:
                taxa["taxa"][2]["id"] = "taxa1"  # a taxon named like the Taxa object
                tree["newick"] = tree["newick"].replace("C", "taxa1")
            top = top + [tree]
        elif fault == "keep-shared-heights" and klass in ("TimeTreeModel", "FlexibleTimeTreeModel"):
            # the heights are a parameter defined earlier which something else already holds (and has computed from); the tree model
            # takes its heights from the Newick: every holder sees those
            ih = tree.pop("internal_heights")
            tree["internal_heights"] = "ih1"
            tree["keep_branch_lengths"] = True
            top = top + [ih, {"id": "ih1.log", "type": "TransformedParameter", "transform": "LogTransform", "x": "ih1"},
                         {"id": "ih1.cat", "type": "CatParameter", "parameters": ["ih1", {"id": "extra1", "type": "Parameter", "tensor": [5.0]}], "dim": -1}, tree]
        else:
            top = top + [tree]
        effective = top
    elif fault == "shared-hyperparameter":
        # hyper-parameters of a shrinkage prior given as references to parameters that their own hyper-priors hold too
        jt = [d for t in top for d in walk_defs(t) if d["id"] == jid][0]
        top.insert(0, {"id": "hslab1", "type": "Parameter", "tensor": [2.0]})
        top.insert(0, {"id": "hlocal1", "type": "Parameter", "tensor": [0.7, 1.4]})
        jt["distributions"].append({"id": "dslab1", "type": "Distribution", "distribution": "torch.distributions.Normal", "x": "hslab1", "parameters": {"loc": 1.0, "scale": 1.0}})
        jt["distributions"].append({"id": "bb1", "type": "BayesianBridge", "x": {"id": "xbb1", "type": "Parameter", "tensor": [0.3, -0.6]},
                                    "scale": {"id": "sbb1", "type": "Parameter", "tensor": [0.9]}, "local_scale": "hlocal1", "slab": "hslab1"})
        # ... and hyper-parameters that reach a distribution through a derived parameter (transformed, a view, a concatenation) of a
        # parameter which its own prior holds as well
        top.insert(0, {"id": "hls1", "type": "Parameter", "tensor": [0.2]})
        jt["distributions"].append({"id": "dhls1", "type": "Distribution", "distribution": "torch.distributions.Normal", "x": "hls1", "parameters": {"loc": 0.0, "scale": 2.0}})
        jt["distributions"].append({"id": "dder1", "type": "Distribution", "distribution": "torch.distributions.Normal",
                                    "x": {"id": "xder1", "type": "Parameter", "tensor": [0.4, -0.2]},
                                    "parameters": {"loc": {"id": "hlocal1.first", "type": "ViewParameter", "parameter": "hlocal1", "indices": "0:1"},
                                                   "scale": {"id": "hls1.exp", "type": "TransformedParameter", "transform": "torch.distributions.ExpTransform", "x": "hls1"}}})
        jt["distributions"].append({"id": "dder2", "type": "Distribution", "distribution": "torch.distributions.Normal",
                                    "x": {"id": "xder2", "type": "Parameter", "tensor": [0.1, 0.5, -0.3]},
                                    "parameters": {"loc": {"id": "hcat1", "type": "CatParameter", "parameters": ["hslab1", "hlocal1"], "dim": -1}, "scale": 1.5}})
        effective = top
    elif fault == "shared-transform-argument":
        # the argument of a parametric transform is a reference to a parameter that something else (its prior) holds too
        jt = [d for t in top for d in walk_defs(t) if d["id"] == jid][0]
        top.insert(0, {"id": "pw1", "type": "Parameter", "tensor": [0.3, 0.7]})
        jt["distributions"].append({"id": "dw1", "type": "Distribution", "distribution": "torch.distributions.Normal", "x": "pw1", "parameters": {"loc": 0.5, "scale": 1.0}})
        jt["distributions"].append({"id": "dcc1", "type": "Distribution", "distribution": "torch.distributions.Normal",
                                    "x": {"id": "cc1", "type": "TransformedParameter", "transform": "ConvexCombinationTransform", "parameters": {"weights": "pw1"},
                                          "x": {"id": "scc1", "type": "Parameter", "tensor": [1.2, 0.8]}},
                                    "parameters": {"loc": 0.0, "scale": 1.0}})
        effective = top
    else:
        top, _ = inject(fault, top, rng)
        effective = top
    expected, why = interpret(copy.deepcopy(effective))
    through_main = fault in ("comments", "ignored", "plate", "nested-plate", "ignored-plate", "group") and case["seed"] % 2 == 0
    if through_main:
        C["loads_through_main"] = 1
    got, payload = load_through_main(top) if through_main else load_as_main(top)
    C["loads"] += 1
    C["expected_" + expected.lower()] += 1
    detail = {"specification": top, "expected": expected, "reason": why}
    if got == "ERROR":
        from ..worker import _blame

        if _blame(payload) is None:
            raise payload
        V.append(tt.viol("C13:wrong-exception:%s:%s" % (fault, type(payload).__name__), "loading raises %s (%s) instead of %s" % (type(payload).__name__, str(payload)[:120], "a parse error" if expected == "REJECT" else "succeeding"), **detail))
    elif expected == "REJECT" and got == "ACCEPT":
        kind = "duplicate" if "duplicate" in why else "undefined-reference"
        V.append(tt.viol("C13:accepted:%s:%s" % (kind, fault), "specification with %s is silently accepted" % why, **detail))
    elif expected == "ACCEPT" and got == "REJECT":
        V.append(tt.viol("C13:rejected-valid:%s" % fault, "well-formed specification rejected: %s" % payload[:200], **detail))
    if got == "ACCEPT" and expected == "ACCEPT":
        dic = payload
        # (a) one instance per id, identical to the registry entry
        C["graph_walks"] += 1
        groups = {}
        for o in reachable(dic):
            groups.setdefault(o.id, []).append(o)
        for i, objs in groups.items():
            if len({id(o) for o in objs}) > 1 or (i in dic and objs[0] is not dic[i]):
                V.append(tt.viol("C13:id-not-unique-instance", "id %s is carried by %d distinct reachable instances (or differs from the registry entry)" % (i, len({id(o) for o in objs})), **detail))
                break
        ids_expected = {d["id"] for t in effective for d in walk_defs(t)}
        missing = ids_expected - set(dic)
        extra = set(dic) - ids_expected
        if missing or extra:
            V.append(tt.viol("C13:registry-content:%s" % fault, "registry ids differ from the defined ids: missing %s extra %s" % (sorted(missing)[:5], sorted(extra)[:5]), **detail))
        val = tt.as_np(dic[jid](), "C13:not-a-tensor").sum()
        if fault in ("comments", "ignored", "plate", "group"):
            _, dic2 = tt.load(effective)
            val2 = tt.as_np(dic2[jid](), "C13:not-a-tensor").sum()
            C["noise_comparisons"] += 1
            if set(dic2) != set(dic) or abs(val - val2) > 1e-12 * max(1.0, abs(val2)):
                V.append(tt.viol("C13:no-effect:%s" % fault, "%s change the result: %.12g vs %.12g (registry equal: %s)" % (fault, val, val2, set(dic2) == set(dic)), **detail))
        # behavioural sharing: update through the registry, every holder must see it (compare with a rebuilt specification)
        pids = [d["id"] for t in effective for d in walk_defs(t) if d["type"] == "Parameter" and d["id"].startswith("p")]
        if pids:
            pid = str(rng.choice(pids))
            new = rng.normal(0, 1, len(dic[pid].tensor)).round(4)
            dic[pid].tensor = torch.tensor(new, dtype=dic[pid].tensor.dtype)
            v1 = tt.as_np(dic[jid](), "C13:not-a-tensor").sum()
            rebuilt = copy.deepcopy(effective)
            for d in (x for t in rebuilt for x in walk_defs(t)):
                if d["id"] == pid:
                    d["tensor"] = new.tolist()
            _, dic3 = tt.load(rebuilt)
            v2 = tt.as_np(dic3[jid](), "C13:not-a-tensor").sum()
            C["sharing_updates"] += 1
            if abs(v1 - v2) > 1e-9 * max(1.0, abs(v2)):
                V.append(tt.viol("C13:update-not-shared", "after updating %s through the registry the joint is %.12g, a rebuilt specification gives %.12g" % (pid, v1, v2), updated=pid, **detail))
        # (a'') after loading, every derived parameter is what its definition says about the current values of what it derives from
        from torchtree.core.parameter import CatParameter, TransformedParameter

        for oid, o in list(dic.items()):
            try:
                if isinstance(o, TransformedParameter) and type(o.transform).__name__ in ("ExpTransform", "LogTransform", "AffineTransform", "SigmoidTransform"):
                    want = o.transform(o.x.tensor)
                elif isinstance(o, CatParameter):
                    want = torch.cat([q.tensor for q in o._parameter_container.params()], o._dim)
                else:
                    continue
            except Exception:
                continue
            C["derived_parameters_consistent"] = C.get("derived_parameters_consistent", 0) + 1
            got_t = o.tensor
            if tuple(got_t.shape) != tuple(want.shape) or not bool(torch.allclose(got_t, want, rtol=1e-12, atol=0.0, equal_nan=True)):
                V.append(tt.viol("C13:derived-parameter-stale-after-load:%s" % type(o).__name__, "after loading, %s `%s' holds %s while its definition applied to the current values gives %s" % (type(o).__name__, oid, got_t.reshape(-1)[:4].tolist(), want.reshape(-1)[:4].tolist()), **detail))
                break
        # (a') every reference written as a string resolves to the registry instance *inside the object that holds it*
        def holds(obj, target, depth=0):
            if obj is target:
                return True
            if depth >= 4:
                return False
            if isinstance(obj, dict):
                return any(holds(v, target, depth + 1) for v in obj.values())
            if isinstance(obj, (list, tuple)):
                return any(holds(v, target, depth + 1) for v in obj)
            dd = getattr(obj, "__dict__", None)
            if isinstance(dd, dict) and type(obj).__module__.startswith(("torchtree", "torch.distributions")):
                return any(holds(v, target, depth + 1) for k, v in dd.items() if k not in ("listeners", "_model_listeners", "_parameter_listeners"))
            return False

        for ddef in (x for t in effective for x in walk_defs(t)):
            if ddef["id"] not in dic or V:
                continue
            for slot in REF_SLOTS.get(ddef["type"], []):
                vals = ddef.get(slot)
                if isinstance(vals, dict) and "id" in vals and "type" in vals:
                    continue  # an inline definition, not a reference
                vals = list(vals.values()) if isinstance(vals, dict) else (vals if isinstance(vals, list) else [vals])
                for ref in vals:
                    if isinstance(ref, str) and "{" not in ref and ref in dic and ref != "nucleotide":
                        C["reference_identity_checks"] = C.get("reference_identity_checks", 0) + 1
                        if not holds(dic[ddef["id"]], dic[ref]):
                            V.append(tt.viol("C13:reference-not-the-registry-instance:%s.%s" % (ddef["type"], slot), "%s `%s' refers to `%s' through `%s' but does not hold the registry object of that id (a copy or a snapshot of its value instead)" % (ddef["type"], ddef["id"], ref, slot), **detail))
                            break
        if fault == "shared-hyperparameter" and not V:
            _ = dic[jid]()  # every holder has computed from the old values
            for pid_, newv in (("hslab1", [0.6]), ("hlocal1", [1.9, 0.4]), ("hls1", [-0.4])):
                dic[pid_].tensor = torch.tensor(newv, dtype=dic[pid_].tensor.dtype)
            v1 = tt.as_np(dic[jid](), "C13:not-a-tensor").sum()
            rebuilt = copy.deepcopy(effective)
            for d in (x for t in rebuilt for x in walk_defs(t)):
                if d["type"] == "Parameter" and "tensor" in d and d["id"] in dic:
                    d["tensor"] = dic[d["id"]].tensor.detach().tolist()
            _, dic6 = tt.load(rebuilt)
            v2 = tt.as_np(dic6[jid](), "C13:not-a-tensor").sum()
            C["sharing_updates"] += 1
            if abs(v1 - v2) > 1e-9 * max(1.0, abs(v2)):
                V.append(tt.viol("C13:update-of-hyperparameter-not-shared", "after updating hslab1 / hlocal1 / hls1 (held by their hyper-priors, by the bridge bb1 and - through a view, a transform, a concatenation - by dder1 and dder2) the joint is %.12g, a rebuilt specification gives %.12g" % (v1, v2), **detail))
        if fault == "shared-transform-argument" and not V:
            neww = rng.dirichlet([2.0, 2.0]).round(4)
            dic["pw1"].tensor = torch.tensor(neww, dtype=dic["pw1"].tensor.dtype)
            v1 = tt.as_np(dic[jid](), "C13:not-a-tensor").sum()
            rebuilt = copy.deepcopy(effective)
            for d in (x for t in rebuilt for x in walk_defs(t)):
                if d["type"] == "Parameter" and "tensor" in d and d["id"] in dic:
                    d["tensor"] = dic[d["id"]].tensor.detach().tolist()
            _, dic5 = tt.load(rebuilt)
            v2 = tt.as_np(dic5[jid](), "C13:not-a-tensor").sum()
            C["sharing_updates"] += 1
            C["sharing_updates_transform_arguments"] = 1
            if abs(v1 - v2) > 1e-9 * max(1.0, abs(v2)):
                V.append(tt.viol("C13:update-of-transform-argument-not-shared", "after updating pw1 (held by its prior and, as `weights`, by the transform of cc1) the joint is %.12g, a rebuilt specification gives %.12g" % (v1, v2), updated="pw1", **detail))
        if fault in ("datatype-ok",) and not V and "dt1" in dic:
            C["datatype_identity_checks"] = 1
            if dic["aln"].data_type is not dic["dt1"]:
                V.append(tt.viol("C13:id-not-unique-instance", "the alignment's data type is not the registry object dt1", **detail))
        # the same through another holder of an id: a view onto a plain parameter is assigned, every other holder of that parameter sees it
        views = [d for t in effective for d in walk_defs(t) if d["type"] == "ViewParameter" and d["id"] in dic
                 and type(dic[d["id"]].parameter).__name__ == "Parameter" and not V]
        if views:
            vd = views[int(rng.integers(len(views)))]
            vw = dic[vd["id"]]
            _ = dic[jid]()  # every holder has been evaluated (caches filled) before the update arrives through the view
            vw.tensor = vw.tensor.detach() * float(rng.uniform(1.2, 1.9))  # stays on the same side of zero (scales stay positive)
            v1 = tt.as_np(dic[jid](), "C13:not-a-tensor").sum()
            rebuilt = copy.deepcopy(effective)
            for d in (x for t in rebuilt for x in walk_defs(t)):
                if d["type"] == "Parameter" and "tensor" in d and d["id"] in dic:
                    d["tensor"] = dic[d["id"]].tensor.detach().tolist()  # every plain parameter as it stands now
            _, dic4 = tt.load(rebuilt)
            v2 = tt.as_np(dic4[jid](), "C13:not-a-tensor").sum()
            C["sharing_updates"] += 1
            C["sharing_updates_through_views"] = C.get("sharing_updates_through_views", 0) + 1
            if abs(v1 - v2) > 1e-9 * max(1.0, abs(v2)):
                V.append(tt.viol("C13:update-through-view-not-shared", "after assigning through the view %s the joint is %.12g, a rebuilt specification holding the same values gives %.12g" % (vd["id"], v1, v2), updated=vd["id"], **detail))
    fp = None
    if g.refs > 0 or fault != "none":
        import hashlib

        fp = hashlib.md5(fingerprint_of(top).encode()).hexdigest()[:16]
    sample = {"fault": fault, "expected": expected, "library": got, "specification": top} if len(json.dumps(top)) < 1500 else None
    return {"violations": V, "counters": C, "fingerprint": fp, "sample": sample}


# ---------------------------------------------------------------- json_factory round trips
def run_factory(case):
    import torch
    from torchtree import Parameter, ViewParameter
    from torchtree.distributions.distributions import Distribution

    V = []
    C = {"loads": 0, "expected_reject": 0, "expected_accept": 0, "graph_walks": 0, "sharing_updates": 0, "noise_comparisons": 0, "factory_round_trips": 0, "faults": ["factory"]}
    rng = np.random.default_rng(case["seed"])
    which = int(rng.integers(6))
    detail = {"case": case}

    def same(a, b, what):
        C["factory_round_trips"] += 1
        a, b = np.asarray(a, dtype=float), np.asarray(b, dtype=float)
        if a.shape != b.shape or np.abs(a - b).max() > 1e-12 * max(1.0, np.abs(b).max()):
            V.append(tt.viol("C13:json_factory:" + what, "%s: object from json_factory evaluates to %s, directly constructed object to %s" % (what, a.reshape(-1)[:4], b.reshape(-1)[:4]), **detail))

    d = int(rng.integers(1, 5))
    vals = rng.normal(0, 1, d).round(4).tolist()
    if which == 0:
        kinds = [("tensor", dict(tensor=vals), torch.tensor(vals)),
                 ("full", dict(full=[d], tensor=0.25), torch.full((d,), 0.25)),
                 ("zeros", dict(zeros=[d]), torch.zeros(d)), ("ones", dict(ones=[d]), torch.ones(d)), ("eye", dict(eye=d), torch.eye(d))]
        name, kw, direct = kinds[int(rng.integers(len(kinds)))]
        _, dic = tt.load(Parameter.json_factory("p", **kw, dtype="torch.float64"))
        same(tt.as_np(dic["p"].tensor, "C13:json_factory:not-a-tensor"), direct.numpy(), "Parameter:" + name)
    elif which == 1:
        base = Parameter.json_factory("p", tensor=vals + [0.5], dtype="torch.float64")
        idx = "0:%d" % max(1, d - 1)
        _, dic = tt.load(ViewParameter.json_factory("v", base, idx))
        direct = ViewParameter(None, Parameter(None, torch.tensor(vals + [0.5], dtype=torch.float64)), slice(0, max(1, d - 1)))
        same(tt.as_np(dic["v"].tensor, "C13:json_factory:not-a-tensor"), direct.tensor.numpy(), "ViewParameter")
    elif which == 2:
        x = Parameter.json_factory("x", tensor=vals, dtype="torch.float64")
        spec = Distribution.json_factory("d", "torch.distributions.Normal", x, {"loc": 0.3, "scale": 1.7})
        _, dic = tt.load(spec)
        xp = Parameter(None, torch.tensor(vals, dtype=torch.float64))
        direct = Distribution(None, torch.distributions.Normal, xp, {"loc": Parameter(None, torch.tensor(0.3, dtype=torch.float64)), "scale": Parameter(None, torch.tensor(1.7, dtype=torch.float64))})
        same(tt.as_np(dic["d"](), "C13:json_factory:not-a-tensor"), direct().numpy(), "Distribution")
    elif which == 3:
        from torchtree.distributions.bayesian_bridge import BayesianBridge

        x = Parameter.json_factory("x", tensor=vals, dtype="torch.float64")
        sc = Parameter.json_factory("sc", tensor=[1.3], dtype="torch.float64")
        al = Parameter.json_factory("al", tensor=[0.7], dtype="torch.float64")
        _, dic = tt.load(BayesianBridge.json_factory("bb", x, sc, al))
        T = lambda v: Parameter(None, torch.tensor(v, dtype=torch.float64))
        direct = BayesianBridge(None, T(vals), T([1.3]), alpha=T([0.7]))
        same(tt.as_np(dic["bb"](), "C13:json_factory:not-a-tensor"), direct().detach().numpy(), "BayesianBridge")
    elif which == 4:
        from torchtree.distributions.scale_mixture import ScaleMixtureNormal

        x = Parameter.json_factory("x", tensor=vals, dtype="torch.float64")
        gs = Parameter.json_factory("gs", tensor=[0.8], dtype="torch.float64")
        ls = Parameter.json_factory("ls", tensor=np.exp(rng.normal(0, 0.3, d)).round(4).tolist(), dtype="torch.float64")
        spec = ScaleMixtureNormal.json_factory("sm", x, 0.0, gs, ls)
        _, dic = tt.load(spec)
        T = lambda v: Parameter(None, torch.tensor(v, dtype=torch.float64))
        direct = ScaleMixtureNormal(None, T(vals), 0.0, T([0.8]), T(ls["tensor"]))
        same(tt.as_np(dic["sm"](), "C13:json_factory:not-a-tensor"), direct().detach().numpy(), "ScaleMixtureNormal")
    else:
        from torchtree.evolution.tree_model import ReparameterizedTimeTreeModel, TimeTreeModel, UnRootedTreeModel

        taxa = {"A": 0.0, "B": float(rng.uniform(0, 1)), "C": 0.0, "D": float(rng.uniform(0, 1))}
        nwk = "((A:0.1,B:0.2):0.3,(C:0.15,D:0.25):0.2);"
        k = int(rng.integers(3))
        # keyword passed explicitly as False must mean the same as leaving it out; True (unrooted) takes the lengths of the newick
        keep = [None, False, True][int(rng.integers(3))]
        kw = {} if keep is None else {"keep_branch_lengths": keep}
        C["factory_keywords"] = ["keep_branch_lengths=%s" % keep]
        if k == 0:
            spec = UnRootedTreeModel.json_factory("tree", nwk, [0.1, 0.2, 0.3, 0.4, 0.5], taxa, **kw)
            hand = {"id": "tree", "type": "UnRootedTreeModel", "newick": nwk, "branch_lengths": {"id": "bl", "type": "Parameter", "tensor": [0.1, 0.2, 0.3, 0.4, 0.5]},
                    "taxa": {"id": "taxa", "type": "Taxa", "taxa": [{"id": t, "type": "Taxon"} for t in taxa]}}
            f = lambda m: m.branch_lengths()
            name = "UnRootedTreeModel"
        elif k == 1:
            kw = {} if keep is not False else kw
            spec = TimeTreeModel.json_factory("tree", nwk, [1.5, 1.6, 2.0], taxa, internal_heights_id="h", **kw)
            hand = {"id": "tree", "type": "TimeTreeModel", "newick": nwk, "internal_heights": {"id": "h", "type": "Parameter", "tensor": [1.5, 1.6, 2.0]},
                    "taxa": {"id": "taxa", "type": "Taxa", "taxa": [{"id": t, "type": "Taxon", "attributes": {"date": v}} for t, v in taxa.items()]}}
            f = lambda m: m.branch_lengths()
            name = "TimeTreeModel"
        else:
            kw = {} if keep is not False else kw
            spec = ReparameterizedTimeTreeModel.json_factory("tree", nwk, taxa, ratios=[0.4, 0.6], root_height=[2.5], **kw)
            hand = {"id": "tree", "type": "ReparameterizedTimeTreeModel", "newick": nwk, "ratios": {"id": "ratios", "type": "Parameter", "tensor": [0.4, 0.6]},
                    "root_height": {"id": "root_height", "type": "Parameter", "tensor": [2.5]},
                    "taxa": {"id": "taxa", "type": "Taxa", "taxa": [{"id": t, "type": "Taxon", "attributes": {"date": v}} for t, v in taxa.items()]}}
            f = lambda m: m.branch_lengths()
            name = "ReparameterizedTimeTreeModel"
        _, dic = tt.load(spec)
        _, dic2 = tt.load(hand)
        if k == 0 and keep is True:
            # the two root branches are merged on the unrooted tree
            same(np.sort(tt.as_np(f(dic["tree"]), "C13:json_factory:not-a-tensor").reshape(-1)), np.sort(np.array([0.1, 0.2, 0.15, 0.25, 0.5])), name + ":keep_branch_lengths=True")
        else:
            same(tt.as_np(f(dic["tree"]), "C13:json_factory:not-a-tensor"), tt.as_np(f(dic2["tree"]), "x"), name + ("" if keep is None else ":keep_branch_lengths=%s" % keep))
    return {"violations": V, "counters": C, "fingerprint": "factory|%d|%d" % (which, case["seed"]), "sample": None}
