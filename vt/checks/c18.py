"""C18 - a crash while writing a checkpoint never loses the last good checkpoint.

Fault enumeration: the file-system shim (vt.mon.fsshim) numbers every disk-affecting operation of a checkpoint
write as a crash point; the write is killed before each of them, the directory read back by an independent
checker; from every crashed state a further write is started and killed again at every point (depth 2
exhaustively, depth 3-4 on seeded paths).  A second engine kills a real child process (SIGKILL) on the real file
system to validate the in-process model; the write is also driven by the real MCMC / Optimizer call sites."""
from __future__ import annotations

import json
import os
import subprocess
import sys
import tempfile

import numpy as np

from .. import tt
from ..mon import fsshim

PROPERTY = "C18"
LEVEL = "fault_enumeration"
RULE = ("crash points = every disk-affecting operation (create/truncate, each buffer write-out, rename, remove) of "
        "save_parameters(name, params) over an existing checkpoint, for user-space buffer sizes {1, 16, 64, 8192}; depth 1 and depth 2 "
        "(a second write started from every crashed state, killed at every point) enumerated completely, depth 3-4 on seeded paths; real "
        "SIGKILL of a child process at sampled points; MCMC / Optimizer call sites with checkpointing on; non-trivial = crash state in which at "
        "least one file differs from the directory before the write; distinct by (files present, which are complete, versions)")
ASSUMPTIONS = [
    "process death, not power loss: data handed to the OS survives, data still in the user-space buffer is lost; rename/remove are atomic",
    "scope: the rolling checkpoint written with the default protocol (safely=True, overwrite=False), which is what Optimizer, MCMC and HMC use for their checkpoint file; the very first write (no existing checkpoint) is outside the statement",
]
BUDGET = {"quick": 70, "thorough": 700}
FLOORS = {"crash_points": {"quick": 3000, "thorough": 100000}, "directory_states_checked": {"quick": 3000, "thorough": 100000},
          "depth2_states": {"quick": 1500, "thorough": 50000}, "real_kills": {"quick": 20, "thorough": 150}, "driver_saves": 8, "interrupt_points": 100, "driver_runs_stopped_by_sigint": 3, "denied_temp_file_points": 2, "nonfinite_state_points": 10}

NAME = "/ckpt/checkpoint.json"


def EXHAUSTIVE(tier):
    return True


def cases(tier, seed):
    rng = np.random.default_rng([seed, 18])
    out = []
    for bs in (1, 16, 64, 8192):
        for npar in (1, 3):
            out.append({"engine": "shim", "depth": 1, "bufsize": bs, "npar": npar})
    # depth 2: exhaustive over (k1, k2); sharded by blocks of k1
    d2 = [(16, 3), (64, 3)] if tier == "quick" else [(1, 1), (1, 3), (16, 3), (64, 3), (8192, 3)]
    for bs, npar in d2:
        n1 = count_ops(bs, npar)
        step = max(1, n1 // 12)
        for lo in range(0, n1 + 1, step):
            out.append({"engine": "shim", "depth": 2, "bufsize": bs, "npar": npar, "k1_lo": lo, "k1_hi": min(lo + step, n1 + 1)})
    if tier == "quick":
        n1 = count_ops(1, 1)
        ks = sorted(set([0, 1, 2, n1 - 3, n1 - 2, n1 - 1, n1] + rng.integers(0, n1 + 1, 10).tolist()))
        for k in ks:
            out.append({"engine": "shim", "depth": 2, "bufsize": 1, "npar": 1, "k1_lo": int(k), "k1_hi": int(k) + 1})
    for i in range(60 if tier == "quick" else 1500):
        out.append({"engine": "shim", "depth": int(rng.integers(3, 5)), "bufsize": int(rng.choice([1, 16, 64])), "npar": int(rng.choice([1, 3])), "seed": int(rng.integers(2**31))})
    # the temporary file cannot be created (a directory sits at its name, the name is too long, no space): the write fails - and
    # whatever it does instead must not endanger the existing checkpoint either; every crash point of that
    for bs in (1, 64):
        out.append({"engine": "shim-denied", "bufsize": bs, "npar": 2})
        out.append({"engine": "shim-nonfinite", "bufsize": bs, "npar": 2})
    # real process death: both ends of the write (open, first writes, close, renames, remove) and interior points
    pos = [("abs", 0), ("abs", 1), ("abs", 2)] + [("end", j) for j in range(0, 6)]
    pos += [("frac", float(f)) for f in rng.uniform(0.02, 0.98, 6 if tier == "quick" else 120)]
    for p in pos:
        for start in ("clean", "between-renames", "symlink"):  # symlink: the checkpoint name is a link to a file elsewhere (scratch space)
            out.append({"engine": "sigkill", "pos": list(p), "start": start})
    # death through an exception at every operation (the interpreter unwinds: files are closed, finally clauses run)
    for start in ("clean", "between-renames"):
        for bufsize in (1, 64):
            out.append({"engine": "interrupt", "start": start, "bufsize": bufsize, "npar": 2})
    for alg in ("mcmc", "optimizer", "optimizer-lbfgs", "hmc-class", "mcmc+sigint", "optimizer+sigint", "optimizer-lbfgs+sigint", "optimizer+all", "optimizer-lbfgs+all", "optimizer+all-noext", "optimizer-lbfgs+all-noext"):  # +sigint: the user stops the run with Ctrl-C after two saves; whatever is written on the way out is a checkpoint write too  # Optimizer has two code paths (_run, _run_closure for LBFGS); HMC is the standalone sampler class
        out.append({"engine": "driver", "algorithm": alg, "bufsize": 64})
    return out


def params(version, npar):
    import torch
    from torchtree import Parameter

    if version == NONFINITE:  # a diverged state (what a run that went wrong holds when its next checkpoint is due)
        return [Parameter("p%d" % i, torch.tensor([float("nan"), float("inf") if i % 2 else float("-inf"), -1.5 * version], dtype=torch.float64)) for i in range(npar)]
    return [Parameter("p%d" % i, torch.tensor([float(version), version + 0.25 * i, -1.5 * version], dtype=torch.float64)) for i in range(npar)]


NONFINITE = 9


def encoded(version, npar):
    from torchtree.core.parameter_encoder import ParameterEncoder

    return json.loads(json.dumps(params(version, npar), cls=ParameterEncoder, indent=2))


def count_ops(bufsize, npar):
    from torchtree.core.parameter_utils import save_parameters

    vfs = fsshim.VFS({NAME: b"x"}, bufsize)
    with fsshim.installed(vfs):
        save_parameters(NAME, params(1, npar))
    return len(vfs.ops)


def write_once(files, bufsize, crash_at, version, npar):
    """one (possibly killed) checkpoint write starting from directory `files` -> (files after, ops done, died)"""
    from torchtree.core.parameter_utils import save_parameters

    vfs = fsshim.VFS(files, bufsize, crash_at)
    died = False
    with fsshim.installed(vfs):
        try:
            save_parameters(NAME, params(version, npar))
        except fsshim.Crash:
            died = True
    return vfs.files, vfs.ops, died


def write_interrupted(files, bufsize, interrupt_at, version, npar):
    """one checkpoint write that dies through an exception raised at operation `interrupt_at` -> (files after, raised?)"""
    from torchtree.core.parameter_utils import save_parameters

    vfs = fsshim.VFS(files, bufsize, interrupt_at=interrupt_at)
    raised = False
    with fsshim.installed(vfs):
        try:
            save_parameters(NAME, params(version, npar))
        except fsshim.Interrupt:
            raised = True
    return vfs.files, raised


def classify(files, versions, npar):
    """independent directory checker -> dict name -> ('missing' | 'truncated' | 'mixture' | version number)"""
    out = {}
    for suffix in ("", ".old", ".new"):
        p = NAME + suffix
        if p not in files:
            out[suffix] = "missing"
            continue
        try:
            doc = json.loads(files[p].decode())
        except ValueError:
            out[suffix] = "truncated"
            continue
        out[suffix] = "mixture"
        for v in versions:
            if json.dumps(doc, sort_keys=True) == json.dumps(encoded(v, npar), sort_keys=True):  # (as text: a NaN is not equal to itself)
                out[suffix] = v
    return out


def judge(V, C, seen, files_before, files, versions_ok, npar, depth, where):
    """versions_ok = the versions completely present before this write (any of them is 'a previous complete
    checkpoint' after a sequence of interrupted writes) and the one being written"""
    C["directory_states_checked"] += 1
    st = classify(files, range(0, max(versions_ok) + 1), npar)  # every version ever written
    key = tuple(sorted(st.items()))
    if files != files_before:
        seen.add((depth,) + key)
    start = "+".join(sorted(s or "name" for s, v in classify(files_before, range(0, 10), npar).items() if v != "missing"))
    complete = [v for v in st.values() if isinstance(v, int)]
    if any(v == "mixture" for v in st.values()):
        V.append(tt.viol("C18:mixture:depth%d" % depth, "%s: a file parses but is neither the previous nor the new checkpoint: %s" % (where, st), state=st, start=start))
    if not any(v in versions_ok for v in complete):
        V.append(tt.viol("C18:no-complete-checkpoint:depth%d:start=%s" % (depth, start), "%s: neither the previous (%s) nor the new checkpoint is completely present: %s" % (where, sorted(versions_ok), st), state=st, start=start))
    if st[""] in ("truncated", "mixture"):
        V.append(tt.viol("C18:name-truncated:depth%d:start=%s" % (depth, start), "%s: the checkpoint name refers to a %s file (siblings: .old=%s .new=%s; directory before this write: %s)" % (where, st[""], st[".old"], st[".new"], start), state=st, start=start))
    return st


def complete_versions(files, npar, upto):
    """every version that is completely present (under any of the three names) in this directory"""
    st = classify(files, range(0, upto + 1), npar)
    return {v for v in st.values() if isinstance(v, int)}


def run_case(case):
    eng = case["engine"]
    V = []
    C = {"crash_points": 0, "directory_states_checked": 0, "depth2_states": 0, "deep_paths": 0, "real_kills": 0, "driver_saves": 0, "shim_operations_intercepted": 0}
    seen = set()
    if eng == "interrupt":
        npar, bs = case["npar"], case["bufsize"]
        good = json.dumps(encoded(1, npar), indent=2).encode()
        v2 = json.dumps(encoded(2, npar), indent=2).encode()
        before = {NAME: good} if case["start"] == "clean" else {NAME + ".old": good, NAME + ".new": v2}
        present = {1} if case["start"] == "clean" else {1, 2}
        probe = fsshim.VFS(dict(before), bs)
        from torchtree.core.parameter_utils import save_parameters

        with fsshim.installed(probe):
            save_parameters(NAME, params(3, npar))
        total = len(probe.ops)
        for k in range(total):
            files, raised = write_interrupted(dict(before), bs, k, 3, npar)
            if not raised:
                continue
            C["crash_points"] += 1
            C["interrupt_points"] = C.get("interrupt_points", 0) + 1
            st = judge(V, C, seen, before, files, present | {3}, npar, 1, "exception at operation %d/%d of a write (start %s)" % (k, total, case["start"]))
            # the next write after the interrupted one completes and leaves a good directory
            files2, _, died = write_once(files, bs, None, 4, npar)
            judge(V, C, seen, files, files2, complete_versions(files, npar, 4) | {4}, npar, 2, "complete write after an exception at operation %d/%d" % (k, total))
        return {"violations": V, "counters": C, "fingerprint": None, "fingerprints": ["|".join(map(str, x)) for x in sorted(seen, key=str)], "sample": None}
    if eng == "shim":
        bs, npar = case["bufsize"], case["npar"]
        from torchtree.core.parameter_encoder import ParameterEncoder

        base = {NAME: json.dumps(params(1, npar), cls=ParameterEncoder, indent=2).encode()}
        n1 = count_ops(bs, npar)
        if case["depth"] == 1:
            for k in range(n1 + 1):
                files, ops, died = write_once(base, bs, k, 2, npar)
                C["crash_points"] += 1
                C["shim_operations_intercepted"] += len(ops)
                judge(V, C, seen, base, files, {1, 2}, npar, 1, "crash before operation %d/%d (bufsize %d)" % (k, n1, bs))
        elif case["depth"] == 2:
            for k1 in range(case["k1_lo"], case["k1_hi"]):
                f1, ops1, died = write_once(base, bs, k1, 2, npar)
                C["crash_points"] += 1
                g = complete_versions(f1, npar, 2)
                if not g:
                    continue  # already reported at depth 1
                n2 = len(write_once(f1, bs, None, 3, npar)[1])
                for k2 in range(n2 + 1):
                    f2, ops2, _ = write_once(f1, bs, k2, 3, npar)
                    C["crash_points"] += 1
                    C["depth2_states"] += 1
                    C["shim_operations_intercepted"] += len(ops2)
                    judge(V, C, seen, f1, f2, g | {3}, npar, 2, "first write killed before op %d, second before op %d/%d (bufsize %d)" % (k1, k2, n2, bs))
        else:
            rng = np.random.default_rng(case["seed"])
            files = dict(base)
            for step in range(case["depth"]):
                v = 2 + step
                g = complete_versions(files, npar, v)
                if not g:
                    break
                n = len(write_once(files, bs, None, v, npar)[1])
                # bias towards the interesting end of the write (renames / remove)
                k = int(rng.integers(max(0, n - 4), n + 1)) if rng.random() < 0.6 else int(rng.integers(0, n + 1))
                f2, ops, _ = write_once(files, bs, k, v, npar)
                C["crash_points"] += 1
                judge(V, C, seen, files, f2, g | {v}, npar, step + 1, "path step %d killed before op %d/%d" % (step, k, n))
                files = f2
            C["deep_paths"] += 1
    elif eng == "shim-nonfinite":
        # the state to be saved holds nan / inf (a diverged run): whatever the writer does with it - write it (Python's JSON has tokens for
        # them), refuse it - the directory afterwards, and at every crash point on the way, still holds a complete checkpoint
        from torchtree.core.parameter_encoder import ParameterEncoder
        from torchtree.core.parameter_utils import save_parameters

        bs, npar = case["bufsize"], case["npar"]
        base = {NAME: json.dumps(params(1, npar), cls=ParameterEncoder, indent=2).encode()}
        k, total = None, None
        while True:
            vfs = fsshim.VFS(base, bs, crash_at=k)
            outcome = "completed"
            with fsshim.installed(vfs):
                try:
                    save_parameters(NAME, params(NONFINITE, npar))
                except fsshim.Crash:
                    outcome = "killed"
                except Exception as ex:  # a writer may refuse such a state: the directory is judged all the same
                    outcome = "raised " + type(ex).__name__
            C["crash_points"] += 1
            C["nonfinite_state_points"] = C.get("nonfinite_state_points", 0) + 1
            C["shim_operations_intercepted"] += len(vfs.ops)
            judge(V, C, seen, base, vfs.files, {1, NONFINITE}, npar, 1, "state with nan/inf, %s (write %s)" % ("not interrupted" if k is None else "killed before operation %d" % k, outcome))
            if k is None:
                total, k = len(vfs.ops), 0
            else:
                k += 1
            if k > total:
                break
    elif eng == "shim-denied":
        run_denied(case, V, C, seen)
    elif eng == "sigkill":
        run_sigkill(case, V, C, seen)
    else:
        run_driver(case, V, C, seen)
    fps = sorted(repr(s) for s in seen)
    sample = None
    if eng == "shim" and case["depth"] == 1 and case["bufsize"] == 64 and case["npar"] == 1:
        files, ops, _ = write_once({NAME: b"{}"}, 64, None, 2, 1)
        sample = {"operations_of_one_write": [list(o) for o in ops]}
    return {"violations": V, "counters": C, "fingerprint": None, "fingerprints": fps, "sample": sample}


CHILD = r"""
import os, sys, signal, json
sys.path[:0] = %(path)r
import torch
from torchtree import Parameter
import torchtree.core.parameter_utils as pu
k = int(sys.argv[1]); name = sys.argv[2]; version = int(sys.argv[3])
count = [0]
def point():
    if count[0] == k:
        os.kill(os.getpid(), signal.SIGKILL)
    count[0] += 1
real_open, real_os = open, os
class F:
    def __init__(self, f): self.f = f
    def write(self, s): point(); return self.f.write(s)
    def __enter__(self): return self
    def __exit__(self, *a): point(); self.f.close(); return False
    def fileno(self): raise AttributeError("no descriptor: copies go through write()")
    def __getattr__(self, n): return getattr(self.f, n)
def my_open(p, mode='r', *a, **kw): point(); return F(real_open(p, mode, *a, **kw))
import builtins
builtins.open = my_open  # whatever the write uses to produce files (shutil, ...) goes through the same points
class OS:
    path = os.path
    def rename(self, a, b): point(); return real_os.rename(a, b)
    def remove(self, a): point(); return real_os.remove(a)
    def __getattr__(self, n): return getattr(real_os, n)
pu.open = my_open; pu.os = OS()
params = [Parameter("p%%d" %% i, torch.tensor([float(version), version + 0.25 * i, -1.5 * version], dtype=torch.float64)) for i in range(1)]
pu.save_parameters(name, params)
print("OPS", count[0])
"""


def run_denied(case, V, C, seen):
    from torchtree.core.parameter_utils import save_parameters

    bs, npar = case["bufsize"], case["npar"]
    good = json.dumps(encoded(1, npar), indent=2).encode()
    before = {NAME: good}
    k = 0
    while True:
        vfs = fsshim.VFS(dict(before), bs, crash_at=k, deny={NAME + ".new"})
        outcome = "completed"
        with fsshim.installed(vfs):
            try:
                save_parameters(NAME, params(2, npar))
            except fsshim.Crash:
                outcome = "crashed"
            except OSError:
                outcome = "failed"
        C["crash_points"] += 1
        C["denied_temp_file_points"] = C.get("denied_temp_file_points", 0) + 1
        judge(V, C, seen, before, vfs.files, {1, 2}, npar, 1, "temporary file cannot be created, killed before operation %d (%s)" % (k, outcome))
        if outcome != "crashed" or k > 5000:
            break
        k += 1


def run_sigkill(case, V, C, seen):
    """real process death on the real file system; points are taken coarsely (json.dump issues hundreds of write calls)"""
    from torchtree.core.parameter_encoder import ParameterEncoder

    d = tempfile.mkdtemp(prefix="vt-c18-", dir="/dev/shm" if os.path.isdir("/dev/shm") else None)
    try:
        name = os.path.join(d, "checkpoint.json")
        good = json.dumps(params(1, 1), cls=ParameterEncoder, indent=2)
        v2 = json.dumps(params(2, 1), cls=ParameterEncoder, indent=2)
        if case["start"] == "clean":
            open(name, "w").write(good)
            G = 1
        elif case["start"] == "symlink":
            os.mkdir(os.path.join(d, "scratch"))
            open(os.path.join(d, "scratch", "target.json"), "w").write(good)
            os.symlink(os.path.join("scratch", "target.json"), name)
            G = 1
            C["symlinked_checkpoint_kills"] = C.get("symlinked_checkpoint_kills", 0) + 1
        else:
            # the state a crash between the two renames leaves behind: {name.old: v1, name.new: v2}
            open(name + ".old", "w").write(good)
            open(name + ".new", "w").write(v2)
            G = 2
        code = CHILD % {"path": [p for p in sys.path if p]}
        # total number of points of this write (probed on a name in the same kind of starting state)
        if case["start"] == "symlink":
            open(os.path.join(d, "scratch", "probe-target.json"), "w").write(good)
            os.symlink(os.path.join("scratch", "probe-target.json"), os.path.join(d, "probe.json"))
        elif case["start"] == "clean":
            open(os.path.join(d, "probe.json"), "w").write(good)
        else:
            open(os.path.join(d, "probe.json.old"), "w").write(good)
            open(os.path.join(d, "probe.json.new"), "w").write(v2)
        probe = subprocess.run([sys.executable, "-c", code, "-1", os.path.join(d, "probe.json"), "3"], capture_output=True, text=True, timeout=120)
        total = int(probe.stdout.split("OPS")[1]) if "OPS" in probe.stdout else None
        if total is None:
            raise RuntimeError("child probe failed: " + probe.stderr[-400:])
        for suffix in ("", ".old", ".new"):
            try:
                os.remove(os.path.join(d, "probe.json") + suffix)
            except OSError:
                pass
        if case["start"] == "symlink" and os.path.exists(os.path.join(d, "scratch", "probe-target.json")):
            os.remove(os.path.join(d, "scratch", "probe-target.json"))
        # map the coarse index k (0..8) onto the child's own operation count: both ends and evenly spaced interior points
        kind, val = case["pos"]
        kk = int(val) if kind == "abs" else (total - int(val) if kind == "end" else int(round(val * total)))
        kk = max(0, min(total, kk))
        r = subprocess.run([sys.executable, "-c", code, str(kk), name, "3"], capture_output=True, text=True, timeout=120)
        C["real_kills"] += 1
        C["crash_points"] += 1
        files = {}
        for suffix in ("", ".old", ".new"):
            p = name + suffix
            if os.path.lexists(p):
                files[NAME + suffix] = open(p, "rb").read() if os.path.exists(p) else b""
        before = {NAME: good.encode()} if case["start"] in ("clean", "symlink") else {NAME + ".old": good.encode(), NAME + ".new": v2.encode()}
        if r.returncode not in (0, -9):
            raise RuntimeError("child failed: rc=%s %s" % (r.returncode, r.stderr[-400:]))
        judge(V, C, seen, before, files, ({1} if case["start"] in ("clean", "symlink") else {1, 2}) | {3}, 1, 1 if case["start"] in ("clean", "symlink") else 2, "real SIGKILL before operation %d/%d (start %s)" % (kk, total, case["start"]))
    finally:
        import shutil

        shutil.rmtree(d, ignore_errors=True)


def run_driver(case, V, C, seen):
    """the real call sites: MCMC / Optimizer with a checkpoint file, every save intercepted and killed at every point"""
    import torch

    alg = case["algorithm"]
    sigint = alg.endswith("+sigint")
    every = "+all" in alg  # checkpoint_all: one file per epoch (documented option); "-noext": the name does not end in .json
    name = NAME.replace(".json", ".ckpt") if alg.endswith("-noext") else NAME
    alg = alg.split("+")[0]
    joint = {"id": "joint", "type": "JointDistributionModel", "distributions": [
        {"id": "prior", "type": "Distribution", "distribution": "torch.distributions.Normal",
         "x": {"id": "x", "type": "Parameter", "tensor": [0.3, -0.2], "dtype": "torch.float64"}, "parameters": {"loc": 0.0, "scale": 1.0}}]}
    if alg == "hmc-class":
        spec = [joint, {"id": "mcmc", "type": "HMC", "joint": "joint", "parameters": ["x"], "iterations": 4, "checkpoint": NAME, "checkpoint_frequency": 1, "every": 1,
                        "integrator": {"id": "integrator", "type": "LeapfrogIntegrator", "steps": 2, "step_size": 0.1}}]
    elif alg == "mcmc":
        spec = [joint, {"id": "mcmc", "type": "MCMC", "joint": "joint", "iterations": 4, "checkpoint": NAME, "checkpoint_frequency": 1,
                        "operators": [{"id": "op", "type": "SlidingWindowOperator", "parameters": "x", "weight": 1.0, "width": 0.5}], "loggers": []}]
    else:
        spec = [joint, {"id": "mcmc", "type": "Optimizer", "algorithm": "torch.optim.SGD", "options": {"lr": 0.01}, "maximize": True, "loss": "joint",
                        "parameters": ["x"], "iterations": 4, "checkpoint": NAME, "checkpoint_frequency": 1, "convergence": None}]
        spec[1].pop("convergence")
        if alg == "optimizer-lbfgs":
            spec[1].update(algorithm="torch.optim.LBFGS", options={"lr": 0.1, "max_iter": 2})
        if every:
            spec[1].update(checkpoint=name, checkpoint_all=True)
            C["driver_runs_with_one_file_per_epoch"] = C.get("driver_runs_with_one_file_per_epoch", 0) + 1
    import signal

    def arm(vfs_):
        """deliver SIGINT to this process when the second save has finished (just before the third one would start)"""
        if not sigint:
            return
        real_op = vfs_._op

        def _op(name, *a):
            out = real_op(name, *a)
            if len(vfs_.ops) == sigint_after and not getattr(vfs_, "_sigint_sent", False):
                vfs_._sigint_sent = True
                signal.raise_signal(signal.SIGINT)
            return out

        vfs_._op = _op

    def run_it():
        objs, dic = tt.load(spec)
        dic["x"].requires_grad = alg not in ("mcmc", "hmc-class")
        try:
            dic["mcmc"].run()
        finally:
            signal.signal(signal.SIGINT, signal.default_int_handler)

    sigint_after = None
    if sigint:
        vfs0 = fsshim.VFS({}, case["bufsize"])
        with fsshim.installed(vfs0):
            sigint, keep = False, True
            run_it()
            sigint = keep
        c0 = [i for i, o in enumerate(vfs0.ops) if o[0] == "create"]
        if len(c0) < 3:
            return
        sigint_after = c0[2]  # number of operations of the first two saves
        C["driver_runs_stopped_by_sigint"] = C.get("driver_runs_stopped_by_sigint", 0) + 1
    # pass 1: record how many operations each save performs
    vfs = fsshim.VFS({}, case["bufsize"])
    arm(vfs)
    with fsshim.installed(vfs):
        run_it()
    total = len(vfs.ops)
    creates = [i for i, o in enumerate(vfs.ops) if o[0] == "create"]
    C["driver_saves"] += len(creates)
    C["shim_operations_intercepted"] += total
    modes = {o[1].replace(NAME, "name") for o in vfs.ops if o[0] == "create"}
    if len(creates) < 2:
        return
    # pass 2: kill the run before every operation after the first complete save; judge the directory.  Second variant: the directory
    # already holds the checkpoint of an earlier run (a resumed or repeated run): then the very first write is an overwrite too
    earlier = {NAME: json.dumps([{"id": "x", "type": "Parameter", "tensor": [9.0, 9.0]}]).encode()}
    runs = [(k, {}) for k in range(creates[1], total + 1)] + [(k, earlier) for k in range(0, total + 1)]
    repeated = None
    if every:
        # third variant: the run is repeated in a directory that still holds the per-epoch files of an earlier, complete run (same names):
        # every one of its writes is then a write over an existing checkpoint
        repeated = {p_: earlier[NAME] for p_ in vfs.files}
        runs += [(k, repeated) for k in range(0, total + 1)]
    for k, start in runs:
        if start:
            C["driver_kills_over_an_earlier_checkpoint"] = C.get("driver_kills_over_an_earlier_checkpoint", 0) + 1
        vfs2 = fsshim.VFS(dict(start), case["bufsize"], crash_at=k)
        arm(vfs2)
        torch.manual_seed(0)
        with fsshim.installed(vfs2):
            try:
                run_it()
            except fsshim.Crash:
                pass
        C["crash_points"] += 1
        C["directory_states_checked"] += 1
        if every:
            # one file per epoch: whatever the names, once a checkpoint has been completed a complete one exists at every later moment
            st = {}
            for p_, b_ in vfs2.files.items():
                try:
                    json.loads(b_.decode())
                    st[p_] = "complete"
                except ValueError:
                    st[p_] = "truncated"
            seen.add(("driver", case["algorithm"]) + tuple(sorted(st.values())))
            if st.get(NAME) == "truncated" or st.get(name) == "truncated":
                V.append(tt.viol("C18:driver:name-truncated:%s:one-file-per-epoch" % alg, "%s run with checkpoint_all killed before operation %d/%d leaves a truncated file under the checkpoint name: %s" % (alg, k, total, st), state=st))
            if start is repeated:
                C["driver_kills_of_a_repeated_run_with_one_file_per_epoch"] = C.get("driver_kills_of_a_repeated_run_with_one_file_per_epoch", 0) + 1
                lost = [p_ for p_ in start if st.get(p_) == "truncated" and not any(st.get(p_ + sfx) == "complete" for sfx in (".old", ".new"))]
                if lost:
                    V.append(tt.viol("C18:driver:existing-checkpoint-truncated:%s:one-file-per-epoch:repeated-run" % alg, "%s run with checkpoint_all, repeated over the files of an earlier run, killed before operation %d/%d: %s was a complete checkpoint and is now a truncated file without a complete .old/.new sibling" % (alg, k, total, os.path.basename(lost[0])), state=st))
            if "complete" not in st.values():
                V.append(tt.viol("C18:driver:no-complete-checkpoint:%s:one-file-per-epoch" % alg, "%s run with checkpoint_all and name %s killed before operation %d/%d leaves no complete checkpoint: %s" % (alg, os.path.basename(name), k, total, st), state=st))
            continue
        ok = False
        st = {}
        for suffix in ("", ".old", ".new"):
            p = NAME + suffix
            if p in vfs2.files:
                try:
                    json.loads(vfs2.files[p].decode())
                    st[suffix] = "complete"
                    ok = True
                except ValueError:
                    st[suffix] = "truncated"
        seen.add(("driver", alg) + tuple(sorted(st.items())))
        if not ok:
            V.append(tt.viol("C18:driver:no-complete-checkpoint:" + alg, "%s run killed before operation %d/%d leaves no complete checkpoint: %s" % (alg, k, total, st), state=st))
        if st.get("") == "truncated":
            V.append(tt.viol("C18:driver:name-truncated:" + alg, "%s run killed before operation %d/%d leaves a truncated checkpoint under its name: %s" % (alg, k, total, st), state=st))


def finalize(agg, tier):
    return []
