"""C06 - node-height parameterisations yield a valid time tree and are invertible.

Invariant monitor on node_heights / branch_lengths() of ReparameterizedTimeTreeModel built from JSON, checked
against the independent tree (parent/child relation and node indices derived from the Newick by vt.ref, not from
the model's own pre-order tables), on every labelled topology up to 6 taxa and random larger ones; round trips
through transform.inv single and batched; dtype / device moves must keep the parameterisation in force."""
from __future__ import annotations

import numpy as np

from .. import tt
from ..gen import phylo
from ..gen import timetree as gt
from ..ref import tree as rt

PROPERTY = "C06"
LEVEL = "exploration"
RULE = ("cases = labelled rooted topology (all for <= 6 taxa; random up to 60) x sampling dates {isochronous, ages, calendar, ties} x "
        "{ratios+root height, height increments} x batch shape {[], [1], [2], [n-1]} x move {none, to(float32), to(float64), cpu()}; "
        "non-trivial = heterochronous dates or >= 4 taxa; distinct by (newick, dates mode, parameterisation, batch, move)")
ASSUMPTIONS = [
    "no GPU in the sandbox: cuda() is not exercised; cpu() runs the same transform re-creation code",
    "internal node k of the parameter vector is the k-th internal node in post-order of the Newick as written (documented convention)",
]
BUDGET = {"quick": 70, "thorough": 800}
ROUNDS = {"thorough": 10}
FLOORS = {"overlay.C06.judged": {"quick": 100, "thorough": 1500}, "overlay.C06.branch_lengths_judged": {"quick": 100, "thorough": 1500}, "validity_checks": {"quick": 1500, "thorough": 15000}, "round_trips_single": 300, "round_trips_batched": 300, "revised_dates": 100, "edited_topologies": 100,
          "moves": 200, "moves_smooth_max": 20, "smooth_max_round_trips": 40, "keep_branch_lengths_checks": 100, "keep_kinds": 3, "transformed_inputs": 100, "reads_after_update": 300, "api_inplace_updates": 100, "float32_default_checks": 40, "postorder_option_checks": 20, "heterochronous": 300}


def EXHAUSTIVE(tier):
    return False


def _cases(tier, seed):
    rng = np.random.default_rng([seed, 6])
    topos = []
    for n in (2, 3, 4, 5):
        topos += rt.all_rooted_topologies(n)
    six = rt.all_rooted_topologies(6)
    topos += six  # every labelled rooted topology on 2..6 taxa in both tiers
    nbig = 150 if tier == "quick" else 1500
    for _ in range(nbig):
        topos.append(rt.random_topology(int(rng.integers(7, 61)), rng, str(rng.choice(["random", "caterpillar", "balanced"]))))
    out = []
    reps = 2 if tier == "quick" else 4
    j = 0
    for _ in range(reps):
        for t in topos:
            n = len(rt.leaves_of(t))
            param = "ratio" if j % 2 == 0 else "shift"
            batch = [0, 0, 1, 2, max(n - 1, 1), max(n - 2, 1)][(j // 2) % 6]
            c = gt.make_case(rng, t, param, None, batch)
            c["move"] = ["none", "none", "float32", "float64", "cpu"][(j // 3) % 5]
            if j % 41 == 7 and batch == 0:
                c["postorder_option"] = True
            elif j % 23 == 5:
                c["float32_default"] = True
            if c["move"] != "none" and j % 4 == 1:
                c["transformed_inputs"] = True
            if c["move"] != "none" and param == "shift" and (j // 15) % 2 == 0:
                c["smooth_k"] = float(np.round(rng.uniform(2.0, 60.0), 3))
            if batch == 0 and j % 24 in (2, 15):
                # parameters initialised from the branch lengths of the Newick (keep_branch_lengths): a clock-like tree consistent with the
                # dates, the same with lengths rounded to three decimals, or a tree that is not clock-like at all (an ML / NJ start tree)
                c["keep"] = ["clock", "rounded", "nonclock"][(j // 24) % 3]
                c["keep_seed"] = int(rng.integers(2**31))
            if param == "shift" and j % 5 == 1:
                c["smooth_rt"] = float([0.4, 1.0, 2.5, 10.0, 0.05, 50.0, -2.0][(j // 5) % 7])
            out.append(c)
            j += 1
    return out


def _validate(V, C, case, root, node_heights, branch_lengths, row, where, tol_rel=0.0):
    """node_heights [2n-1], branch_lengths [2n-2] of the library for one sample, against the reference tree."""
    n = len(case["names"])
    th = phylo.tip_heights(case)
    C["validity_checks"] += 1
    tag = case["param"]
    if node_heights.shape[-1] != 2 * n - 1 or branch_lengths.shape[-1] != 2 * n - 2:
        V.append(tt.viol("C06:shape:" + tag, "%s: node_heights %s / branch_lengths %s for %d taxa" % (where, node_heights.shape, branch_lengths.shape, n), case=case))
        return
    if not np.all(np.isfinite(node_heights)):
        V.append(tt.viol("C06:nonfinite:" + tag, "%s: non-finite node heights" % where, case=case))
        return
    for nd in rt.postorder(root):
        h = node_heights[nd.idx]
        if nd.is_leaf():
            if h != th[nd.leaf] and abs(h - th[nd.leaf]) > tol_rel * max(1.0, abs(h)):
                V.append(tt.viol("C06:tip-not-at-sampling-time:" + tag, "%s: tip %s at height %.17g, sampling time %.17g" % (where, nd.name, h, th[nd.leaf]), case=case, row=row))
                return
        else:
            for c in nd.children:
                if node_heights[c.idx] > h + tol_rel * max(1.0, abs(h)):
                    V.append(tt.viol("C06:parent-younger-than-child:" + tag, "%s: node %d (height %.17g) is younger than its child %d (height %.17g)" % (where, nd.idx, h, c.idx, node_heights[c.idx]), case=case, row=row))
                    return
        if nd.parent is not None:
            bl = branch_lengths[nd.idx]
            exp = node_heights[nd.parent.idx] - h
            if abs(bl - exp) > 1e-12 * max(1.0, abs(node_heights[nd.parent.idx])) + tol_rel:
                V.append(tt.viol("C06:branch-length:" + tag, "%s: branch above node %d is %.17g, parent height - child height = %.17g" % (where, nd.idx, bl, exp), case=case, row=row))
                return


def _inverse_tolerance(case, x):
    """1e-10 relative, plus the round-off a ratio necessarily inherits from its denominator
    (parent height - bound), which can be as small as 1e-6 of the tree height by construction."""
    n = len(case["names"])
    B = case["batch"]
    base = 1e-10 * np.maximum(1.0, np.abs(x))
    if case["param"] != "ratio":
        return base
    tol = np.array(base, dtype=float)
    for r in (range(B) if B else [None]):
        root, h = gt.ref_heights(case, r)
        th = phylo.tip_heights(case)
        hmax = float(np.abs(h).max())
        bound = {}
        for nd in rt.postorder(root):
            bound[id(nd)] = th[nd.leaf] if nd.is_leaf() else max(bound[id(c)] for c in nd.children)
            if not nd.is_leaf() and nd.parent is not None:
                d = nd.parent.height - bound[id(nd)]
                if d < 1e-7 * max(hmax, 1e-300):
                    return None  # the forward map collapses in floating point: the round trip is not judged
                extra = 1e3 * 2.2e-16 * hmax / d
                if r is None:
                    tol[nd.idx - n] += extra
                else:
                    tol[r, nd.idx - n] += extra
    return tol


def _run_case(case):
    import torch

    V = []
    C = {"validity_checks": 0, "round_trips_single": 0, "round_trips_batched": 0, "moves": 0, "heterochronous": 0,
         "reference_height_comparisons": 0, "params": [case["param"]], "dates_modes": [case["dates_mode"]]}
    n = len(case["names"])
    B = case["batch"]
    tag = case["param"]
    if case["dates_mode"] != "iso":
        C["heterochronous"] += 1
    if case.get("float32_default"):
        # `torchtree --dtype float32`: everything the library creates itself (sampling times from the dates) is single precision;
        # tips must still sit at their sampling times to single precision of the *heights* (not of the calendar years)
        old_dtype = torch.get_default_dtype()
        torch.set_default_dtype(torch.float32)
        try:
            objs, dic = tt.load([phylo.taxa_json(case), gt.tree_json(case)])
            tree = dic["tree"]
            nh = tt.as_np(tree.node_heights, "C06:not-a-tensor:" + tag, "node_heights").astype(float)
        finally:
            torch.set_default_dtype(old_dtype)
        want = phylo.tip_heights(case)
        C["validity_checks"] += 1
        C["float32_default_checks"] = 1
        row0 = nh.reshape(-1, nh.shape[-1])[0]
        span = max(1.0, max(want))
        root, _ = gt.ref_heights(case, 0 if B else None)
        for nd in rt.postorder(root):
            if nd.is_leaf() and abs(row0[nd.idx] - want[nd.leaf]) > 2e-6 * span:
                V.append(tt.viol("C06:tip-not-at-sampling-time:float32-default", "under a float32 default dtype the tip %s sits at height %.9g, its sampling time is %.9g (tree span %.3g)" % (nd.name, row0[nd.idx], want[nd.leaf], span), case=case))
                break
        return {"violations": V, "counters": C, "fingerprint": None, "sample": None}
    if case.get("postorder_option"):
        # the tree models accept `use_postorder_indices`: whatever numbering of the leaves it selects, every tip still has to sit at the
        # sampling time of *its* taxon (taxon of a leaf taken from the library's own tree object, date from the specification by name)
        tj = gt.tree_json(case)
        tj["use_postorder_indices"] = True
        objs, dic = tt.load([phylo.taxa_json(case), tj])
        tree = dic["tree"]
        nh = tt.as_np(tree.node_heights, "C06:not-a-tensor:" + tag, "node_heights").astype(float)
        want = dict(zip(case["names"], phylo.tip_heights(case)))
        C["validity_checks"] += 1
        C["postorder_option_checks"] = 1
        for nd in tree.tree.leaf_node_iter():
            got = nh.reshape(-1, nh.shape[-1])[0][nd.index]
            if abs(got - want[nd.taxon.label]) > 1e-12 * max(1.0, abs(want[nd.taxon.label])):
                V.append(tt.viol("C06:tip-not-at-sampling-time:use_postorder_indices", "with use_postorder_indices the tip %s (node index %d) sits at height %.9g, its sampling time is %.9g" % (nd.taxon.label, nd.index, got, want[nd.taxon.label]), case=case))
                break
        return {"violations": V, "counters": C, "fingerprint": None, "sample": None}
    if case.get("keep"):
        return _run_keep(case, V, C)
    tj = gt.tree_json(case)
    if case.get("transformed_inputs"):
        # ratios / root height / increments given as transformed parameters over unconstrained ones (how every model written by
        # torchtree-cli looks): a move has to carry them along
        def wrap(key, transform, inv):
            pj = tj[key]
            tj[key] = {"id": pj["id"], "type": "TransformedParameter", "transform": transform,
                       "x": dict(pj, id=pj["id"] + ".unres", tensor=inv(np.asarray(pj["tensor"], dtype=float)).tolist())}

        if case["param"] == "ratio":
            wrap("ratios", "torch.distributions.SigmoidTransform", lambda r: np.log(r) - np.log1p(-r))
            wrap("root_height", "torch.distributions.ExpTransform", np.log)
        else:
            wrap("shifts", "torch.distributions.ExpTransform", np.log)
        C["transformed_inputs"] = 1
    objs, dic = tt.load([phylo.taxa_json(case), tj])
    tree = dic["tree"]
    kind0 = type(tree.transform).__name__

    def read(where, tol=0.0, refcase=None, heights_first=True):
        refcase = refcase or case
        if heights_first:
            nh = tt.as_np(tree.node_heights, "C06:not-a-tensor:" + tag, "node_heights")
            bl = tt.as_np(tree.branch_lengths(), "C06:not-a-tensor:" + tag, "branch_lengths()")
        else:
            bl = tt.as_np(tree.branch_lengths(), "C06:not-a-tensor:" + tag, "branch_lengths()")
            nh = tt.as_np(tree.node_heights, "C06:not-a-tensor:" + tag, "node_heights")
        rows = range(B) if B else [None]
        if B and (nh.ndim != 2 or nh.shape[0] != B or bl.shape[0] != B):
            V.append(tt.viol("C06:batch-shape:" + tag, "%s: node_heights %s / branch_lengths %s for batch %d" % (where, nh.shape, bl.shape, B), case=case))
            return nh
        for r in rows:
            root, href = gt.ref_heights(refcase, r)
            a = nh if r is None else nh[r]
            b = bl if r is None else bl[r]
            _validate(V, C, refcase, root, a.astype(float), b.astype(float), r, where, tol)
            if a.shape[-1] == 2 * n - 1:
                C["reference_height_comparisons"] += 1
                t = max(1e-12, tol * 10)
                if np.abs(a - href).max() > t * max(1.0, np.abs(href).max()):
                    k = int(np.argmax(np.abs(a - href)))
                    V.append(tt.viol("C06:heights-differ-from-recursion:" + tag, "%s: node %d has height %.15g, the documented recursion gives %.15g" % (where, k, a[k], href[k]), case=case, row=r))
        return nh

    nh = read("as built")
    # inverse: heights -> parameters
    if case["param"] == "ratio":
        x = np.concatenate([np.asarray(case["ratios"], dtype=float).reshape(max(B, 1), -1), np.asarray(case["root_height"], dtype=float).reshape(max(B, 1), 1)], -1)
    else:
        x = np.asarray(case["shifts"], dtype=float).reshape(max(B, 1), -1)
    if not B:
        x = x[0]
    if not V:
        internal = torch.tensor(np.asarray(nh)[..., n:], dtype=torch.float64)
        try:
            back = tree.transform.inv(internal)
            back = tt.as_np(back, "C06:not-a-tensor:" + tag, "transform.inv")
            tol = _inverse_tolerance(case, x)
            if tol is None:
                C["round_trips_not_judged_ill_conditioned"] = 1
                tol = np.full(x.shape, np.inf)
                back = np.where(np.isfinite(back), back, x) if back.shape == x.shape else back
            ok = back.shape == x.shape and bool(np.all(np.abs(back - x) <= tol))
            detail = "shape %s vs %s" % (back.shape, x.shape) if back.shape != x.shape else "max abs err %.3g (tolerance %.3g there)" % (
                np.abs(back - x).max(), float(np.broadcast_to(tol, x.shape).reshape(-1)[int(np.argmax(np.abs(back - x)))]))
        except Exception as e:
            from ..worker import _blame

            if _blame(e) is None:
                raise
            ok = False
            detail = "raises %s: %s" % (type(e).__name__, str(e)[:150])
        C["round_trips_batched" if B else "round_trips_single"] += 1
        # ratios near 0/1 amplify round-off in the inverse: judged relative to the conditioning
        if not ok:
            V.append(tt.viol("C06:inverse:%s:%s" % (tag, "batched" if B else "single"), "inv(forward(x)) != x (%s; batch %s, %d taxa)" % (detail, B or "[]", n), case=case))
    # after an update through the public parameter interface the model is the tree of the new values, whichever of heights and branch
    # lengths is read first (both were read once above, so both caches exist)
    if case["move"] == "none" and not V and not case.get("smooth_rt"):
        import copy

        case2 = copy.deepcopy(case)
        sc = lambda v, f: (np.asarray(v, dtype=float) * f).tolist()
        if case["param"] == "ratio":
            case2["ratios"], case2["root_height"] = sc(case["ratios"], 0.9), sc(case["root_height"], 1.15)
            if n > 2:
                dic["tree.ratios"].tensor = torch.tensor(case2["ratios"], dtype=torch.float64)
            dic["tree.root_height"].tensor = torch.tensor(case2["root_height"], dtype=torch.float64)
        else:
            case2["shifts"] = sc(case["shifts"], 1.3)
            dic["tree.shifts"].tensor = torch.tensor(case2["shifts"], dtype=torch.float64)
        C["reads_after_update"] = 1
        read("after an update, %s read first" % ("heights" if len(case["newick"]) % 2 else "branch lengths"), refcase=case2, heights_first=bool(len(case["newick"]) % 2))
    # the increment parameterisation with a smooth maximum of temperature k: still a valid tree, still invertible
    if case["param"] == "shift" and case.get("smooth_rt") and not V:
        from torchtree.evolution.tree_height_transform import DifferenceNodeHeightTransform

        k = float(case["smooth_rt"])
        tr = DifferenceNodeHeightTransform(tree, k)
        xs = dic["tree.shifts"].tensor.detach().clone()
        if k >= 10.0:
            xs = xs * 40.0  # heights in the hundreds and thousands (days, generations): k x height far beyond the range of exp
        hs = tr(xs)
        back = tt.as_np(tr.inv(hs), "C06:not-a-tensor:" + tag, "transform.inv")
        C["smooth_max_round_trips"] = 1
        hs_np = tt.as_np(hs, "C06:not-a-tensor:" + tag, "transform()").astype(float)
        x_np = xs.numpy()
        tolk = 1e-10 * max(1.0, float(np.abs(hs_np).max()))
        if back.shape != x_np.shape or not np.all(np.isfinite(back)) or np.abs(back - x_np).max() > tolk:
            V.append(tt.viol("C06:inverse:shift-smooth-max", "smooth maximum with k=%g: inv(forward(x)) != x (max abs err %.3g, %d taxa, batch %s)" % (
                k, float(np.abs(back - x_np).max()) if back.shape == x_np.shape else float("nan"), n, B or "[]"), case=case))
        else:
            # valid tree: every internal node at or above its children (the smooth maximum is an upper bound of the maximum)
            th = np.asarray(phylo.tip_heights(case), dtype=float)
            for r in (range(B) if B else [None]):
                root, _ = gt.ref_heights(case, r)
                row = hs_np if r is None else hs_np[r]
                full = np.concatenate([th, row])
                bad = [(nd.idx, c.idx) for nd in rt.postorder(root) if not nd.is_leaf() for c in nd.children if full[c.idx] > full[nd.idx] + 1e-12 * max(1.0, abs(full[nd.idx]))]
                if bad:
                    V.append(tt.viol("C06:parent-younger-than-child:shift-smooth-max", "smooth maximum with k=%g: node %d is younger than its child %d" % (k, bad[0][0], bad[0][1]), case=case))
                    break
    # dtype / device moves keep the parameterisation in force
    mv = case["move"]
    if mv != "none" and case.get("smooth_k") and case["param"] == "shift" and not V:
        # the increment parameterisation with a smooth maximum (k > 0) is a different map: a move must keep *it* in force too
        from torchtree.evolution.tree_height_transform import DifferenceNodeHeightTransform

        k = float(case["smooth_k"])
        tree.transform = DifferenceNodeHeightTransform(tree, k)
        dic["tree.shifts"].tensor = dic["tree.shifts"].tensor.clone()
        h0 = tt.as_np(tree.node_heights, "C06:not-a-tensor:" + tag, "node_heights").astype(float)
        C["moves"] += 1
        C["moves_smooth_max"] = 1
        if mv == "float32":
            tree.to(torch.float32)
        elif mv == "float64":
            tree.to(torch.float64)
        else:
            tree.cpu()
        dic["tree.shifts"].tensor = dic["tree.shifts"].tensor.clone()
        h1 = tt.as_np(tree.node_heights, "C06:not-a-tensor:" + tag, "node_heights").astype(float)
        tolm = 1e-5 if mv == "float32" else 1e-12
        if type(tree.transform).__name__ != "DifferenceNodeHeightTransform" or getattr(tree.transform, "k", None) != k or h0.shape != h1.shape or np.abs(h0 - h1).max() > tolm * max(1.0, np.abs(h0).max()):
            V.append(tt.viol("C06:move-changes-parameterisation:shift-smooth-max:%s" % mv, "after %s the increments map to different heights (max diff %.3g): transform %s with k=%s, it was the smooth-max increment transform with k=%s" % (
                mv, np.abs(h0 - h1).max() if h0.shape == h1.shape else float("nan"), type(tree.transform).__name__, getattr(tree.transform, "k", None), k), case=case))
    elif mv != "none":
        C["moves"] += 1
        if mv == "float32":
            tree.to(torch.float32)
        elif mv == "float64":
            tree.to(torch.float64)
        else:
            tree.cpu()
        kind1 = type(tree.transform).__name__
        if kind1 != kind0:
            V.append(tt.viol("C06:move-changes-parameterisation:%s:%s" % (tag, mv), "after %s the transform is %s, it was %s" % (mv, kind1, kind0), case=case))
        # new values through the public interface right after the move (nothing is read in between), then re-validate against the
        # recursion for the new values
        import copy

        case_m = copy.deepcopy(case)
        name = "tree.shifts" if case["param"] == "shift" else "tree.root_height"
        key = "shifts" if case["param"] == "shift" else "root_height"
        case_m[key] = (np.asarray(case[key], dtype=float) * 1.07).tolist()
        dic[name].tensor = dic[name].tensor.detach() * 1.07
        read("after " + mv + " and an update", tol=1e-5 if mv == "float32" else 1e-12, refcase=case_m)
    # the same model built through the Python API on one Parameter holding ratios and root height, updated in place and announced
    # with fire_parameter_changed() - the optimiser protocol (from JSON the model holds a concatenation of two parameters instead)
    if case["param"] == "ratio" and not B and case["move"] == "none" and not V and n >= 3:
        import copy

        from torchtree import Parameter
        from torchtree.evolution.tree_model import ReparameterizedTimeTreeModel

        rr = Parameter("rr", torch.tensor(list(case["ratios"]) + list(np.asarray(case["root_height"]).reshape(-1)), dtype=torch.float64))
        t2 = ReparameterizedTimeTreeModel("tree.api", tree.tree, dic["taxa"], ratios_root_height=rr)
        _ = t2.node_heights
        with torch.no_grad():
            rr.tensor[:-1] *= 0.9
            rr.tensor[-1] *= 1.1
        rr.fire_parameter_changed()
        case2 = copy.deepcopy(case)
        case2["ratios"] = [x * 0.9 for x in case["ratios"]]
        case2["root_height"] = [float(np.asarray(case["root_height"]).reshape(-1)[0]) * 1.1]
        _, href = gt.ref_heights(case2, None)
        got = tt.as_np(t2.node_heights, "C06:not-a-tensor:" + tag, "node_heights").astype(float)
        C["api_inplace_updates"] = 1
        if got.shape != href.shape or np.abs(got - href).max() > 1e-10 * max(1.0, np.abs(href).max()):
            V.append(tt.viol("C06:heights-stale-after-in-place-update:api", "model built through the Python API: after an in-place update of the ratios / root height and fire_parameter_changed() the heights are %s, the recursion gives %s" % (
                got[n:][:4], href[n:][:4]), case=case))
    # the sampling dates are revised after the model was built and used (a corrected collection date): the taxa get their new dates, the
    # model re-reads them (update_leaf_heights) and a ratio transform its bounds (update_bounds) - the model's own public refresh hooks, the
    # ones its constructor uses; afterwards it is the tree of the new dates: valid, and invertible
    if case["move"] == "none" and not V and case["dates_mode"] != "iso" and not case.get("smooth_rt") and n >= 3 and not case.get("transformed_inputs"):
        import copy

        case_d = copy.deepcopy(case)
        perm = np.random.default_rng(len(case["newick"]) + n).permutation(n)
        old_dates = [case["dates"][nm] for nm in case["names"]]
        case_d["dates"] = {nm: old_dates[int(perm[i])] for i, nm in enumerate(case["names"])}
        objs_d, dic_d = tt.load([phylo.taxa_json(case), gt.tree_json(case)])
        tree_d = dic_d["tree"]
        h_old = tree_d.node_heights.detach()
        _ = tree_d.branch_lengths(), tree_d.transform.inv(h_old[..., n:])
        for taxon in dic_d["taxa"]:
            taxon["date"] = case_d["dates"][taxon.id]
        tree_d.update_leaf_heights()
        if hasattr(tree_d.transform, "update_bounds"):
            tree_d.transform.update_bounds()
        for pid in ("tree.ratios", "tree.root_height", "tree.shifts"):
            if pid in dic_d:
                dic_d[pid].tensor = dic_d[pid].tensor.detach().clone()  # (dirties the model's caches)
        C["revised_dates"] = 1
        tree_saved, tree = tree, tree_d
        try:
            nh_d = read("after the sampling dates were revised", refcase=case_d)
        finally:
            tree = tree_saved
        if not V:
            back = tt.as_np(tree_d.transform.inv(torch.tensor(np.asarray(nh_d)[..., n:], dtype=torch.float64)), "C06:not-a-tensor:" + tag, "transform.inv")
            tol = _inverse_tolerance(case_d, x)
            if tol is not None and (back.shape != x.shape or not bool(np.all(np.abs(back - x) <= tol))):
                V.append(tt.viol("C06:inverse:%s:after-revised-dates" % tag, "after the sampling dates were revised (update_leaf_heights, update_bounds) inv(forward(x)) != x (max abs err %.3g, %d taxa, batch %s)" % (
                    float(np.abs(back - x).max()) if back.shape == x.shape else float("nan"), n, B or "[]"), case=case_d))
    # the topology is edited after the model was built and used (two leaves with different parents change places, what a tree-search move
    # does), the nodes are re-indexed and the model refreshes its traversals with its own public hooks (setup_indexes, update_traversals,
    # update_bounds, sort_indices - the sequence of its constructor); afterwards it is the tree of the new topology
    if case["move"] == "none" and not V and not case.get("smooth_rt") and n >= 4 and not case.get("transformed_inputs"):
        from torchtree.evolution.tree_model import setup_indexes

        objs_t, dic_t = tt.load([phylo.taxa_json(case), gt.tree_json(case)])
        tree_t = dic_t["tree"]
        _ = tree_t.node_heights, tree_t.branch_lengths()
        lv = sorted(tree_t.tree.leaf_node_iter(), key=lambda nd_: nd_.taxon.label)
        pair = next(((a_, b_) for i_, a_ in enumerate(lv) for b_ in lv[i_ + 1:] if a_.parent_node is not b_.parent_node), None)
        if pair is not None:
            a_, b_ = pair
            pa_, pb_ = a_.parent_node, b_.parent_node
            pa_.remove_child(a_)
            pb_.remove_child(b_)
            pa_.add_child(b_)
            pb_.add_child(a_)
            setup_indexes(tree_t.tree)
            tree_t.update_traversals()
            if hasattr(tree_t.transform, "update_bounds"):
                tree_t.transform.update_bounds()
                tree_t.transform.sort_indices()
            for pid in ("tree.ratios", "tree.root_height", "tree.shifts"):
                if pid in dic_t:
                    dic_t[pid].tensor = dic_t[pid].tensor.detach().clone()
            C["edited_topologies"] = 1
            bl_t = tt.as_np(tree_t.branch_lengths(), "C06:not-a-tensor:" + tag, "branch_lengths()").astype(float).reshape(-1, 2 * n - 2)
            nh_t = tt.as_np(tree_t.node_heights, "C06:not-a-tensor:" + tag, "node_heights").astype(float).reshape(-1, 2 * n - 1)
            want_t = dict(zip(case["names"], phylo.tip_heights(case)))
            for r_, (h_, b_row) in enumerate(zip(nh_t, bl_t)):
                bad = None
                for nd_ in tree_t.tree.preorder_node_iter():
                    if nd_.is_leaf() and h_[nd_.index] != want_t[nd_.taxon.label]:
                        bad = ("tip-not-at-sampling-time", "tip %s at height %.12g, sampling time %.12g" % (nd_.taxon.label, h_[nd_.index], want_t[nd_.taxon.label]))
                    elif nd_.parent_node is not None:
                        ph_ = h_[nd_.parent_node.index]
                        if h_[nd_.index] > ph_ + 1e-12 * max(1.0, abs(ph_)):
                            bad = ("parent-younger-than-child", "node %d (height %.12g) is younger than its child %d (height %.12g)" % (nd_.parent_node.index, ph_, nd_.index, h_[nd_.index]))
                        elif abs(b_row[nd_.index] - (ph_ - h_[nd_.index])) > 1e-12 * max(1.0, abs(ph_)):
                            bad = ("branch-length", "branch above node %d is %.12g, parent height - child height = %.12g" % (nd_.index, b_row[nd_.index], ph_ - h_[nd_.index]))
                    if bad:
                        break
                if bad:
                    V.append(tt.viol("C06:%s:%s:after-topology-edit" % (bad[0], tag), "after two leaves changed places and the model refreshed its traversals: " + bad[1], case=case, row=r_))
                    break
    fp = None
    if case["dates_mode"] != "iso" or n >= 4:
        fp = "%s|%s|%s|%s|%s" % (case["newick"], case["dates_mode"], tag, B, mv)
    sample = {k: case[k] for k in ("newick", "names", "dates", "param", "batch", "move")} if n <= 6 else None
    return {"violations": V, "counters": C, "fingerprint": fp, "sample": sample}


def _run_keep(case, V, C):
    """keep_branch_lengths: the parameters are computed by the library from the Newick's branch lengths.  Whatever the lengths, the
    result is a valid time tree with its parameters inside their domain; for lengths consistent with the dates it is that very tree."""
    import copy

    n = len(case["names"])
    tag = case["param"]
    krng = np.random.default_rng(case["keep_seed"])
    root, href = gt.ref_heights(case, None)  # heights of the generated parameter values: the clock-like tree
    for nd in rt.postorder(root):
        if nd.parent is not None:
            nd.length = float(href[nd.parent.idx] - href[nd.idx])
            if case["keep"] == "rounded":
                nd.length = max(0.001, round(nd.length, 3))
            elif case["keep"] == "nonclock":
                nd.length = float(krng.exponential(0.3)) + 1e-4
    tj = gt.tree_json(case)
    tj["newick"] = rt.to_newick(root)
    tj["keep_branch_lengths"] = True
    for key in ("ratios", "root_height", "shifts"):
        if key in tj:  # placeholders: the values come from the Newick
            tj[key] = dict(tj[key], tensor=[0.5] * len(tj[key]["tensor"]))
    objs, dic = tt.load([phylo.taxa_json(case), tj])
    tree = dic["tree"]
    C["keep_branch_lengths_checks"] = 1
    C["keep_kinds"] = [case["keep"]]
    nh = tt.as_np(tree.node_heights, "C06:not-a-tensor:" + tag, "node_heights").astype(float)
    bl = tt.as_np(tree.branch_lengths(), "C06:not-a-tensor:" + tag, "branch_lengths()").astype(float)
    nV = len(V)
    _validate(V, C, case, root, nh.reshape(-1), bl.reshape(-1), None, "keep_branch_lengths (%s Newick)" % case["keep"])
    for v in V[nV:]:
        v["sig"] = v["sig"].replace("C06:", "C06:keep_branch_lengths:", 1)
    if len(V) == nV:
        if case["param"] == "ratio":
            r = tt.as_np(dic["tree.ratios"].tensor, "C06:not-a-tensor").astype(float).reshape(-1)
            rh = float(tt.as_np(dic["tree.root_height"].tensor, "C06:not-a-tensor").reshape(-1)[0])
            th = phylo.tip_heights(case)
            if r.size and (not np.all(np.isfinite(r)) or r.min() < 0.0 or r.max() > 1.0) or not rh >= max(th):
                V.append(tt.viol("C06:keep_branch_lengths:parameters-outside-domain:ratio", "keep_branch_lengths (%s Newick): ratios in [%.6g, %.6g], root height %.6g (oldest tip %.6g)" % (
                    case["keep"], r.min() if r.size else float("nan"), r.max() if r.size else float("nan"), rh, max(th)), case=case))
        else:
            sh = tt.as_np(dic["tree.shifts"].tensor, "C06:not-a-tensor").astype(float).reshape(-1)
            if not np.all(np.isfinite(sh)) or sh.min() < 0.0:
                V.append(tt.viol("C06:keep_branch_lengths:parameters-outside-domain:shift", "keep_branch_lengths (%s Newick): smallest height increment %.6g" % (case["keep"], sh.min()), case=case))
        if case["keep"] == "clock" and np.abs(nh.reshape(-1) - href).max() > 1e-9 * max(1.0, np.abs(href).max()) + 1.01e-6 * n:
            # (the library keeps every node at least 1e-6 above its children - documented eps - which adds up along a chain of short branches)
            k = int(np.argmax(np.abs(nh.reshape(-1) - href)))
            V.append(tt.viol("C06:keep_branch_lengths:heights-differ-from-newick:" + tag, "keep_branch_lengths on a Newick consistent with the dates: node %d at height %.12g, the Newick puts it at %.12g" % (k, nh.reshape(-1)[k], href[k]), case=case))
    fp = "%s|%s|%s|keep-%s" % (case["newick"], case["dates_mode"], tag, case["keep"])
    return {"violations": V, "counters": C, "fingerprint": fp, "sample": None}


# ---------------------------------------------------------------- the same invariants as an overlay on realistic workloads
def cases(tier, seed):
    """the property's own generator plus the shared workloads (configurations emitted by torchtree-cli, loaded, evaluated and
    really run for a few iterations; in thorough also the repository's own test-suite) with this property's contracts attached"""
    from ..work import shared

    return shared.overlay_cases(tier, seed, PROPERTY) + _cases(tier, seed)


def run_case(case):
    if isinstance(case, dict) and "overlay" in case:
        from ..work import shared

        return shared.run_overlay_case(case, PROPERTY)
    return _run_case(case)
