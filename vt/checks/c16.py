"""C16 - the leapfrog integrator is reversible and volume preserving.

Monitor of geometric identities on the real LeapfrogIntegrator.__call__ / HMCOperator.step() driving real models:
time reversal (integrate, negate the momentum, integrate again), |det D Phi| = 1 by central differences, energy-error
order by regression over step halvings at fixed trajectory length, and the Hastings term of the operator against the
kinetic energies of the recorded momenta; a target with a NaN region exercises the restore-and-retry path."""
from __future__ import annotations

import numpy as np

from .. import tt
from ..gen import models as gm
from ..gen import zoo

PROPERTY = "C16"
LEVEL = "exploration"
RULE = ("cases = target {standard / correlated Gaussian, gamma and beta through transforms, hierarchical normal, small phylogenetic posteriors of the zoo} x "
        "dimension 1..8 split over 1..3 parameters x step size 1e-3..0.5 x 1..30 steps x {diagonal, dense SPD} mass matrix x identity {reversal, volume, "
        "energy order, Hastings term, NaN region}; non-trivial = trajectory moved the position by more than 1e-6; distinct by (target, identity, seed)")
ASSUMPTIONS = [
    "the Jacobian of the map is obtained by central differences (h = 1e-5 relative) in float64 because the integrator calls backward() internally",
    "the energy-error order is judged only in the asymptotic regime (step * sqrt(largest curvature) <= 0.1 at the coarsest level) on targets with known curvature",
]
BUDGET = {"quick": 85, "thorough": 900}
FLOORS = {"reversals": {"quick": 250, "thorough": 2500}, "determinants": {"quick": 120, "thorough": 1200}, "order_fits": {"quick": 25, "thorough": 250},
          "hastings_terms": {"quick": 120, "thorough": 1200}, "nan_region_steps": 8, "retried_then_succeeded": {"quick": 8, "thorough": 40}, "chained_reversals": {"quick": 20, "thorough": 200}, "same_start_after_target_change": {"quick": 20, "thorough": 200}, "adapted_mass_matrices": {"quick": 20, "thorough": 200},
          "low_divergence_threshold_operators": {"quick": 20, "thorough": 200}, "reassigned_small_mass_matrices": {"quick": 20, "thorough": 200},
          "single_precision_hastings_terms": {"quick": 20, "thorough": 200}, "mixed_precision_reversals": {"quick": 8, "thorough": 80}, "operators_built_with_step_size_search": {"quick": 20, "thorough": 200}, "targets": 6,
          "hamiltonian_values": {"quick": 600, "thorough": 6000}, "hmc_class_decisions": {"quick": 200, "thorough": 2000}, "hmc_class_accepted": {"quick": 50, "thorough": 500}}

TARGETS = ["gaussian", "correlated", "gamma-exp", "beta-sigmoid", "hierarchical", "phylo-unrooted", "phylo-time-ratio"]
IDENT = ["reversal", "reversal", "volume", "order", "hastings", "hastings"]


def cases(tier, seed):
    rng = np.random.default_rng([seed, 16])
    n = {"quick": 800, "thorough": 8000}[tier]
    out = []
    for i in range(n):
        t = TARGETS[i % len(TARGETS)]
        ident = IDENT[(i // len(TARGETS)) % len(IDENT)]
        if ident == "order" and t.startswith("phylo"):
            ident = "reversal"
        out.append({"target": t, "identity": ident, "seed": int(rng.integers(2**31)), "d": int(rng.integers(1, 9)), "split": int(rng.integers(1, 4)),
                    "eps": float(gm.loguniform(rng, 1e-3, 0.5)), "L": int(rng.integers(1, 31)), "mass": str(rng.choice(["diag", "dense", "identity"])), "late_step_size": bool(i % 2), "restored_mass": bool(i % 3 == 0)})
    # single precision on a target whose log density is of the order of -2e6 (a large fixed data set): the Hastings term is the change in kinetic
    # energy of the momenta, to single precision of *that*, not of the Hamiltonian
    for i in range(12 if tier == "quick" else 100):
        out.append({"target": "single-precision", "identity": "hastings32", "seed": int(rng.integers(2**31)), "d": int(rng.integers(1, 6)), "split": 1, "eps": 0.11, "L": int(rng.integers(1, 8)), "mass": "identity"})
    # the stand-alone sampler (type HMC): its accept/reject decisions, observed from outside, are those of the full Hamiltonian difference
    for i in range(16 if tier == "quick" else 120):
        out.append({"target": ["gaussian", "correlated", "gamma-exp", "hierarchical"][i % 4], "identity": "hmc-run", "seed": int(rng.integers(2**31)), "d": int(rng.integers(1, 6)), "split": int(rng.integers(1, 3)),
                    "eps": float(gm.loguniform(rng, 0.05, 0.5)), "L": int(rng.integers(1, 8)), "mass": str(rng.choice(["diag", "dense", "identity"]))})
    for i in range(24 if tier == "quick" else 120):
        out.append({"target": "nan-region", "identity": "nan", "seed": int(rng.integers(2**31)), "d": 2, "split": 1, "eps": 0.3, "L": 5, "mass": "identity"})
    return out


F64 = "torch.float64"


def P(i, v):
    return gm.param(i, v, dtype=F64)


def build_target(case, rng):
    """-> (spec, joint id, [parameter ids], curvature bound or None)"""
    t, d, k = case["target"], case["d"], min(case["split"], case["d"])
    sizes = [len(x) for x in np.array_split(np.arange(d), k)]
    pids = ["q%d" % i for i in range(k)]
    params = [P(pids[i], rng.normal(0, 1, sizes[i]).tolist()) for i in range(k)]
    if t == "gaussian":
        spec = params + [{"id": "d%d" % i, "type": "Distribution", "distribution": "torch.distributions.Normal", "x": pids[i], "parameters": {"loc": 0.0, "scale": 1.0}} for i in range(k)]
        spec.append({"id": "joint", "type": "JointDistributionModel", "distributions": ["d%d" % i for i in range(k)]})
        return spec, "joint", pids, 1.0
    if t == "correlated":
        A = rng.normal(0, 1, (d, d))
        S = A @ A.T + 0.5 * np.eye(d)
        spec = params + [{"id": "mvn", "type": "MultivariateNormal", "x": pids if k > 1 else pids[0], "parameters": {"loc": P("loc", [0.0] * d), "covariance_matrix": P("cov", S.tolist())}},
                         {"id": "joint", "type": "JointDistributionModel", "distributions": ["mvn"]}]
        return spec, "joint", pids, float(1.0 / np.linalg.eigvalsh(S).min())
    if t in ("gamma-exp", "beta-sigmoid"):
        spec = list(params)
        terms = []
        for i in range(k):
            tr = "torch.distributions.ExpTransform" if t == "gamma-exp" else "torch.distributions.SigmoidTransform"
            spec.append({"id": "c%d" % i, "type": "TransformedParameter", "transform": tr, "x": pids[i]})
            if t == "gamma-exp":
                spec.append({"id": "d%d" % i, "type": "Distribution", "distribution": "torch.distributions.Gamma", "x": "c%d" % i, "parameters": {"concentration": 3.0, "rate": 2.0}})
            else:
                spec.append({"id": "d%d" % i, "type": "Distribution", "distribution": "torch.distributions.Beta", "x": "c%d" % i, "parameters": {"concentration1": 3.0, "concentration0": 4.0}})
            terms += ["d%d" % i, "c%d" % i]
        spec.append({"id": "joint", "type": "JointDistributionModel", "distributions": terms})
        return spec, "joint", pids, 8.0
    if t == "hierarchical":
        spec = params + [P("mu", [0.2]),
                         {"id": "sd", "type": "TransformedParameter", "transform": "torch.distributions.ExpTransform", "x": P("logsd", [0.1])}]
        for i in range(k):
            spec.append({"id": "d%d" % i, "type": "Distribution", "distribution": "torch.distributions.Normal", "x": pids[i], "parameters": {"loc": "mu", "scale": "sd"}})
        spec += [{"id": "dmu", "type": "Distribution", "distribution": "torch.distributions.Normal", "x": "mu", "parameters": {"loc": 0.0, "scale": 2.0}},
                 {"id": "dsd", "type": "Distribution", "distribution": "torch.distributions.LogNormal", "x": "sd", "parameters": {"loc": 0.0, "scale": 0.5}},
                 {"id": "joint", "type": "JointDistributionModel", "distributions": ["d%d" % i for i in range(k)] + ["dmu", "dsd", "sd"]}]
        return spec, "joint", pids + ["mu", "logsd"], None
    g = zoo.build("unrooted" if t == "phylo-unrooted" else "time-ratio", case["seed"])
    reals = [i for i, dom in g["leaves"].items() if dom == "real" and i.endswith("unres")]
    return g["spec"], "joint", reals, None


def mass_matrix(case, rng, dim):
    import torch

    if case["mass"] == "identity":
        return torch.ones(dim, dtype=torch.float64)
    if case["mass"] == "diag":
        return torch.tensor(np.exp(rng.normal(0, 0.7, dim)))
    A = rng.normal(0, 1, (dim, dim))
    return torch.tensor(A @ A.T / dim + 0.5 * np.eye(dim))


def inverse(M):
    import torch

    return 1.0 / M if M.dim() == 1 else torch.inverse(M)


def run_case(case):
    import torch
    from torchtree.inference.hmc.integrator import LeapfrogIntegrator

    V = []
    C = {"reversals": 0, "determinants": 0, "order_fits": 0, "hastings_terms": 0, "nan_region_steps": 0, "targets": [case["target"]], "not_judged_nan": 0}
    rng = np.random.default_rng(case["seed"])
    if case["identity"] == "nan":
        return run_nan(case, rng, V, C)
    if case["identity"] == "hastings32":
        return run_hastings32(case, rng, V, C)
    spec, jid, pids, curv = build_target(case, rng)
    objs, dic = tt.load(spec)
    joint = dic[jid]
    params = [dic[i] for i in pids]
    dim = sum(p.tensor.shape[-1] for p in params)
    M = mass_matrix(case, rng, dim)
    Minv = inverse(M)
    eps, L = case["eps"], case["L"]
    if case["target"].startswith("phylo"):
        eps = min(eps, 0.02)
        L = min(L, 8)
    elif curv is not None:
        eps = min(eps, 1.0 / np.sqrt(curv))  # inside the stability region of the integrator
    else:
        eps = min(eps, 0.1)
    detail = {"case": case, "eps": eps, "L": L}
    # the Hamiltonian object itself: H(q, p) for momenta handed in one after the other at one position
    from torchtree.inference.hmc.hamiltonian import Hamiltonian

    ham = Hamiltonian(None, joint)
    with torch.no_grad():
        U = -float(joint())
    Mi_np = Minv.detach().numpy()
    for k in range(3):
        pk = rng.normal(0, 1.0 + k, dim)
        kw = {"mass_matrix": M} if k == 1 else {"inverse_mass_matrix": Minv}
        with torch.no_grad():
            got = float(ham(momentum=torch.tensor(pk, dtype=M.dtype), **kw))
        want = U + 0.5 * float(pk @ (Mi_np * pk if Mi_np.ndim == 1 else Mi_np @ pk))
        C["hamiltonian_values"] = C.get("hamiltonian_values", 0) + 1
        if not abs(got - want) <= 1e-8 * max(1.0, abs(want)):
            V.append(tt.viol("C16:hamiltonian-value:call-%d" % (k + 1), "Hamiltonian(momentum=p%d, %s) returns %.12g at a position with potential energy %.12g and kinetic energy %.12g: %.12g expected" % (k + 1, "/".join(kw), got, U, want - U, want), **detail))
            break
    if case["identity"] == "hmc-run":
        return run_hmc_class(case, rng, dic, joint, params, M, Minv, eps, L, V, C, detail)

    def setq(q):
        start = 0
        for p in params:
            n = p.tensor.shape[-1]
            p.tensor = q[start:start + n].clone()
            start += n

    def getq():
        return torch.cat([p.tensor.detach().clone() for p in params], -1)

    def flow(q, p, e=eps, steps=L):
        nonlocal Minv
        setq(q)
        if case.get("late_step_size"):
            # the step size is (re)assigned after construction, as tuning, adaptors, find_reasonable_step_size and load_state_dict do
            integ = LeapfrogIntegrator(None, steps, e * 3.7)
            integ.step_size = e
        else:
            integ = LeapfrogIntegrator(None, steps, e)
        p1 = integ(joint, params, p.clone(), Minv)
        return getq(), p1.detach().clone()

    def H(q, p):
        setq(q)
        with torch.no_grad():
            U = -joint()
        K = 0.5 * (p @ (Minv * p if Minv.dim() == 1 else Minv @ p))
        return float(U + K)

    q0 = getq()
    Lc = torch.linalg.cholesky(M) if M.dim() == 2 else None
    p0 = (M.sqrt() * torch.randn(dim, dtype=torch.float64)) if M.dim() == 1 else Lc @ torch.randn(dim, dtype=torch.float64)
    ident = case["identity"]
    moved = False
    try:
        if ident == "reversal":
            if case["seed"] % 5 == 0 and not case["target"].startswith("phylo") and M.dim() == 1:  # (a dense single-precision matrix is declined by torch's matmul)
                # mixed precision: the mass matrix (hence the momentum) is single precision, the model parameters are double: positions and
                # momenta are still carried in double precision along the trajectory
                Minv = Minv.float()
                p0 = p0.float()
                C["mixed_precision_reversals"] = C.get("mixed_precision_reversals", 0) + 1
            q1, p1 = flow(q0, p0)
            q2, p2 = flow(q1, -p1)
            C["reversals"] += 1
            moved = float((q1 - q0).abs().max()) > 1e-6
            scale = 1.0 + float(q0.abs().max()) + float(p0.abs().max()) + float(q1.abs().max()) + float(p1.abs().max())
            # round-off grows with the number of steps and the local expansion; bound from the energy scale
            err = max(float((q2 - q0).abs().max()), float((p2 + p0).abs().max()))
            tol = 1e-9 * scale * max(1.0, L / 5.0)
            if not np.isfinite(err):
                C["not_judged_nan"] += 1
            elif err > tol:
                V.append(tt.viol("C16:reversal:%s:%s" % (case["target"], case["mass"]), "integrating, negating the momentum and integrating again misses the start by %.3g (tolerance %.3g; eps=%.4g, L=%d, dim=%d)" % (err, tol, eps, L, dim), **detail))
            if case["target"] == "correlated" and not V and np.isfinite(err):
                # trajectories chained on the same tensors, as the operator does after an accepted move, with the target changing in
                # between (another block / a hyper-parameter moved by another operator): reversal must hold on the new target
                integ = LeapfrogIntegrator(None, L, eps)
                setq(q0)
                integ(joint, params, p0.clone(), Minv)
                dic["loc"].tensor = dic["loc"].tensor + 0.7
                qa = getq()
                pa = p0.flip(0).clone()
                pb = integ(joint, params, pa.clone(), Minv).detach().clone()
                qb = getq()
                pc = integ(joint, params, -pb.clone(), Minv).detach().clone()
                qc = getq()
                C["reversals"] += 1
                C["chained_reversals"] = C.get("chained_reversals", 0) + 1
                # the same integrator object proposes twice from the same point (the first proposal was rejected) while another block of
                # the target moved in between: the second trajectory is the one a fresh integrator computes on the new target
                integ2 = LeapfrogIntegrator(None, L, eps)
                setq(q0)
                integ2(joint, params, p0.clone(), Minv)
                setq(q0)
                dic["loc"].tensor = dic["loc"].tensor - 1.3
                pd_ = integ2(joint, params, p0.clone(), Minv).detach().clone()
                qd_ = getq()
                setq(q0)
                pe_ = LeapfrogIntegrator(None, L, eps)(joint, params, p0.clone(), Minv).detach().clone()
                qe_ = getq()
                C["same_start_after_target_change"] = C.get("same_start_after_target_change", 0) + 1
                err3 = max(float((qd_ - qe_).abs().max()), float((pd_ - pe_).abs().max()))
                if np.isfinite(err3) and err3 > 1e-10 * (1.0 + float(qe_.abs().max()) + float(pe_.abs().max())):
                    V.append(tt.viol("C16:trajectory-depends-on-integrator-history", "a second trajectory from the same start, after the target changed, differs from the one a new integrator computes (by %.3g; eps=%.4g, L=%d, dim=%d)" % (err3, eps, L, dim), **detail))
                err2 = max(float((qc - qa).abs().max()), float((pc + pa).abs().max()))
                scale2 = 1.0 + float(qa.abs().max()) + float(pa.abs().max()) + float(qb.abs().max()) + float(pb.abs().max())
                if np.isfinite(err2) and err2 > 1e-9 * scale2 * max(1.0, L / 5.0):
                    V.append(tt.viol("C16:reversal:chained-after-target-change:%s" % case["mass"], "a trajectory started on tensors left by the previous one, after the target changed, is not reversible: misses the start by %.3g (eps=%.4g, L=%d, dim=%d)" % (err2, eps, L, dim), **detail))
        elif ident == "volume":
            z0 = torch.cat([q0, p0])
            J = np.zeros((2 * dim, 2 * dim))
            for j in range(2 * dim):
                h = 1e-5 * max(1.0, abs(float(z0[j])))
                zp, zm = z0.clone(), z0.clone()
                zp[j] += h
                zm[j] -= h
                a = torch.cat(flow(zp[:dim], zp[dim:]))
                b = torch.cat(flow(zm[:dim], zm[dim:]))
                J[:, j] = ((a - b) / (2 * h)).numpy()
            C["determinants"] += 1
            moved = True
            if not np.all(np.isfinite(J)):
                C["not_judged_nan"] += 1
            else:
                sign, logdet = np.linalg.slogdet(J)
                cond = np.linalg.cond(J)
                tol = max(1e-6, 1e-9 * cond)
                if abs(logdet) > tol:
                    V.append(tt.viol("C16:volume:%s:%s" % (case["target"], case["mass"]), "log|det D Phi| = %.3g (tolerance %.3g; eps=%.4g, L=%d, dim=%d)" % (logdet, tol, eps, L, dim), **detail))
        elif ident == "order":
            if curv is None:
                return {"violations": V, "counters": C, "fingerprint": None, "sample": None}
            lam = curv * float(Minv.max() if Minv.dim() == 1 else torch.linalg.eigvalsh(Minv).max())
            e0 = 0.1 / np.sqrt(lam)
            T = e0 * 8
            slopes = []
            for rep in range(9):
                qr = torch.tensor(rng.normal(0, 1, dim))
                pr = (M.sqrt() * torch.randn(dim, dtype=torch.float64)) if M.dim() == 1 else Lc @ torch.randn(dim, dtype=torch.float64)
                h0 = H(qr, pr)
                xs, ys = [], []
                for lev in range(5):
                    e = e0 / 2**lev
                    steps = int(round(T / e))
                    q1, p1 = flow(qr, pr, e, steps)
                    dH = abs(H(q1, p1) - h0)
                    if dH > 1e-13 * max(1.0, abs(h0)):
                        xs.append(np.log(e))
                        ys.append(np.log(dH))
                if len(xs) >= 4:
                    slopes.append(np.polyfit(xs, ys, 1)[0])
            if len(slopes) >= 5:
                C["order_fits"] += 1
                moved = True
                med = float(np.median(slopes))
                if not 1.7 <= med <= 2.3:
                    V.append(tt.viol("C16:energy-order:%s" % case["target"], "energy error scales with step size to the power %.2f (median over %d starts), expected 2" % (med, len(slopes)), slopes=[float(s) for s in slopes], **detail))
        elif ident == "hastings":
            run_hastings(case, dic, joint, params, pids, M, eps, L, V, C, detail)
            moved = True
    except ValueError as e:
        # the integrator's own guard (NaN potential/gradient): the trajectory left the domain, nothing to judge
        if "NAN" in str(e).upper():
            C["not_judged_nan"] += 1
        else:
            raise
    fp = "%s|%s|%d" % (case["target"], ident, case["seed"]) if moved else None
    return {"violations": V, "counters": C, "fingerprint": fp, "sample": {"target": case["target"], "identity": ident, "eps": eps, "L": L, "dim": dim, "mass": case["mass"]}}


def run_hastings(case, dic, joint, params, pids, M, eps, L, V, C, detail):
    """HMCOperator.step(): returned value must be K(p0) - K(p1) for the momenta actually drawn and returned"""
    import torch
    from torchtree import Parameter
    from torchtree.inference.hmc.integrator import LeapfrogIntegrator
    from torchtree.inference.hmc.operator import HMCOperator

    integ = LeapfrogIntegrator("integ", L, eps * (0.31 if case.get("late_step_size") else 1.0))
    integ.step_size = eps
    mm = Parameter("mass", M.clone())
    kw = {}
    low_threshold = case["seed"] % 4 == 1
    if low_threshold:
        kw["divergence_threshold"] = 1e-9  # documented option: energy errors above it are *reported*; the move is still a proposal
        C["low_divergence_threshold_operators"] = C.get("low_divergence_threshold_operators", 0) + 1
    searched = case["seed"] % 4 == 0
    if searched:
        kw["find_reasonable_step_size"] = True  # documented option: trial trajectories while the operator is constructed
        with torch.no_grad():
            joint()  # (the chain has evaluated its target before the operator is built)
    import contextlib as _cl
    import io as _io

    start_values = [p_.tensor.detach().clone() for p_ in params]
    with _cl.redirect_stdout(_io.StringIO()):
        try:
            op = HMCOperator("hmc", joint, params, integ, mm, disable_adaptation=True, **kw)
        except (RuntimeError, ValueError, IndexError):
            import traceback as _tb

            if not (searched and case["target"].startswith("phylo") and "find_reasonable_step_size" in _tb.format_exc()):
                raise
            # the search doubles the step size until the trial trajectories become bad; on a phylogenetic posterior with a bounded support
            # (root below the origin of a birth-death prior) such a trajectory can leave the support, where the density raises: outside the
            # quantifier (smooth targets), not judged; the operator is built without the search
            C["step_size_searches_that_left_the_support"] = C.get("step_size_searches_that_left_the_support", 0) + 1
            searched = False
            kw.pop("find_reasonable_step_size")
            for p_, v_ in zip(params, start_values):
                p_.tensor = v_
            integ.step_size = eps
            op = HMCOperator("hmc", joint, params, integ, mm, disable_adaptation=True, **kw)
    if searched:
        C["operators_built_with_step_size_search"] = C.get("operators_built_with_step_size_search", 0) + 1
        integ.step_size = eps
        with torch.no_grad():
            carried = float(joint())
        for p_ in params:
            p_.tensor = p_.tensor.detach().clone()  # forces a recomputation at the very same values
        with torch.no_grad():
            fresh = float(joint())
        if abs(carried - fresh) > 1e-12 * max(1.0, abs(fresh)):
            V.append(tt.viol("C16:potential-energy-stale-after-step-size-search", "after HMCOperator(find_reasonable_step_size=True) the joint returns %.12g for parameter values at which it evaluates to %.12g: the first acceptance decisions use a Hamiltonian difference of another point" % (carried, fresh), **detail))
            return
    if case["seed"] % 4 == 3 and not case.get("restored_mass"):
        # the mass matrix is re-assigned through its parameter (what adaptors and restarts do) to a matrix that differs from the old
        # one by a factor of a few, at a scale of 1e-9 (parameters measured in units of 1e4..1e5): the inverse has to follow
        mm.tensor = M * 1e-9
        _ = op.inverse_mass_matrix
        M = M * 4.7e-9
        mm.tensor = M.clone()
        integ.step_size = eps * (4.7e-9 ** 0.5)  # the same trajectories in the rescaled units
        C["reassigned_small_mass_matrices"] = C.get("reassigned_small_mass_matrices", 0) + 1
    if case["seed"] % 4 == 2 and not case.get("restored_mass"):
        # a mass-matrix adaptor rewrites the operator's mass matrix between moves: the inverse the integrator gets has to follow
        from torchtree.inference.hmc.adaptation import MassMatrixAdaptor

        ad = MassMatrixAdaptor("ad.mass", params, mm, update_frequency=2)
        arng = np.random.default_rng(case["seed"])
        keep = [p.tensor.detach().clone() for p in params]
        for it in range(12):
            for p in params:
                p.tensor = p.tensor.detach() + torch.tensor(arng.normal(0, 0.5, tuple(p.tensor.shape)))
            ad.learn(torch.tensor(0.7), it + 1, True)
        for p, t in zip(params, keep):
            p.tensor = t
        M = mm.tensor.detach().clone()
        C["adapted_mass_matrices"] = C.get("adapted_mass_matrices", 0) + 1
    rec = {}
    ham = op._hamiltonian
    orig_sample = ham.sample_momentum

    def sample(mass):
        p = orig_sample(mass)
        rec["p0"] = p.detach().clone()
        rec["mass"] = mass.detach().clone()
        return p

    ham.sample_momentum = sample
    if case.get("restored_mass"):
        # the operator is restored from a checkpoint whose mass matrix differs from the one it was constructed with
        import json

        from torchtree.core.parameter_encoder import ParameterEncoder

        state = json.loads(json.dumps(op.state_dict(), cls=ParameterEncoder))
        M2 = M * 1.7 if M.dim() == 1 else M @ M.t() / float(M.shape[0]) + 0.3 * torch.eye(M.shape[0], dtype=M.dtype)
        state["mass_matrix"]["tensor"] = M2.tolist()
        op.load_state_dict(state)
        M = M2
        C["restored_mass_matrices"] = C.get("restored_mass_matrices", 0) + 1
    orig_call = integ.__class__.__call__

    def call(self_, model, parameters, momentum, inv):
        out = orig_call(self_, model, parameters, momentum, inv)
        rec["p1"] = out.detach().clone()
        rec["inv"] = inv.detach().clone()
        return out

    integ.__class__.__call__ = call
    try:
        for it in range(3):
            before = [p.tensor.detach().clone() for p in params]
            with torch.no_grad():
                lj0 = float(joint())
            rec.pop("p1", None)
            import contextlib
            import io

            with contextlib.redirect_stdout(io.StringIO()):
                hr = op.step()
            C["hastings_terms"] += 1
            if torch.isinf(hr):
                if "p1" in rec and bool(torch.isfinite(rec["p1"]).all()):
                    inv = rec["inv"]
                    K = lambda p: float(0.5 * (p @ (inv * p if inv.dim() == 1 else inv @ p)))
                    V.append(tt.viol("C16:hastings-term:infinite-for-a-completed-trajectory", "HMCOperator.step() returned an infinite Hastings term although the trajectory completed (divergence threshold %s); the change in kinetic energy is %.6g" % (
                        kw.get("divergence_threshold", "default"), K(rec["p0"]) - K(rec["p1"])), **detail))
                    break
                op.reject()
                continue
            inv = rec["inv"]
            K = lambda p: float(0.5 * (p @ (inv * p if inv.dim() == 1 else inv @ p)))
            expect = K(rec["p0"]) - K(rec["p1"])
            if abs(float(hr) - expect) > 1e-9 * max(1.0, abs(expect)):
                V.append(tt.viol("C16:hastings-term:%s" % case["mass"], "HMCOperator.step() returned %.12g, the change in kinetic energy of the recorded momenta is %.12g" % (float(hr), expect), **detail))
                break
            # the inverse mass matrix used must be the inverse of the mass matrix the momentum was drawn with
            Mdrawn = rec.get("mass", M)
            Minv_ref = 1.0 / Mdrawn if Mdrawn.dim() == 1 else torch.inverse(Mdrawn)
            if float((Mdrawn - M).abs().max()) > 1e-12 * float(M.abs().max()):
                V.append(tt.viol("C16:mass-matrix-not-restored:%s" % case["mass"], "the momentum was not drawn with the mass matrix the operator was restored with", **detail))
                break
            if float((inv - Minv_ref).abs().max()) > 1e-9 * float(Minv_ref.abs().max()):
                V.append(tt.viol("C16:mass-matrix-mismatch:%s" % case["mass"], "the integrator was not given the inverse of the mass matrix the momentum was drawn from", **detail))
                break
            if any(p.tensor.requires_grad for p in params):
                V.append(tt.viol("C16:parameters-left-requiring-grad", "parameters still require grad after HMCOperator.step()", **detail))
                break
            # reject restores bit-identically
            op.reject()
            after = [p.tensor.detach().clone() for p in params]
            if any(not torch.equal(a, b) for a, b in zip(before, after)):
                V.append(tt.viol("C16:reject-not-identical", "parameters after reject() differ from their values before the HMC proposal", **detail))
                break
    finally:
        integ.__class__.__call__ = orig_call


def run_hmc_class(case, rng, dic, joint, params, M, Minv, eps, L, V, C, detail):
    """The stand-alone sampler torchtree.inference.hmc.hmc.HMC, observed from outside: the momentum it draws, the momentum the
    integrator hands back, the uniform it draws and the parameters at the end of each iteration.  Each decision must be the one the
    full Hamiltonian difference H(q0, p0) - H(q1, p1) dictates, with H computed here from the joint at q0 / q1 and numpy kinetic energies."""
    import contextlib
    import io

    import numpy.random as npr
    import torch
    from torchtree.inference.hmc.hamiltonian import Hamiltonian
    from torchtree.inference.hmc.hmc import HMC
    from torchtree.inference.hmc.integrator import LeapfrogIntegrator

    Mi = Minv.detach().numpy()
    K = lambda p: 0.5 * float(p @ (Mi * p if Mi.ndim == 1 else Mi @ p))
    rec = {"p0": None, "p1": None, "u": None, "q0": None}
    rows = []

    def getq():
        return torch.cat([p.tensor.detach().clone() for p in params], -1).numpy()

    def pot(q):
        # potential energy at q from a second, independently loaded copy of the target
        start = 0
        for p_ in shadow_params:
            n = p_.tensor.shape[-1]
            p_.tensor = torch.tensor(q[start:start + n], dtype=p_.tensor.dtype)
            start += n
        with torch.no_grad():
            return -float(shadow_joint())

    spec2, jid2, pids2, _ = build_target(case, np.random.default_rng(case["seed"]))
    _, dic2 = tt.load(spec2)
    shadow_joint, shadow_params = dic2[jid2], [dic2[i] for i in pids2]

    class Obs:
        def initialize(self):
            pass

        def close(self):
            pass

        def log(self, sample=None):
            rows.append(dict(rec, q_end=getq()))

    integ = LeapfrogIntegrator("integ", L, eps)
    real_sample = Hamiltonian.sample_momentum
    real_call = LeapfrogIntegrator.__call__
    real_uniform = npr.uniform
    state = np.random.RandomState(case["seed"] % (2**31))

    def sample_momentum(self, mass_matrix):
        rec["q0"] = getq()
        p = real_sample(self, mass_matrix)
        rec["p0"] = p.detach().clone().numpy()
        return p

    def integ_call(self, *a, **k):
        p = real_call(self, *a, **k)
        rec["p1"] = p.detach().clone().numpy()
        rec["q1"] = getq()
        return p

    def uniform(*a, **k):
        rec["u"] = float(state.uniform())
        return rec["u"]

    n_iter = 40
    hmc = HMC(params, joint, n_iter, integ, mass_matrix=M.clone(), loggers=[Obs()], every=10**9)
    Hamiltonian.sample_momentum = sample_momentum
    LeapfrogIntegrator.__call__ = integ_call
    npr.uniform = uniform
    np.random.uniform = uniform
    try:
        with contextlib.redirect_stdout(io.StringIO()):
            hmc.run()
    finally:
        Hamiltonian.sample_momentum = real_sample
        LeapfrogIntegrator.__call__ = real_call
        npr.uniform = real_uniform
        np.random.uniform = real_uniform
    acc = 0
    for i, r in enumerate(rows):
        h0 = pot(r["q0"]) + K(r["p0"])
        h1 = pot(r["q1"]) + K(r["p1"])
        if not (np.isfinite(h0) and np.isfinite(h1)):
            C["not_judged_nan"] += 1
            continue
        alpha = h0 - h1
        margin = abs(min(0.0, alpha) - np.log(r["u"]))
        if margin < 1e-7 * max(1.0, abs(h0)):
            continue  # too close to call in floating point
        expect = min(0.0, alpha) > np.log(r["u"])
        moved = not np.array_equal(r["q_end"], r["q0"])
        stayed_at_proposal = np.array_equal(r["q_end"], r["q1"])
        C["hmc_class_decisions"] = C.get("hmc_class_decisions", 0) + 1
        acc += bool(expect)
        if expect != stayed_at_proposal or (not expect and moved):
            V.append(tt.viol("C16:hmc-class:decision-not-on-hamiltonian-difference", "iteration %d of the stand-alone HMC sampler: H(q0,p0) - H(q1,p1) = %.6g, log u = %.6g, so the move is %s, but the parameters at the end of the iteration are %s" % (i + 1, alpha, np.log(r["u"]), "accepted" if expect else "rejected", "the proposal" if stayed_at_proposal else ("the start" if not moved else "neither")), accepted_before=acc, **detail))
            break
    C["hmc_class_accepted"] = C.get("hmc_class_accepted", 0) + acc
    return {"violations": V, "counters": C, "fingerprint": None, "fingerprints": [], "sample": None}


def run_hastings32(case, rng, V, C):
    import contextlib
    import io

    import torch
    from torchtree import Parameter
    from torchtree.inference.hmc.integrator import LeapfrogIntegrator
    from torchtree.inference.hmc.operator import HMCOperator

    d = case["d"]
    old_dtype = torch.get_default_dtype()
    torch.set_default_dtype(torch.float32)
    try:
        spec = [{"id": "q0", "type": "Parameter", "tensor": rng.normal(0, 1.0, d).tolist(), "dtype": "torch.float32"},
                {"id": "d0", "type": "Distribution", "distribution": "torch.distributions.Normal", "x": "q0", "parameters": {"loc": 0.0, "scale": 1.0}},
                # a factor of the posterior the operator does not touch (the likelihood of a large fixed data set): log density about -2e6
                {"id": "dfix", "type": "Distribution", "distribution": "torch.distributions.Normal", "x": {"id": "ydata", "type": "Parameter", "tensor": [1500.0, 1400.0], "dtype": "torch.float32"},
                 "parameters": {"loc": 0.0, "scale": 1.0}},
                {"id": "joint", "type": "JointDistributionModel", "distributions": ["d0", "dfix"]}]
        objs, dic = tt.load(spec)
        params = [dic["q0"]]
        integ = LeapfrogIntegrator("integ", case["L"], case["eps"])
        op = HMCOperator("hmc", dic["joint"], params, integ, Parameter("mass", torch.ones(d, dtype=torch.float32)), disable_adaptation=True)
        rec = {}
        ham = op._hamiltonian
        orig_sample = ham.sample_momentum

        def sample(mass):
            p = orig_sample(mass)
            rec["p0"] = p.detach().clone()
            return p

        ham.sample_momentum = sample
        orig_call = integ.__class__.__call__

        def call(self_, model, parameters, momentum, inv):
            out = orig_call(self_, model, parameters, momentum, inv)
            rec["p1"] = out.detach().clone()
            return out

        integ.__class__.__call__ = call
        try:
            for it in range(4):
                rec.pop("p1", None)
                with torch.no_grad():
                    lp = float(dic["joint"]())
                with contextlib.redirect_stdout(io.StringIO()):
                    hr = op.step()
                C["hastings_terms"] += 1
                C["single_precision_hastings_terms"] = C.get("single_precision_hastings_terms", 0) + 1
                if "p1" in rec and bool(torch.isfinite(hr)):
                    K = lambda p: float(0.5 * (p.double() @ p.double()))
                    expect = K(rec["p0"]) - K(rec["p1"])
                    if abs(float(hr) - expect) > 1e-4 * max(1.0, abs(expect), K(rec["p0"])):
                        V.append(tt.viol("C16:hastings-term:single-precision", "float32, log density %.3g: HMCOperator.step() returned %.8g, the change in kinetic energy of the recorded momenta is %.8g" % (lp, float(hr), expect), case=case))
                        break
                op.reject()
        finally:
            integ.__class__.__call__ = orig_call
    finally:
        torch.set_default_dtype(old_dtype)
    return {"violations": V, "counters": C, "fingerprint": "hastings32|%d" % case["seed"], "sample": None}


def run_nan(case, rng, V, C):
    """a target with a NaN region: positions must be restored before each retry and `inf` returned after 10 failures"""
    import torch
    from torchtree import Parameter
    from torchtree.core.model import CallableModel
    from torchtree.inference.hmc.integrator import LeapfrogIntegrator
    from torchtree.inference.hmc.operator import HMCOperator

    class Cliff(CallableModel):
        def __init__(self, x, bound):
            super().__init__("cliff")
            self.x = x
            self.bound = bound
            self.calls = 0

        def _call(self, *a, **k):
            self.calls += 1
            v = -0.5 * (self.x.tensor ** 2).sum()
            if float(self.x.tensor.detach().abs().max()) > self.bound:
                return v * float("nan")
            return v

        def _sample_shape(self):
            return torch.Size([])

        @classmethod
        def from_json(cls, data, dic):
            raise NotImplementedError

    x = Parameter("x", torch.tensor(rng.normal(0, 0.2, 2)))
    bound = float(rng.choice([0.5, 0.8, 1.2, 1e-3]))  # 1e-3: every proposal leaves the region -> ten failures -> inf
    x.tensor = torch.tensor(rng.uniform(-bound / 2, bound / 2, 2))
    model = Cliff(x, bound)
    integ = LeapfrogIntegrator("i", 5, 0.4)
    op = HMCOperator("hmc", model, [x], integ, Parameter("m", torch.ones(2, dtype=torch.float64)), disable_adaptation=True)
    detail = {"case": case, "bound": bound}
    rec = {"p0": [], "p1": []}
    ham = op._hamiltonian
    orig_sample = ham.sample_momentum

    def sample(mass):
        p = orig_sample(mass)
        rec["p0"].append(p.detach().clone())
        return p

    ham.sample_momentum = sample
    orig_call = type(integ).__call__

    class Wrapped(type(integ)):
        def __call__(self_, model_, parameters, momentum, inv):
            out = orig_call(self_, model_, parameters, momentum, inv)
            rec["p1"].append(out.detach().clone())
            return out

    integ.__class__ = Wrapped
    for it in range(8):
        before = x.tensor.detach().clone()
        rec["p0"].clear(), rec["p1"].clear()
        hr = op.step()
        C["nan_region_steps"] += 1
        if not torch.isinf(hr) and rec["p0"] and rec["p1"]:
            # the Hastings term is the change in kinetic energy of the trial that succeeded: its own momentum draw, its own end point
            K = lambda p: float(0.5 * (p @ p))
            expect = K(rec["p0"][-1]) - K(rec["p1"][-1])
            if len(rec["p0"]) > 1:
                C["retried_then_succeeded"] = C.get("retried_then_succeeded", 0) + 1
            if abs(float(hr) - expect) > 1e-9 * max(1.0, abs(expect)):
                V.append(tt.viol("C16:hastings-term:after-%s" % ("retry" if len(rec["p0"]) > 1 else "first-trial"), "step() returned %.12g after %d momentum draws, the change in kinetic energy of the successful trajectory is %.12g"
                                 % (float(hr), len(rec["p0"]), expect), **detail))
                break
        inside = float(x.tensor.detach().abs().max()) <= bound
        if torch.isinf(hr):
            if not torch.equal(x.tensor.detach(), before):
                V.append(tt.viol("C16:nan-region:not-restored", "after ten failed trajectories the operator returned inf but left the parameters at %s instead of %s" % (x.tensor.tolist(), before.tolist()), **detail))
                break
        elif not inside:
            V.append(tt.viol("C16:nan-region:accepted-nan-state", "step() returned a finite Hastings term %.4g with the position inside the NaN region" % float(hr), **detail))
            break
        if x.tensor.requires_grad:
            V.append(tt.viol("C16:parameters-left-requiring-grad", "parameters still require grad after HMCOperator.step()", **detail))
            break
        op.reject()
        if not torch.equal(x.tensor.detach(), before):
            V.append(tt.viol("C16:reject-not-identical", "parameters after reject() differ from their values before the proposal", **detail))
            break
    return {"violations": V, "counters": C, "fingerprint": "nan|%d" % case["seed"], "sample": None}
