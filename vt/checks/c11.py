"""C11 - cached values never go stale.

History checker: random histories of public-interface updates, interleaved with evaluations of random subsets (so that
caches are in every clean/dirty combination), are applied to a zoo of model graphs; after every operation the observed
values are compared with a *fresh rebuild*: the whole specification instantiated again from JSON with the primary's
current leaf values written into the JSON (no cache and no listener is shared with the primary graph).
A parameter update must never raise."""
from __future__ import annotations

import copy

import numpy as np

from .. import tt
from ..gen import zoo

PROPERTY = "C11"
LEVEL = "exploration"
RULE = ("cases = model graph of the zoo (unrooted / ratio time tree / shift time tree / general+codon / distributions+parameter kinds) x "
        "random history of 5..40 operations {assign to a leaf, assign through a view / concatenation / transformed parameter, sample()/rsample() of a "
        "distribution, operator step() then accept()/reject(), in-place data edit + fire_parameter_changed(), requires_grad toggle} interleaved with "
        "evaluations of random subsets; non-trivial = history with >= 1 update after an evaluation; distinct by (graph, seed)")
ASSUMPTIONS = [
    "assignment through a view of a leaf that currently requires grad is not generated (PyTorch forbids the in-place write; no sampler or optimiser does it)",
    "assignment through a view of a *derived* parameter is not generated (it would write into a cached transformed value)",
    "the fresh rebuild receives the leaf values through its JSON, never through parameter updates",
]
BUDGET = {"quick": 80, "thorough": 900}
ROUNDS = {"thorough": 8}
FLOORS = {"overlay.C11.recomputed": {"quick": 50, "thorough": 800}, "operations": {"quick": 3000, "thorough": 30000}, "comparisons": {"quick": 10000, "thorough": 100000}, "graphs": 8, "op_kinds": 8, "optimizer_runs": {"quick": 200, "thorough": 2000}, "optimizer_kinds": 4, "step_size_searches": {"quick": 100, "thorough": 1000},
          "handlers_reached": 15}

OPS = ["optimizer-run", "hmc-step-size-search", "assign", "assign", "assign", "assign-view", "assign-cat", "assign-transformed", "sample", "rsample", "operator-accept", "operator-reject", "data-edit", "requires-grad"]
INVERTIBLE = ("ExpTransform", "SigmoidTransform", "LogTransform", "AffineTransform", "StickBreakingTransform", "CumSumExpTransform")
_counts = {}


def worker_init(tier):
    """count which (class, handler) pairs are actually reached"""
    import torchtree  # noqa: F401
    from torchtree.core.utils import REGISTERED_CLASSES

    tt.register_all()
    seen = set()
    for cls in list(REGISTERED_CLASSES.values()):
        for klass in getattr(cls, "__mro__", []):
            for h in ("handle_parameter_changed", "handle_model_changed"):
                f = klass.__dict__.get(h)
                if f is None or (klass, h) in seen or getattr(f, "_vt_wrapped", False) or getattr(f, "__isabstractmethod__", False):
                    continue
                seen.add((klass, h))
                setattr(klass, h, _wrap(f, "%s.%s" % (klass.__name__, h)))


def _wrap(f, key):
    def g(self, *a, **k):
        _counts[key] = _counts.get(key, 0) + 1
        return f(self, *a, **k)

    g._vt_wrapped = True
    g.__wrapped__ = f
    return g


def _cases(tier, seed):
    rng = np.random.default_rng([seed, 11])
    n = {"quick": 420, "thorough": 4000}[tier]
    names = list(zoo.GRAPHS)
    return [{"graph": names[i % len(names)], "seed": int(rng.integers(2**31)), "length": int(rng.integers(5, 41))} for i in range(n)]


def spec_with_values(spec, values):
    """the JSON specification with the given leaf values written in"""
    s = copy.deepcopy(spec)

    def rec(o):
        if isinstance(o, dict):
            if o.get("type") == "Parameter" and o.get("id") in values:
                o["tensor"] = values[o["id"]]
            for v in o.values():
                rec(v)
        elif isinstance(o, list):
            for v in o:
                rec(v)

    rec(s)
    return s


def observe(dic, g, ids_eval, ids_derived, tensors, flip=False, attrs_first=False):
    """flip: accessors that share one dirty flag (rates() / probabilities()) are read in the other order;
    attrs_first: derived tensors of sub-models are read before the models that use them are called"""
    out = {}

    def attrs():
        for i, exprs in tensors.items():
            exprs = [exprs] if isinstance(exprs, str) else list(exprs)
            for expr in (reversed(exprs) if flip else exprs):
                v = eval("o." + expr, {"o": dic[i]})
                out["attr:%s.%s" % (i, expr)] = tt.as_np(v, "C11:not-a-tensor:" + i, expr)

    if attrs_first:
        attrs()
    for i in ids_eval:
        if i in g.get("stochastic", ()):
            import torch

            torch.manual_seed(977)  # objectives that draw samples: the same stream on the primary and on the fresh copy
        out["eval:" + i] = tt.as_np(dic[i](), "C11:not-a-tensor:" + i, i + "()")
    for i in ids_derived:
        out["tensor:" + i] = tt.as_np(dic[i].tensor, "C11:not-a-tensor:" + i, i + ".tensor")
    if not attrs_first:
        attrs()
    return out


def _run_case(case):
    import torch
    from torchtree.core.parameter import CatParameter, Parameter, TransformedParameter, ViewParameter
    from torchtree.inference.mcmc.operator import ScalerOperator, SlidingWindowOperator

    _counts.clear()
    V = []
    g = zoo.build(case["graph"], case["seed"])
    gname = g["name"]
    C = {"operations": 0, "comparisons": 0, "evaluations_between_updates": 0, "rebuilds": 0, "graphs": [gname], "op_kinds": [], "update_raised": 0}
    rng = np.random.default_rng(case["seed"] + 7)
    objs, dic = tt.load(g["spec"])
    leaves = g["leaves"]
    history = []
    updates_after_eval = 0
    evaluated_once = False
    views = [i for i, o in dic.items() if isinstance(o, ViewParameter) and isinstance(o.parameter, Parameter)]
    cats = [i for i, o in dic.items() if isinstance(o, CatParameter)]
    tps = [i for i, o in dic.items() if isinstance(o, TransformedParameter) and type(o.transform).__name__ in INVERTIBLE and isinstance(o.x, Parameter)]
    # distributions whose parameters have the shape of their variable (what variational families look like):
    # sampling from one with scalar parameters would change the shape of x, which no driver does
    dists = [i for i in ("d.rev", "mvn", "detn") if i in dic]

    extra_leaves = ["tree.heights"] if gname == "time-plain" and "tree.heights" in dic else []
    data_leaves = [i for i in g.get("data", {}) if i in dic]  # data held in parameters (counts): updated through the same interface
    tviews = [i for i, o in dic.items() if isinstance(o, ViewParameter) and isinstance(o.parameter, TransformedParameter)]
    tview_written = False
    cviews = [i for i, o in dic.items() if isinstance(o, ViewParameter) and type(o.parameter).__name__ == "CatParameter"]

    def leaf_values():
        return {i: dic[i].tensor.detach().clone().tolist() for i in list(leaves) + extra_leaves + data_leaves}

    def compare(where, subset_eval, subset_derived, tensors):
        values = leaf_values()
        _, fresh = tt.load(spec_with_values(g["spec"], values))
        C["rebuilds"] += 1
        flip, first = bool(rng.random() < 0.5), bool(rng.random() < 0.5)
        C["read_orders"] = sorted(set(C.get("read_orders", [])) | {"%d%d" % (flip, first)})
        try:
            b = observe(fresh, g, subset_eval, subset_derived, tensors, flip, first)
        except tt.SubjectError:
            raise
        except Exception as e:
            from ..worker import _blame

            if _blame(e) is None and "torchtree" not in __import__("traceback").format_exc():
                raise
            # the freshly built copy declines these parameter shapes itself: nothing to compare the primary with
            C["fresh_copy_declined"] = C.get("fresh_copy_declined", 0) + 1
            return True
        a = observe(dic, g, subset_eval, subset_derived, tensors, flip, first)
        for k in a:
            C["comparisons"] += 1
            x, y = a[k], b[k]
            bad = x.shape != y.shape or not np.allclose(x, y, rtol=1e-12, atol=1e-300, equal_nan=True)
            if bad:
                cls = type(dic[k.split(":", 1)[1].split(".")[0] if k.startswith("attr:") else k.split(":", 1)[1]]).__name__ if True else ""
                last = history[-1] if history else None
                sig = "C11:stale:%s:%s" % (gname, k)
                if last and last.startswith("assign through view") and "of a transformed parameter" in last:
                    # mechanism: a view's setter writes into its parent's tensor; when the parent is a TransformedParameter that is the
                    # cached transformed value, not the parameter underneath: the value is neither propagated down nor survives the next update
                    sig = "C11:assignment-through-a-view-of-a-transformed-parameter-writes-into-its-cache"
                if last and last.startswith("Optimizer.run"):
                    # mechanism: the library's own optimiser driver leaves a model un-notified after its last in-place step
                    sig = "C11:stale-after-Optimizer.run:" + last.split("(")[1].split(",")[0]
                V.append(tt.viol(sig, "%s after %s: %s is %s, a freshly built copy with the same parameter values gives %s (last operation: %s)"
                                 % (gname, where, k, np.asarray(x).reshape(-1)[:3], np.asarray(y).reshape(-1)[:3], last), history=history[-12:], cls=cls))
                return False
        return True

    def new_value(pid):
        p = dic[pid]
        shape = tuple(p.tensor.shape)
        dom = leaves[pid]
        v = zoo.draw(rng, dom, shape)
        return torch.tensor(np.asarray(v, dtype=float).reshape(shape))

    def run_optimizer():
        """the library's own Optimizer (in-place steps by a torch optimiser, notifications issued by Optimizer.run) on a random
        density of the graph and a random subset of the parameters its gradient reaches"""
        import contextlib
        import io

        from torchtree.optim.optimizer import Optimizer

        cand_e = [i for i in g["evals"] if i not in g.get("stochastic", ())]
        if not cand_e:
            return None
        e = str(rng.choice(cand_e))
        for pid in leaves:
            p = dic[pid]
            p.tensor = p.tensor.detach().clone()
            p.requires_grad = True
        val = dic[e]().sum()
        reached = []
        if torch.isfinite(val) and val.requires_grad:
            try:
                val.backward()
            except (RuntimeError, NotImplementedError):
                return None  # a density that cannot be differentiated is C12's business, not an update
            reached = [pid for pid in leaves if dic[pid].grad is not None and bool(torch.isfinite(dic[pid].grad).all()) and leaves[pid] in ("positive", "real", "unit")]
        for pid in leaves:
            p = dic[pid]
            p.tensor = p.tensor.detach().clone()
        if not reached:
            return None
        chosen = [str(x) for x in rng.choice(reached, size=min(len(reached), int(rng.integers(1, 4))), replace=False)]
        params = [dic[pid] for pid in chosen]
        for p in params:
            p.requires_grad = True
        kind = str(rng.choice(["sgd-momentum", "adam-decay", "lbfgs", "sgd-zero-gradient"]))
        iterations = int(rng.integers(1, 4))
        gmax = max(float(dic[pid].grad.abs().max()) if dic[pid].grad is not None else 0.0 for pid in chosen) if False else 1.0
        tensors = [p.tensor for p in params]
        if kind == "sgd-zero-gradient":
            # a step that lands where the gradient is exactly zero while the momentum buffer is not (L1 penalty reaching 0)
            if "lasso" not in dic:
                kind = "sgd-momentum"
            else:
                e, chosen, params = "lasso", ["beta"], [dic["beta"]]
                dic["beta"].tensor = torch.full_like(dic["beta"].tensor.detach(), 0.5)
                dic["beta"].requires_grad = True
                tensors = [dic["beta"].tensor]
                topt = torch.optim.SGD(tensors, lr=0.5, momentum=0.9)
                iterations = 2
        if kind == "sgd-momentum":
            topt = torch.optim.SGD(tensors, lr=1e-5, momentum=0.9)
        elif kind == "adam-decay":
            topt = torch.optim.Adam(tensors, lr=1e-3, weight_decay=0.01)
        elif kind == "lbfgs":
            topt = torch.optim.LBFGS(tensors, lr=1e-3, max_iter=int(rng.integers(1, 4)))
        target = dic[e]
        opt = Optimizer("vt.opt", params, lambda: target().sum(), topt, iterations, maximize=True)  # (Optimizer wants a scalar loss)
        try:
            with contextlib.redirect_stdout(io.StringIO()):
                opt.run()
        except (ValueError, RuntimeError) as ex:
            if "within the support" not in str(ex) and "to satisfy the constraint" not in str(ex):
                # any other failure inside the run is the optimiser's business only if a freshly built copy holding the values it had
                # reached rejects them as well (an unconstrained optimiser can reach values no model accepts: a parent below its child,
                # a negative scale); a fresh copy that evaluates where the live model raised is a stale or corrupted state
                try:
                    _, fresh_ = tt.load(spec_with_values(g["spec"], leaf_values()))
                    with torch.no_grad():
                        fresh_[e]()
                    fresh_ok = True
                except Exception:
                    fresh_ok = False
                if fresh_ok:
                    raise
            # the unconstrained optimiser left the support in the middle of the run and the model (or torch.distributions) says so: not an
            # update with valid values; the parameters are given new values
            for pid in chosen:
                dic[pid].tensor = new_value(pid)
            C["optimizer_left_support"] = C.get("optimizer_left_support", 0) + 1
            return "Optimizer.run (%s) left the support; %s re-assigned" % (kind, ", ".join(chosen))
        # an unconstrained optimiser can leave the support (nothing the property is about): such a parameter is given a new value
        for pid in chosen:
            t = dic[pid].tensor.detach()
            dom = leaves[pid]
            if not bool(torch.isfinite(t).all()) or (dom in ("positive", "unit") and bool((t <= 1e-6).any())) or (dom == "unit" and bool((t >= 1 - 1e-6).any())) or bool((t.abs() > 1e3).any()):
                dic[pid].tensor = new_value(pid)
                C["optimizer_left_support"] = C.get("optimizer_left_support", 0) + 1
        C["optimizer_runs"] = C.get("optimizer_runs", 0) + 1
        C["optimizer_kinds"] = sorted(set(C.get("optimizer_kinds", [])) | {kind})
        return "Optimizer.run (%s, %d iterations, maximise %s) on %s" % (kind, iterations, e, ", ".join(chosen))

    def run_step_size_search():
        """an HMCOperator constructed with find_reasonable_step_size: its trial trajectories move the parameters and put them back;
        afterwards every model is that of the (unchanged) parameter values"""
        import contextlib
        import io

        from torchtree import Parameter as P_
        from torchtree.inference.hmc.integrator import LeapfrogIntegrator
        from torchtree.inference.hmc.operator import HMCOperator

        cand_e = [i for i in g["evals"] if i not in g.get("stochastic", ())]
        if not cand_e:
            return None
        e = str(rng.choice(cand_e))
        for pid in leaves:
            dic[pid].tensor = dic[pid].tensor.detach().clone()
            dic[pid].requires_grad = True
        val0 = dic[e]()
        val = val0.sum()
        reached = []
        if val0.numel() == 1 and torch.isfinite(val) and val.requires_grad:  # (an HMC target is a scalar density)
            try:
                val.backward()
            except (RuntimeError, NotImplementedError):
                return None
            reached = [pid for pid in leaves if dic[pid].grad is not None and bool(torch.isfinite(dic[pid].grad).all()) and leaves[pid] == "real" and dic[pid].tensor.dim() == 1]
        for pid in leaves:
            dic[pid].tensor = dic[pid].tensor.detach().clone()
        if not reached:
            return None
        chosen = [str(x) for x in rng.choice(reached, size=min(len(reached), int(rng.integers(1, 3))), replace=False)]
        params = [dic[pid] for pid in chosen]
        dim = sum(int(p.tensor.shape[-1]) for p in params)
        before = [p.tensor.detach().clone() for p in params]
        try:
            with contextlib.redirect_stdout(io.StringIO()):
                integ = LeapfrogIntegrator("vt.int", 3, 1e-3)
                HMCOperator("vt.hmc", dic[e], params, integ, P_("vt.mass", torch.ones(dim, dtype=torch.float64)), find_reasonable_step_size=True)
        except (ValueError, RuntimeError, IndexError) as ex:
            # (the search left the support of the density: the integrator's own guard, or - once the search has doubled the step size at least
            # three times - a density that raises outside its support, e.g. a root above the origin of a birth-death prior) - put the values
            # back ourselves; not an update through the public interface with valid values, not judged
            if not isinstance(ex, ValueError) and not integ.step_size >= 8e-3:
                raise
            for p, t in zip(params, before):
                p.tensor = t
            C["step_size_searches_that_left_the_support"] = C.get("step_size_searches_that_left_the_support", 0) + 1
            return None
        C["step_size_searches"] = C.get("step_size_searches", 0) + 1
        return "HMCOperator constructed with find_reasonable_step_size on %s (joint %s)" % (", ".join(chosen), e)

    ok = True
    for step in range(case["length"]):
        op = str(rng.choice(OPS + (["heights-shape"] * 3 if extra_leaves else []) + (["assign-view-of-transformed"] if tviews else []) + (["derived-shape"] if tps else []) + (["assign-view-of-cat"] * 2 if cviews else []) + (["assign-data"] * 2 if data_leaves else [])))
        desc = None
        tview_written = False
        try:
            if op == "assign":
                pid = str(rng.choice(list(leaves)))
                dic[pid].tensor = new_value(pid)
                desc = "assign " + pid
            elif op == "assign-view" and views:
                vid = str(rng.choice(views))
                v = dic[vid]
                if v.parameter.tensor.requires_grad:  # in-place writes need a plain tensor (see ASSUMPTIONS)
                    v.parameter.tensor = v.parameter.tensor.detach().clone()
                cur = v.tensor
                v.tensor = torch.tensor(rng.normal(0, 1, tuple(cur.shape))) if leaves.get(v.parameter.id, "real") == "real" else torch.tensor(np.exp(rng.normal(0, 0.3, tuple(cur.shape))))
                desc = "assign through view " + vid
            elif op == "assign-cat" and cats:
                cid = str(rng.choice(cats))
                c = dic[cid]
                n = c.tensor.shape[-1]
                vals = np.concatenate([rng.normal(0, 1, n // 2), np.exp(rng.normal(0, 0.3, n - n // 2))])
                c.tensor = torch.tensor(vals)
                desc = "assign through concatenation " + cid
            elif op == "assign-transformed" and tps:
                tid = str(rng.choice(tps))
                t = dic[tid]
                cur = t.tensor.detach()
                if type(t.transform).__name__ == "StickBreakingTransform":
                    val = torch.tensor(rng.dirichlet([4.0] * cur.shape[-1]))
                    if rng.random() < 0.5:
                        # frequencies as they are written down (three decimals: they add up to one only approximately); the value the
                        # parameter then holds is whatever the transform makes of them, and the same in a fresh copy
                        val = torch.tensor(np.round(val.numpy(), 3)).clamp(min=0.001)
                        C["rounded_simplex_assignments"] = C.get("rounded_simplex_assignments", 0) + 1
                elif type(t.transform).__name__ in ("SigmoidTransform",):
                    val = torch.tensor(rng.uniform(0.1, 0.9, tuple(cur.shape)))
                elif type(t.transform).__name__ in ("LogTransform", "AffineTransform"):
                    val = torch.tensor(rng.normal(0, 1, tuple(cur.shape)))
                elif type(t.transform).__name__ == "CumSumExpTransform":
                    val = torch.tensor(np.exp(rng.normal(0, 1, tuple(cur.shape))))
                else:
                    val = torch.tensor(np.exp(rng.normal(0, 0.5, tuple(cur.shape))))
                if tid == "bdsk.origin":  # the origin has to stay above the root
                    val = dic["tree.root_height"].tensor.detach() + torch.tensor(np.exp(rng.normal(-0.3, 0.3, tuple(cur.shape))))
                if tid == "tree.root_height.shifted":
                    val = torch.tensor(np.exp(rng.normal(0.5, 0.3, tuple(cur.shape))))
                t.tensor = val
                desc = "assign through transformed parameter " + tid
            elif op in ("sample", "rsample") and dists:
                did = str(rng.choice(dists))
                d = dic[did]
                if did == "d.oneonx":
                    continue
                with torch.no_grad():
                    getattr(d, op)()
                desc = "%s() of %s" % (op, did)
            elif op.startswith("operator"):
                cand = [i for i, dom in leaves.items() if dom in ("positive", "real") and dic[i].tensor.dim() == 1 and not dic[i].requires_grad]
                if not cand:
                    continue
                pid = str(rng.choice(cand))
                oper = (ScalerOperator(None, [dic[pid]], 1.0, 0.24, 0.7) if leaves[pid] == "positive" else SlidingWindowOperator(None, [dic[pid]], 1.0, 0.24, 0.5))
                with torch.no_grad():
                    oper.step()
                    # evaluate between proposal and decision, as MCMC.run does
                    sub = [str(x) for x in rng.choice(g["evals"], size=min(2, len(g["evals"])), replace=False)]
                    for i in sub:
                        if i in g.get("stochastic", ()):
                            torch.manual_seed(977)  # the stream the observer uses: a cached value must be comparable
                        dic[i]()
                    C["evaluations_between_updates"] += len(sub)
                    if op.endswith("accept"):
                        oper.accept()
                    else:
                        oper.reject()
                desc = "%s step + %s on %s" % (type(oper).__name__, op.split("-")[1], pid)
            elif op == "assign-view-of-transformed" and tviews:
                vid = str(rng.choice(tviews))
                v = dic[vid]
                # (scaled up: the zoo's views of transformed parameters are a log-value and the root height - both stay in their domains)
                v.tensor = v.tensor.detach() * float(np.exp(abs(rng.normal(0, 0.2))))
                tview_written = True
                desc = "assign through view %s of a transformed parameter" % vid
            elif op == "assign-view-of-cat" and cviews:
                vid = str(rng.choice(cviews))
                v = dic[vid]
                # (the zoo's views of concatenations cover real-valued entries)
                v.tensor = torch.tensor(rng.normal(0, 1, tuple(v.tensor.shape)))
                desc = "assign through view %s of a concatenation" % vid
            elif op == "optimizer-run":
                desc = run_optimizer()
            elif op == "hmc-step-size-search":
                desc = run_step_size_search()
            elif op == "derived-shape" and tps:
                # the parameter behind a transformed parameter takes a sample dimension (what a draw with a sample shape does) and loses it
                # again: whichever of shape and value is asked first, they describe the same tensor
                tid = str(rng.choice(tps))
                t = dic[tid]
                src = t.x
                if isinstance(src, (list, tuple)) or type(src).__name__ != "Parameter" or src.tensor.dim() != 1:
                    continue
                _ = t.tensor  # (the value has been asked for before)
                old = src.tensor.detach().clone()
                S = int(rng.choice([2, 3]))
                src.tensor = torch.stack([old * float(f) for f in rng.uniform(0.9, 1.0, S)])
                shape_first = tuple(t.shape)
                value_shape = tuple(t.tensor.shape)
                src.tensor = old
                shape_back, value_back = tuple(t.shape), tuple(t.tensor.shape)
                C["derived_shape_reads"] = C.get("derived_shape_reads", 0) + 1
                if shape_first != value_shape or shape_back != value_back:
                    V.append(tt.viol("C11:stale:derived-shape:%s" % type(t.transform).__name__, "%s: after the parameter behind %s got sample shape [%d] its shape reads %s while its value has shape %s (back without: %s / %s)" % (
                        gname, tid, S, shape_first, value_shape, shape_back, value_back), history=history[-12:]))
                    ok = False
                    break
                desc = "sample shape [%d] on the parameter behind %s, and back" % (S, tid)
            elif op == "assign-data" and data_leaves:
                did = str(rng.choice(data_leaves))
                cur = dic[did].tensor
                dic[did].tensor = torch.tensor(rng.integers(0, 7, tuple(cur.shape)), dtype=cur.dtype)
                desc = "assign data parameter " + did
            elif op == "heights-shape" and extra_leaves:
                # the heights of a plain time tree get another sample shape (what Distribution.sample(sample_shape) does to them)
                h = dic["tree.heights"]
                base = h.tensor.detach().reshape(-1, h.tensor.shape[-1])[0]
                S = int(rng.choice([0, 2, 3]))
                if S:
                    newv = torch.stack([base * float(f) for f in rng.uniform(0.8, 1.3, S)])
                else:
                    newv = base * float(rng.uniform(0.8, 1.3))
                h.tensor = newv
                desc = "assign tree.heights with sample shape %s" % ([S] if S else [])
            elif op == "data-edit":
                pid = str(rng.choice(list(leaves)))
                p = dic[pid]
                newv = new_value(pid)
                p.tensor.data.copy_(newv)  # what an optimiser step does
                p.fire_parameter_changed()
                desc = "in-place data edit + fire_parameter_changed on " + pid
            elif op == "requires-grad":
                pid = str(rng.choice(list(leaves)))
                if dic[pid].tensor.grad_fn is not None:  # torch only allows the flag on leaf tensors
                    dic[pid].tensor = dic[pid].tensor.detach().clone()
                dic[pid].requires_grad = not dic[pid].requires_grad
                desc = "requires_grad toggle on " + pid
            else:
                continue
        except Exception as e:
            from ..worker import _blame

            w = _blame(e)
            if w is None:
                raise
            C["update_raised"] += 1
            V.append(tt.viol("C11:update-raises:%s:%s:%s" % (gname, type(e).__name__, w), "%s: operation '%s' (step %d) raises %s: %s" % (gname, op, step, type(e).__name__, str(e)[:160]), history=history[-12:], operation=op))
            ok = False
            break
        if desc is None:
            continue
        history.append(desc)
        C["operations"] += 1
        if op not in C["op_kinds"]:
            C["op_kinds"].append(op)
        if evaluated_once:
            updates_after_eval += 1
        # evaluate a random subset (leaves the other caches dirty) and compare it with the fresh rebuild
        k = int(rng.integers(0, 4))
        sub_e = [str(x) for x in rng.choice(g["evals"], size=min(k, len(g["evals"])), replace=False)] if k else []
        sub_d = [str(x) for x in rng.choice(g["derived"], size=min(int(rng.integers(0, 3)), len(g["derived"])), replace=False)] if g["derived"] else []
        tens = dict(g["tensors"]) if rng.random() < 0.3 else {}
        if sub_e or sub_d or tens:
            evaluated_once = True
            try:
                ok = compare("operation %d (%s)" % (step, desc), sub_e, sub_d, tens)
            except Exception as e:
                from ..worker import _blame

                w = _blame(e)
                if w is None or isinstance(e, tt.SubjectError):
                    raise
                V.append(tt.viol("C11:evaluation-raises:%s:%s:%s" % (gname, type(e).__name__, w), "%s: evaluation after '%s' raises %s: %s" % (gname, desc, type(e).__name__, str(e)[:160]), history=history[-12:]))
                ok = False
            if not ok:
                break
    if ok:
        compare("the whole history", g["evals"], g["derived"], g["tensors"])
    C["handlers_reached"] = sorted(_counts)
    fp = "%s|%d" % (gname, case["seed"]) if updates_after_eval else None
    return {"violations": V, "counters": C, "fingerprint": fp, "sample": {"graph": gname, "history": history[:15]} if len(history) <= 15 else None}


# ---------------------------------------------------------------- the same invariants as an overlay on realistic workloads
def cases(tier, seed):
    """the property's own generator plus the shared workloads (configurations emitted by torchtree-cli, loaded, evaluated and
    really run for a few iterations; in thorough also the repository's own test-suite) with this property's contracts attached"""
    from ..work import shared

    return shared.overlay_cases(tier, seed, PROPERTY) + _cases(tier, seed)


def run_case(case):
    if isinstance(case, dict) and "overlay" in case:
        from ..work import shared

        return shared.run_overlay_case(case, PROPERTY)
    return _run_case(case)
