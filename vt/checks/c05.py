"""C05 - among-site rate models keep the mean substitution rate at one.

Invariant monitor on rates()/probabilities() of every site model built from JSON, over generated
parameters, update histories (cache path) and batched parameters; individual rates are compared with
the reference median-quantile Weibull discretisation."""
from __future__ import annotations

import numpy as np

from .. import tt
from ..gen import models as gm

PROPERTY = "C05"
LEVEL = "exploration"
RULE = ("cases = site-model kind x (shape 1e-2..1e2, p_inv in [0,0.99], K 1..16, optional mu) x update history x batch shape; "
        "non-trivial = more than one category or a relative rate; distinct by (kind,K,rounded parameters)")
ASSUMPTIONS = ["the identities of the statement are the specification; individual Weibull rates are compared with the median-of-equiprobable-bins discretisation written from the formula"]
BUDGET = {"quick": 60, "thorough": 400}
ROUNDS = {"thorough": 16}
FLOORS = {"overlay.C05.judged": {"quick": 100, "thorough": 1500}, "read_orders": 3, "identity_checks": 200, "after_update_checks": 100, "batched_slices": 50, "kinds": 4, "nested_batches": 20, "api_built_anonymous_parameters": 100, "updates_in_place_same_object": 200, "updates_through_another_view": 200, "interrupted_notifications": 50, "interrupted_model_notifications": 50}


def _cases(tier, seed):
    rng = np.random.default_rng([seed, 5])
    n = {"quick": 1600, "thorough": 20000}[tier]
    out = []
    kinds = ["constant", "invariant", "weibull", "weibull", "weibull+inv", "weibull+inv"]
    for i in range(n):
        s = gm.random_site(rng, kinds[i % len(kinds)], wide=True)
        if i % 7 == 0 and "pinv" in s:
            s["pinv"] = float(rng.choice([0.0, 1e-12, 0.5, 0.99, 1 - 2.5e-7, 1 - 1e-9]))  # up to "nearly every site is invariant"
        hist = []
        for _ in range(int(rng.integers(1, 5))):
            s2 = gm.random_site(rng, s["kind"], wide=True)
            upd = {}
            for k in ("shape", "pinv", "mu"):
                if k in s and k in s2 and rng.random() < 0.7:
                    upd[k] = s2[k]
            if "mu" in s and "mu" not in upd and rng.random() < 0.5:
                upd["mu"] = float(gm.loguniform(rng, 0.05, 20))
            hist.append(upd)
        out.append({"site": s, "history": hist, "batch": int(rng.choice([0, 0, 1, 2, 3, 4])), "read_orders": [int(x) for x in rng.integers(0, 3, 8)],
                    "batch_subset": [bool(rng.random() < 0.6) for _ in range(3)]})
    return out


def _check(V, C, s, rates, probs, where):
    kind = s["kind"]
    r = np.asarray(rates, dtype=float).reshape(-1)
    p = np.asarray(probs, dtype=float).reshape(-1)
    C["identity_checks"] += 1
    r_ref, p_ref = gm.ref_site(s)
    if r.shape != r_ref.shape or p.shape != p_ref.shape:
        V.append(tt.viol("C05:shape:" + kind, "%s: rates %s / probabilities %s, expected %s categories" % (where, r.shape, p.shape, r_ref.shape), site=s))
        return
    mu = s.get("mu", 1.0)
    if not np.all(np.isfinite(r)) or not np.all(np.isfinite(p)):
        V.append(tt.viol("C05:nonfinite:" + kind, "%s: non-finite rates/probabilities" % where, site=s, rates=r.tolist()))
        return
    if p.min() < 0:
        V.append(tt.viol("C05:prob-negative:" + kind, "%s: negative category probability %.3g" % (where, p.min()), site=s))
    if abs(p.sum() - 1) > 1e-10:
        V.append(tt.viol("C05:prob-sum:" + kind, "%s: probabilities sum to 1%+.3g" % (where, p.sum() - 1), site=s))
    if r.min() < 0:
        V.append(tt.viol("C05:rate-negative:" + kind, "%s: negative rate %.3g" % (where, r.min()), site=s))
    mean = float((p * r).sum())
    if abs(mean - mu) > 1e-10 * max(1.0, mu):
        V.append(tt.viol("C05:mean-rate:" + kind, "%s: sum p_k r_k = %.12g, expected %.12g" % (where, mean, mu), site=s, rates=r.tolist(), probs=p.tolist()))
    if "pinv" in s:
        if r[0] != 0.0:
            V.append(tt.viol("C05:invariant-rate:" + kind, "%s: invariant category has rate %.3g" % (where, r[0]), site=s))
        if abs(p[0] - s["pinv"]) > 1e-15:
            V.append(tt.viol("C05:invariant-prob:" + kind, "%s: invariant category probability %.12g != p_inv %.12g" % (where, p[0], s["pinv"]), site=s))
    if np.abs(p - p_ref).max() > 1e-12:
        V.append(tt.viol("C05:probs-ref:" + kind, "%s: category probabilities differ from the reference" % where, site=s, probs=p.tolist(), ref=p_ref.tolist()))
    d = np.abs(r - r_ref) / np.maximum(np.abs(r_ref), 1e-300)
    d = np.where(r_ref == 0, np.abs(r), d)
    if d.max() > 1e-9:
        V.append(tt.viol("C05:rates-ref:" + kind, "%s: category rates differ from the median-quantile discretisation (rel %.3g)" % (where, d.max()), site=s, rates=r.tolist(), ref=r_ref.tolist()))


def _np(x, kind):
    return tt.as_np(x, "C05:not-a-tensor:" + kind, "rates()/probabilities()")


def _run_case(case):
    import torch

    s = dict(case["site"])
    kind = s["kind"]
    V = []
    C = {"identity_checks": 0, "after_update_checks": 0, "batched_slices": 0, "batched_raised": 0, "kinds": [kind]}
    model, dic = tt.load(gm.site_json(s))
    style_seed = len(repr(case["site"])) + len(case["history"])
    if style_seed % 4 == 3 and kind != "constant":
        # the same model built through the Python API on anonymous parameters (id None), as scripts do
        from torchtree import Parameter
        from torchtree.evolution.site_model import InvariantSiteModel, WeibullSiteModel

        ap = {k: Parameter(None, torch.tensor([s[k]], dtype=torch.float64)) for k in ("shape", "pinv", "mu") if k in s}
        if kind == "invariant":
            model = InvariantSiteModel(None, ap["pinv"], ap.get("mu"))
        else:
            model = WeibullSiteModel(None, ap["shape"], s["K"], ap.get("pinv"), ap.get("mu"))
        dic = {"site." + k: v for k, v in ap.items()}
        C["api_built_anonymous_parameters"] = 1
    orders = list(case.get("read_orders", [])) or [0]
    reads = [0]
    if kind in ("weibull", "weibull+inv") and style_seed % 5 == 0 and "shape" in s:
        # fault injection: the shape sits behind a transform (the ADVI / HMC / MAP set-up); one change notification is cut short by an
        # exception raised in a listener that comes after the model (a logger, a user callback); the updates that follow still arrive
        tp_spec = dict(gm.site_json(s))
        tp_spec["shape"] = {"id": "site.shape", "type": "TransformedParameter", "transform": "torch.distributions.ExpTransform",
                            "x": {"id": "site.shape.unres", "type": "Parameter", "tensor": [float(np.log(s["shape"]))], "dtype": "torch.float64"}}
        m2, d2 = tt.load(tp_spec)
        _ = m2.rates()

        class Failing:
            def __init__(self):
                self.armed = True

            def handle_parameter_changed(self, variable, index, event):
                if self.armed:
                    self.armed = False
                    raise KeyError("injected failure in a listener")

        d2["site.shape"].add_parameter_listener(Failing())
        s_mid, s_new = float(s["shape"] * 1.7), float(s["shape"] * 0.6)
        try:
            d2["site.shape.unres"].tensor = torch.tensor([np.log(s_mid)], dtype=torch.float64)
        except KeyError:
            pass
        _check(V, C, dict(s, shape=s_mid), _np(m2.rates(), kind), _np(m2.probabilities(), kind), "after the update whose notification was interrupted")
        d2["site.shape.unres"].tensor = torch.tensor([np.log(s_new)], dtype=torch.float64)
        C["interrupted_notifications"] = 1
        _check(V, C, dict(s, shape=s_new), _np(m2.rates(), kind), _np(m2.probabilities(), kind), "after an update that followed an interrupted notification")

    if style_seed % 5 == 1 and kind != "constant":
        # fault injection at the model's own listeners (what a tree likelihood, a monitor, an external engine are): one that reads the rates
        # the moment it is told of the change, and one that raises once; the values read then and afterwards are those of the new parameters
        m3, d3 = tt.load(gm.site_json(s))
        _ = m3.rates(), m3.probabilities()
        key = "shape" if "shape" in s else "pinv"
        new1 = float(s[key] * 0.8)
        seen = {}

        class Eager:
            def handle_model_changed(self, model, obj, index):
                seen["r"], seen["p"] = _np(model.rates(), kind), _np(model.probabilities(), kind)

        class FailingOnce:
            armed = True

            def handle_model_changed(self, model, obj, index):
                if self.armed:
                    self.armed = False
                    raise KeyError("injected failure in a model listener")

        m3.add_model_listener(Eager())
        m3.add_model_listener(FailingOnce())
        try:
            d3["site." + key].tensor = torch.tensor([new1], dtype=torch.float64)
        except KeyError:
            pass
        if "r" in seen:
            _check(V, C, dict(s, **{key: new1}), seen["r"], seen["p"], "read by a listener while it is told of the change")
        _check(V, C, dict(s, **{key: new1}), _np(m3.rates(), kind), _np(m3.probabilities(), kind), "after an update whose model notification was interrupted")
        C["interrupted_model_notifications"] = 1

    def read():
        """rates() and probabilities() in a generated order (either accessor may be the one that finds the model dirty), sometimes twice"""
        o = orders[reads[0] % len(orders)]
        reads[0] += 1
        if o == 0:
            r = model.rates()
            p = model.probabilities()
        elif o == 1:
            p = model.probabilities()
            r = model.rates()
        else:
            p = model.probabilities()
            p = model.probabilities()
            r = model.rates()
            r = model.rates()
        C["read_orders"] = sorted(set(C.get("read_orders", [])) | {int(o)})
        return _np(r, kind), _np(p, kind)

    _check(V, C, s, *read(), "initial")
    # update history: assign new values through the public parameter interface, re-read (cache path)
    for upd in case["history"]:
        order = list(upd)
        for k in order:
            style = (style_seed + len(order) + reads[0]) % 3
            par = dic["site." + k]
            if style == 1:
                # edited in place and announced by assigning the very same tensor object back
                t = par.tensor
                t[..., 0] = upd[k]
                par.tensor = t
                C["updates_in_place_same_object"] = C.get("updates_in_place_same_object", 0) + 1
            elif style == 2:
                # through a view of the parameter that is not the object the model holds
                from torchtree.core.parameter import ViewParameter

                ViewParameter(None, par, slice(0, 1)).tensor = torch.tensor([upd[k]], dtype=torch.float64)
                C["updates_through_another_view"] = C.get("updates_through_another_view", 0) + 1
            else:
                par.tensor = torch.tensor([upd[k]], dtype=torch.float64)
            s[k] = upd[k]
            if len(order) > 1 and k == order[0]:
                # read between two updates so that the cache is clean when the next update arrives
                _check(V, C, s, *read(), "after update of " + k)
                C["after_update_checks"] += 1
        _check(V, C, s, *read(), "after update of " + "+".join(order))
        C["after_update_checks"] += 1
    # batched parameters
    B = case["batch"]
    names = [k for k in ("shape", "pinv", "mu") if k in s]
    if B and names:
        rng = np.random.default_rng(abs(hash(repr(case["site"]))) % (2**32))
        rows = [dict(s)]
        subset = [nm for nm, on in zip(names, case["batch_subset"]) if on] or names
        for _ in range(B - 1):
            s2 = gm.random_site(rng, kind, wide=True)
            row = dict(s)
            for nm in subset:
                row[nm] = s2.get(nm, float(gm.loguniform(rng, 0.05, 20)))
            rows.append(row)
        batch = {nm: [[row[nm]] for row in rows] for nm in subset}
        nested = B == 4 and len(repr(case["site"])) % 2 == 0
        if nested:
            # a sample shape of rank two ([2,2]): chains x draws
            batch = {nm: [v[:2], v[2:]] for nm, v in batch.items()}
            C["nested_batches"] = 1
        try:
            mb, _ = tt.load(gm.site_json(s, batch=batch))
            rb = _np(mb.rates(), kind)
            pb = _np(mb.probabilities(), kind)
        except Exception:
            C["batched_raised"] += 1
            rb = None
        if rb is not None:
            ncat = len(gm.ref_site(s)[0])
            try:
                rb2 = np.broadcast_to(rb, (2, 2, ncat) if nested else (B, ncat)).reshape(B, ncat)
                pb2 = np.broadcast_to(pb, (2, 2, ncat) if nested else (B, ncat)).reshape(B, ncat)
            except ValueError:
                V.append(tt.viol("C05:batched-shape:" + kind, "batched rates %s / probabilities %s not broadcastable to [%d,%d]" % (rb.shape, pb.shape, B, ncat), site=s, subset=subset))
                rb2 = None
            if rb2 is not None:
                for bi, row in enumerate(rows):
                    C["batched_slices"] += 1
                    _check(V, C, row, rb2[bi], pb2[bi], "batched slice %d of %s" % (bi, "+".join(subset)))
    nontrivial = kind != "constant" or "mu" in s
    fp = None
    if nontrivial:
        fp = "%s:%s:%s" % (kind, s.get("K"), ":".join("%.5g" % s[k] for k in ("shape", "pinv", "mu") if k in s))
    return {"violations": V, "counters": C, "fingerprint": fp, "sample": {"site": case["site"], "history": case["history"], "batch": B}}


# ---------------------------------------------------------------- the same invariants as an overlay on realistic workloads
def cases(tier, seed):
    """the property's own generator plus the shared workloads (configurations emitted by torchtree-cli, loaded, evaluated and
    really run for a few iterations; in thorough also the repository's own test-suite) with this property's contracts attached"""
    from ..work import shared

    return shared.overlay_cases(tier, seed, PROPERTY) + _cases(tier, seed)


def run_case(case):
    if isinstance(case, dict) and "overlay" in case:
        from ..work import shared

        return shared.run_overlay_case(case, PROPERTY)
    return _run_case(case)
