"""C01 - tree log-likelihood equals exact marginalisation over ancestral states.

Reference-model monitor: TreeLikelihoodModel built from JSON (as torchtree.main builds it) is compared with
the explicit sum over all internal-state assignments and rate categories (vt.ref.like) on enumerated
topologies and generated models / data; for trees too large for the explicit sum an independent
log-space pruning is used, which is itself cross-checked against the explicit sum in the same run."""
from __future__ import annotations

import hashlib

import numpy as np

from .. import tt
from ..gen import models as gm
from ..gen import phylo
from ..ref import tree as rt

PROPERTY = "C01"
LEVEL = "exploration"
RULE = ("cases = labelled rooted topology (every one for 3..5 taxa, all/sampled for 6, random above) x random "
        "(substitution model, site model, tree kind/clock, data type, alignment with ambiguity codes, repeated columns, "
        "shuffled taxa/sequence order, tip partials +- ambiguities or tip states); non-trivial = some column has >= 2 "
        "distinct plain states, or an ambiguity code; distinct by hash of the whole case")
ASSUMPTIONS = [
    "reference P(t) = scipy expm of the independently built, independently normalised rate matrix",
    "ambiguity semantics: use_ambiguities -> union of states; otherwise / tip states -> any symbol that is not a plain state is missing data; declared ambiguities of a GeneralDataType are unions in the tip-partial representation",
    "zero-likelihood data are excluded by construction (branch lengths >= 1e-4)",
    "LG/WAG tables taken as data from the model object (pinned by C04)",
]
BUDGET = {"quick": 75, "thorough": 900}
ROUNDS = {"thorough": 16}
FLOORS = {"compared": {"quick": 250, "thorough": 2500}, "brute_force": {"quick": 150, "thorough": 1500},
          "subst_kinds": 9, "site_kinds": 4, "pruning_vs_brute": 20, "with_very_short_branches": {"quick": 30, "thorough": 300}}


def EXHAUSTIVE(tier):
    return False


def cases(tier, seed):
    rng = np.random.default_rng([seed, 1])
    topos = []
    for n in (3, 4, 5):
        topos += rt.all_rooted_topologies(n)
    six = rt.all_rooted_topologies(6)
    topos += six  # every labelled rooted topology on 3..6 taxa, in both tiers
    out = []
    kinds = gm.SUBST_KINDS
    site_kinds = ["constant", "invariant", "weibull", "weibull+inv"]
    tree_kinds = ["unrooted", "time", "time"]
    j = int(rng.integers(1000))
    reps = 1 if tier == "quick" else 6
    if tier == "quick":
        topos = topos[:123] * 2 + topos[123:]
    for _ in range(reps):
        for t in topos:
            n = len(rt.leaves_of(t))
            k = kinds[j % len(kinds)]
            # state-space caps for the explicit sum
            if k in ("LG", "WAG") and n > 4:
                k = ["HKY", "GTR", "GenSym", "GenNonSym"][j % 4]
            if k == "MG94" and n > 3:
                k = ["GTR", "HKY", "GenNonSym", "JC69", "GeneralJC69"][j % 5]
            sk = site_kinds[(j // len(kinds)) % 4]
            tk = tree_kinds[(j // 7) % 3]
            c = phylo.random_case(rng, t, k, sk, tk)
            if k == "MG94":
                c["site"]["K"] = min(c["site"].get("K", 1), 2) if "K" in c["site"] else c["site"].get("K")
                if c["site"].get("K") is None:
                    c["site"].pop("K", None)
            out.append(c)
            j += 1
    # amino-acid and codon models on the small topologies (explicit sum feasible)
    for t in rt.all_rooted_topologies(3) * (4 if tier == "quick" else 12):
        out.append(phylo.random_case(rng, t, "MG94", str(rng.choice(site_kinds[:3])), None, ncols=int(rng.integers(1, 5))))
        if "K" in out[-1]["site"]:
            out[-1]["site"]["K"] = min(out[-1]["site"]["K"], 2)
    for t in (rt.all_rooted_topologies(3) + rt.all_rooted_topologies(4)) * (2 if tier == "quick" else 6):
        out.append(phylo.random_case(rng, t, str(rng.choice(["LG", "WAG"])), None, None, ncols=int(rng.integers(1, 6))))
    # larger random trees: independent log-space pruning as reference
    nbig = 60 if tier == "quick" else 300
    for i in range(nbig):
        n = int(rng.integers(7, 41))
        t = rt.random_topology(n, rng, str(rng.choice(["random", "caterpillar", "balanced"])))
        k = str(rng.choice(["JC69", "HKY", "GTR", "GenSym", "GenNonSym", "GeneralJC69", "LG", "WAG"]))
        c = phylo.random_case(rng, t, k, None, None, ncols=int(rng.integers(2, 9)))
        c["big"] = True
        out.append(c)
    # a few trees of a thousand taxa (where two large clades meet the product of their partials leaves the float range): the value is
    # still the exact one (log-space pruning as reference; how the library gets there is C03's subject)
    for i in range(2 if tier == "quick" else 8):
        n = [1024, 700, 1500, 900][i % 4]
        t = rt.random_topology(n, rng, "balanced")
        c = phylo.random_case(rng, t, ["JC69", "HKY"][i % 2], "constant", "unrooted", ncols=2)
        c["big"] = True
        c.pop("indices", None)
        c.pop("rescale", None)
        out.append(c)
    # very short branches (what zero-length branches of a start tree and optimisers at their lower bound look like): 1e-13 .. 1e-8
    k = 0
    for i, c in enumerate(out):
        if c["tree"] == "unrooted" and c.get("bl_mode") == "param":
            k += 1
            if k % 3 == 0:
                h = int(hashlib.md5(repr(c["branch_lengths"]).encode()).hexdigest()[:8], 16)
                r = np.random.default_rng(h)
                c["branch_lengths"] = [float(x) if r.random() < 0.4 else float(10 ** r.uniform(-13, -8)) for x in c["branch_lengths"]]
                c["tiny_branches"] = True
    # discrete traits: every third case with a general data type takes its tip data from a taxon attribute (AttributePattern)
    for i, c in enumerate(out):
        if c["datatype"]["kind"] == "general" and i % 3 == 1:
            out[i] = phylo.as_attribute_case(c)
    # every seventh alignment hangs on a Taxa object of its own that lists the taxa in another order (a rotation: not its own inverse)
    for i, c in enumerate(out):
        if i % 7 == 4 and not c.get("attribute_pattern") and len(c["names"]) >= 3:
            r_ = 1 + i % (len(c["names"]) - 1)
            c["aln_taxa_order"] = c["names"][r_:] + c["names"][:r_]
    # every fifth alignment is read from a FASTA file (the 'file' form torchtree-cli writes), sequences wrapped over several lines
    for i, c in enumerate(out):
        if i % 5 == 2 and not c.get("attribute_pattern"):
            c["aln_file"] = {"wrap": [1, 2, 3, 60][(i // 5) % 4], "blank": bool((i // 5) % 2)}
    return out


def _nontrivial(case):
    dt = case["datatype"]
    size = 3 if dt["kind"] == "codon" else dt.get("width", 1)
    seqs = list(case["seqs"].values())
    L = len(seqs[0]) // size
    for i in range(L):
        col = {s[i * size:(i + 1) * size].upper() for s in seqs}
        if len(col) >= 2:
            return True
    return False


def evaluate(case):
    """Library value through the public route: JSON -> objects -> like()."""
    objs, dic = tt.load(phylo.likelihood_json(case))
    like = dic["like"]
    if case.get("rescale"):
        like.rescale = True  # the rescaled evaluation path, on trees small enough for exact marginalisation
    val = like()
    return like, dic, val


def run_case(case):
    V = []
    sk = case["subst"]["kind"]
    C = {"compared": 0, "brute_force": 0, "pruning_ref": 0, "pruning_vs_brute": 0, "subst_kinds": [sk],
         "site_kinds": [case["site"]["kind"]], "tree_kinds": [case["tree"] + ":" + str((case.get("clock") or {}).get("kind"))],
         "tip_modes": ["states" if case["use_tip_states"] else ("amb" if case["use_ambiguities"] else "partials")],
         "datatypes": [case["datatype"]["kind"]], "with_very_short_branches": int(bool(case.get("tiny_branches")))}
    like, dic, val = evaluate(case)
    lib = tt.as_np(val, "C01:not-a-tensor", "log-likelihood")
    if lib.size != 1:
        V.append(tt.viol("C01:shape", "log-likelihood has shape %s for unbatched parameters" % (lib.shape,), case=case))
        return {"violations": V, "counters": C, "fingerprint": None}
    lib = float(lib.reshape(-1)[0])
    emp = None
    if sk in ("LG", "WAG"):
        sm = dic["sm"]
        emp = (sm._rates.detach().numpy().astype(float), sm.frequencies.detach().numpy().astype(float))
    n = len(case["names"])
    S = gm.n_states(case["subst"])
    if case.get("big"):
        ref, lsl, method = phylo.ref_loglik(case, "pruning", emp)
        C["pruning_ref"] += 1
    else:
        ref, lsl, method = phylo.ref_loglik(case, "brute", emp)
        C["brute_force"] += 1
        if n <= 5 and S <= 6:
            ref2, _, _ = phylo.ref_loglik(case, "pruning", emp)
            C["pruning_vs_brute"] += 1
            if abs(ref2 - ref) > 1e-10 * max(1.0, abs(ref)):
                # the two references disagree: an oracle error, never a violation of the subject
                raise RuntimeError("reference disagreement: brute %r pruning %r" % (ref, ref2))
    if not np.isfinite(ref):
        return {"violations": V, "counters": C, "fingerprint": None}
    C["compared"] += 1
    err = abs(lib - ref) / max(abs(ref), 1.0) if abs(ref) < 1 else abs(lib - ref) / abs(ref)
    if not np.isfinite(lib) or err > 1e-9:
        mode = C["tip_modes"][0]
        sig = "C01:value:%s:%s:%s" % (case["tree"], "clock-" + str((case.get("clock") or {}).get("kind")), mode)
        if "pinv" in case["site"] and (np.isfinite(lib) or np.isnan(lib)):
            # mechanism diagnosis: is the whole discrepancy explained by the library's P(0) of the invariant
            # (rate 0) category not being the exact identity?  Substitute the library's own P(0) into the reference.
            import torch

            P0 = dic["sm"].p_t(torch.zeros((1, 1), dtype=torch.float64)).detach().numpy()[0, 0]
            ref3, _, _ = phylo.ref_loglik(case, "linear", emp, P_override={0: P0})
            explained = (abs(ref3 - lib) <= 1e-6 * max(1.0, abs(lib))) if np.isfinite(lib) else not np.isfinite(ref3)
            # (NaN: the spurious invariant-category term is negative and larger than the site's true likelihood, so the site
            # likelihood itself comes out negative; the reference fed the library's P(0) reproduces exactly that)
            if explained and np.abs(P0 - np.eye(S)).max() < 1e-12:
                sig = "C01:value:invariant-category:P(0)-roundoff-dominates-site-likelihood"
        V.append(tt.viol(sig, "log-likelihood %.15g, exact marginalisation (%s) %.15g, rel err %.3g [subst %s, site %s, datatype %s, n=%d]"
                         % (lib, method, ref, err, sk, case["site"]["kind"], case["datatype"]["kind"], n), case=case, lib=lib, ref=ref))
    h = int(hashlib.md5(repr(case).encode()).hexdigest()[:8], 16)
    if not V and not case.get("big") and sk not in ("LG", "WAG", "MG94") and h % 3 == 0:
        # the same model object after its parameters received new values through the public parameter interface: still the exact
        # likelihood of the (new) parameter values
        import copy

        import torch

        urng = np.random.default_rng(h)
        c2 = copy.deepcopy(case)
        changed = []
        clk = c2.get("clock") or {}
        only_clock = bool(clk) and (h // 3) % 2 == 0
        if only_clock:
            # nothing but the clock rate(s) changes
            if clk["kind"] == "strict" and "clock.rate" in dic:
                clk["rate"] = float(clk["rate"] * urng.uniform(0.4, 2.5))
                dic["clock.rate"].tensor = torch.tensor([clk["rate"]], dtype=torch.float64)
                changed.append("clock.rate")
            elif clk["kind"] == "simple" and "clock.rate" in dic:
                clk["rates"] = [float(x * urng.uniform(0.4, 2.5)) for x in clk["rates"]]
                dic["clock.rate"].tensor = torch.tensor(clk["rates"], dtype=torch.float64)
                changed.append("clock.rate")
        for name in (() if only_clock else ("kappa", "rates", "alpha", "beta", "pi")):
            if name not in c2["subst"] or "sm." + name not in dic:
                continue
            old_v = c2["subst"][name]
            if name == "pi":
                new_v = urng.dirichlet([3.0] * len(old_v)).tolist()
            elif isinstance(old_v, list):
                new_v = [float(x * urng.uniform(0.4, 2.5)) for x in old_v]
            else:
                new_v = float(old_v * urng.uniform(0.4, 2.5))
            c2["subst"][name] = new_v
            dic["sm." + name].tensor = torch.tensor(new_v if isinstance(new_v, list) else [new_v], dtype=torch.float64)
            changed.append("sm." + name)
        for name in (() if only_clock else ("pinv", "shape", "mu")):
            if name not in c2["site"] or "site." + name not in dic:
                continue
            new_v = float(urng.uniform(0.02, 0.8)) if name == "pinv" else float(c2["site"][name] * urng.uniform(0.5, 2.0))
            c2["site"][name] = new_v
            dic["site." + name].tensor = torch.tensor([new_v], dtype=torch.float64)
            changed.append("site." + name)
        if changed:
            lib2 = float(tt.as_np(like(), "C01:not-a-tensor", "log-likelihood").reshape(-1)[0])
            ref2, _, _ = phylo.ref_loglik(c2, "brute", emp)
            C["compared_after_update"] = 1
            if np.isfinite(ref2):
                err2 = abs(lib2 - ref2) / max(abs(ref2), 1.0)
                if not np.isfinite(lib2) or err2 > 1e-9:
                    V.append(tt.viol("C01:value-after-update:%s" % sk, "after assigning new values to %s: log-likelihood %.15g, exact marginalisation %.15g, rel err %.3g [subst %s, site %s]"
                                     % (", ".join(changed), lib2, ref2, err2, sk, case["site"]["kind"]), case=case, updated=c2["subst"], updated_site=c2["site"]))
    fp = hashlib.md5(repr(case).encode()).hexdigest()[:16] if _nontrivial(case) else None
    sample = {k: case[k] for k in ("newick", "names", "tree", "subst", "site", "use_ambiguities", "use_tip_states")}
    sample["seqs"] = case["seqs"]
    sample["lib"] = lib
    sample["ref"] = ref
    if sk in ("LG", "WAG", "MG94"):
        sample = None
    return {"violations": V, "counters": C, "fingerprint": fp, "sample": sample}
