"""C10 - a sample dimension never mixes samples.

Per-slice oracle: the same JSON specification is instantiated once with a chosen subset of its leaf parameters carrying
sample dimensions ([S] or [S,K], distinct random rows) and once per slice with plain parameters; the value returned for
sample s must equal the value of slice s.  An exception on the batched side is an accepted outcome (counted); a vacuity
guard requires the fully batched [S] form of the densities the library's own *_batch tests exercise to return numbers."""
from __future__ import annotations

import copy

import numpy as np

from .. import tt
from ..gen import zoo

PROPERTY = "C10"
LEVEL = "exploration"
RULE = ("cases = (graph of the zoo, density or derived parameter, subset of leaf parameters to batch {all, one, random subset}, sample shape [S] or [S,K] with "
        "S,K in 1..5, preferring sizes that collide with other dimensions); rows are distinct random draws; non-trivial = batched evaluation returned "
        "numbers and S*K >= 2; distinct by (graph, target, subset, shape)")
ASSUMPTIONS = [
    "an exception raised for a batched shape is an accepted outcome ('fails with an error rather than returning a number') and is counted separately",
    "values are compared after squeezing singleton dimensions; a batched parameter without influence on the target may leave the result unbatched",
    "transforms with [B,d] and [S,K,d] inputs are additionally covered by C07 (reported log-determinant shapes)",
]
BUDGET = {"quick": 85, "thorough": 900}
ROUNDS = {"thorough": 6}
FLOORS = {"slices_compared": {"quick": 4000, "thorough": 40000}, "returned_numbers": {"quick": 600, "thorough": 6000}, "targets": 40, "must_return_checked": 10, "rescaled_batches": 4, "height_transform_batches": 12, "rows_with_rho_zero": 4}

# fully batched [S] evaluations that must return numbers (the library's own *_batch tests cover these classes)
MUST_RETURN = {("time-plain", "like"), ("time-ratio", "like"), ("time-ratio", "coal"), ("time-shift", "skyride"), ("time-shift", "skygrid"), ("time-ratio", "bdsk"),
               ("time-shift", "gmrf"), ("distributions", "joint"), ("distributions", "d.normal"), ("unrooted", "like"), ("time-ratio", "ctmc")}


def cases(tier, seed):
    rng = np.random.default_rng([seed, 10])
    out = []
    reps = 30 if tier == "quick" else 200
    for rep in range(reps):
        for name in zoo.DETERMINISTIC:
            g = zoo.build(name, 0)
            # every density also alone inside a joint: a joint trusts the sample shape its component declares
            solo = ["jointof:" + e for e in g["evals"] if e not in ("joint", "inner")] if rep % 3 == 1 else []
            for t in g["evals"] + ["derived:" + d for d in g["derived"]] + solo:
                mode = ["all", "one", "subset", "all", "subset"][rep % 5]
                shape = [int(rng.integers(1, 6))] if rng.random() < 0.6 else [int(rng.integers(1, 5)), int(rng.integers(1, 5))]
                if rep == 0:
                    mode, shape = "all", [int(rng.choice([2, 3, 4]))]
                out.append({"graph": name, "target": t, "mode": mode, "shape": shape, "seed": int(rng.integers(2**31))})
    # deterministic sweep (the same in every run and for every seed): every density alone inside a joint, with each single
    # parameter - and the parameters of the tree together - carrying the sample dimension on its own
    for i, (model, shape_, factors) in enumerate([("JC69", "caterpillar", [1.0, 1e-12]), ("HKY", "balanced", [1e-10, 2.0]), ("HKY+I", "caterpillar", [0.5, 1e-12]), ("GTR+W4", "random", [1.0, 1e-11])]):
        out.append({"rescaled_batch": True, "graph": "-", "target": "like", "mode": "given", "shape": [2], "model": model, "tree_shape": shape_, "factors": factors, "n": 60 + 20 * i, "seed": 99 + i})
    # the node-height transforms on their own: forward and inverse of a batch of three very different samples (the same in every run)
    for i in range(12):
        out.append({"height_transform_batch": True, "graph": "-", "target": "transform", "mode": "given", "shape": [3], "n": 4 + i % 6, "param": ["ratio", "shift"][i % 2], "k": [None, None, 3.0][i % 3], "seed": 7000 + i})
    for name in zoo.DETERMINISTIC:
        g = zoo.build(name, 0)
        ids = [i for i in g["leaves"] if i != "mvn.tril.unres"]
        groups = [[i] for i in ids]
        treeg = [i for i in ids if i.startswith("tree.")]
        if len(treeg) > 1:
            groups.append(treeg)
        for e in g["evals"]:
            if e in ("joint", "inner"):
                continue
            for grp in groups:
                out.append({"graph": name, "target": "jointof:" + e, "mode": "given", "chosen": grp, "shape": [2], "seed": 12345})
                # and the density itself with that one parameter batched ("some"): three samples, the same values in every run
                out.append({"graph": name, "target": e, "mode": "given", "chosen": grp, "shape": [3], "seed": 4321})
        # the composite joints with one parameter batched and the number of samples equal to another dimension of the graph
        # (vector lengths 2..5: a component that is not batched then has as many entries as there are samples)
        for e in [x for x in g["evals"] if x in ("joint", "inner")]:
            for grp in groups:
                for S in (3, 4, 5):
                    out.append({"graph": name, "target": e, "mode": "given", "chosen": grp, "shape": [S], "seed": 12345})
    return out


def with_values(spec, values):
    s = copy.deepcopy(spec)

    def rec(o):
        if isinstance(o, dict):
            if o.get("type") == "Parameter" and o.get("id") in values:
                o["tensor"] = values[o["id"]]
            for v in o.values():
                rec(v)
        elif isinstance(o, list):
            for v in o:
                rec(v)

    rec(s)
    return s


def target_object(dic, t):
    if t.startswith("jointof:"):
        jid = "__joint_of__" + t[8:]
        if jid not in dic:
            from torchtree.core.utils import process_object

            process_object({"id": jid, "type": "JointDistributionModel", "distributions": [t[8:]]}, dic)
        return dic[jid]
    return dic[t]


def get_target(dic, t):
    if t.startswith("derived:"):
        return tt.as_np(dic[t[8:]].tensor, "C10:not-a-tensor:" + t)
    return tt.as_np(target_object(dic, t)(), "C10:not-a-tensor:" + t)


def inconsistent_components(model, sshape=None):
    """classes of the (nested) components of a joint whose returned value has more leading dimensions than the sample
    shape they declare"""
    out = set()
    cont = getattr(model, "_distributions", None)
    if cont is None:
        return []
    for c in cont.callables():
        if getattr(c, "_distributions", None) is not None:
            out.update(inconsistent_components(c, sshape))
            continue
        try:
            lp = c()
            ss = tuple(c.sample_shape)
        except Exception:
            continue
        full_event = type(c).__name__ == "MultivariateNormal"  # log_prob has no event dimension left
        if lp.dim() > len(ss) + 1 or tuple(lp.shape[: len(ss)]) != ss or (full_event and tuple(lp.shape) != ss):
            out.add(type(c).__name__)
        elif sshape is not None and ss != tuple(sshape) and tuple(lp.shape[: len(sshape)]) == tuple(sshape) and len(ss) < len(sshape):
            # the value carries the batch's sample dimensions in front, the declared sample shape does not
            out.add(type(c).__name__)
    return sorted(out)


def run_rescaled_batch(case):
    """A batch whose samples differ by hundreds of orders of magnitude in likelihood, on a tree large enough for the rescaled pass:
    every sample still equals its own slice."""
    import torch

    from . import c03
    from ..gen import phylo

    V = []
    C = {"slices_compared": 0, "returned_numbers": 0, "batched_raised": 0, "must_return_checked": 0, "targets": ["rescaled-batch:" + case["model"]], "raised_by": [], "rescaled_batches": 1}
    cfg = {"shape": case["tree_shape"], "model": case["model"], "scale": 0.2, "target": -100.0, "seed": case["seed"], "nsites": 3, "history": False, "batch": False, "conserved": False, "dup": False}
    c = c03.make(cfg, case["n"])
    bl0 = torch.tensor(c["branch_lengths"], dtype=torch.float64)
    rows = torch.stack([bl0 * f for f in case["factors"]])
    vals = []
    for which in ("batch", 0, 1):
        objs, dic = tt.load(phylo.likelihood_json(c))
        like = dic["like"]
        like.rescale = True
        dic["tree.blens"].tensor = rows if which == "batch" else rows[which]
        vals.append(tt.as_np(like(), "C10:not-a-tensor", "log-likelihood").reshape(-1))
    C["returned_numbers"] += 1
    for r in (0, 1):
        C["slices_compared"] += 1
        a, b = float(vals[0][r]), float(vals[1 + r][0])
        if not np.isfinite(a) == np.isfinite(b) or (np.isfinite(b) and abs(a - b) > 1e-9 * max(1.0, abs(b))):
            V.append(tt.viol("C10:mixing:rescaled-likelihood-batch", "rescaled likelihood, %d taxa, branch-length factors %s: sample %d of the batch gives %r, the same sample evaluated alone gives %r" % (
                case["n"], case["factors"], r, a, b), case=case))
            break
    return {"violations": V, "counters": C, "fingerprint": "rescaled-batch|%s|%d" % (case["model"], case["seed"]), "sample": None}


def run_height_transform_batch(case):
    """forward and inverse of the node-height transforms on a batch [3, n-1]: row r equals the transform of row r alone"""
    import torch

    from ..gen import phylo
    from ..ref import tree as rt
    from ..gen import timetree as gt

    V = []
    C = {"slices_compared": 0, "returned_numbers": 0, "batched_raised": 0, "must_return_checked": 0, "targets": ["height-transform:%s:%s" % (case["param"], case["k"])], "raised_by": [], "height_transform_batches": 1}
    rng = np.random.default_rng(case["seed"])
    n = case["n"]
    tc = gt.make_case(rng, rt.random_topology(n, rng, "random"), case["param"], "ages", 3)
    objs, dic = tt.load([phylo.taxa_json(tc), gt.tree_json(tc)])
    tree = dic["tree"]
    tr = tree.transform
    if case["k"] is not None and case["param"] == "shift":
        from torchtree.evolution.tree_height_transform import DifferenceNodeHeightTransform

        tr = DifferenceNodeHeightTransform(tree, case["k"])
    if case["param"] == "ratio":
        x = torch.cat([torch.tensor(tc["ratios"], dtype=torch.float64).reshape(3, -1), torch.tensor(tc["root_height"], dtype=torch.float64).reshape(3, 1)], -1)
        x[1, -1] *= 7.0  # rows of very different size
        x[2, -1] *= 0.2
        x[2, -1] += float(max(phylo.tip_heights(tc)))
    else:
        x = torch.tensor(tc["shifts"], dtype=torch.float64).reshape(3, -1)
        x[1] *= 30.0
        x[2] *= 0.01
    y = tr(x)
    back = tr.inv(y)
    C["returned_numbers"] += 1
    for r in range(3):
        yr = tr(x[r])
        br = tr.inv(yr)
        C["slices_compared"] += 2
        for what, a, b in (("forward", y[r], yr), ("inverse", back[r], br)):
            a, b = tt.as_np(a, "C10:not-a-tensor"), tt.as_np(b, "C10:not-a-tensor")
            if a.shape != b.shape or not np.all(np.abs(a - b) <= 1e-10 * np.maximum(1.0, np.abs(b))):
                V.append(tt.viol("C10:mixing:height-transform:%s:%s" % (type(tr).__name__, what), "%s (k=%s), %d taxa: row %d of the %s of a batch of three is %s, the same row alone gives %s" % (
                    type(tr).__name__, case["k"], n, r, what, a[:4], b[:4]), case=case))
                return {"violations": V, "counters": C, "fingerprint": "height-transform|%d" % case["seed"], "sample": None}
    return {"violations": V, "counters": C, "fingerprint": "height-transform|%d" % case["seed"], "sample": None}


def run_case(case):
    if case.get("rescaled_batch"):
        return run_rescaled_batch(case)
    if case.get("height_transform_batch"):
        return run_height_transform_batch(case)
    V = []
    g = zoo.build(case["graph"], case["seed"])
    t = case["target"]
    gname = g["name"]
    C = {"slices_compared": 0, "returned_numbers": 0, "batched_raised": 0, "must_return_checked": 0, "targets": ["%s:%s" % (gname, t)], "raised_by": []}
    rng = np.random.default_rng(case["seed"] + 5)
    leaves = g["leaves"]
    ids = list(leaves)
    if "mvn" not in t:
        # TrilExpDiagonalTransform declines batched input already while the specification is loaded; it is
        # batched only when the multivariate normal itself is the target
        ids = [i for i in ids if i != "mvn.tril.unres"]
    if case["mode"] == "given":
        chosen = list(case["chosen"])
    elif case["mode"] == "all":
        chosen = ids
    elif case["mode"] == "one":
        chosen = [str(rng.choice(ids))]
    else:
        k = int(rng.integers(1, min(5, len(ids)) + 1))
        chosen = [str(x) for x in rng.choice(ids, size=k, replace=False)]
    sshape = tuple(case["shape"])
    # base (unbatched) values for every leaf and batched rows for the chosen ones
    _, dic0 = tt.load(g["spec"])
    base = {i: dic0[i].tensor.detach().numpy().copy() for i in ids}
    rows = {}
    for i in chosen:
        d = base[i].shape
        rows[i] = np.asarray(zoo.draw(rng, leaves[i], sshape + d), dtype=float).reshape(sshape + d)
        if leaves[i] == "real" and int(np.prod(sshape)) >= 2 and rng.random() < 0.2:
            # one sample sits exactly on 0 (a special-cased value of several densities), the others do not
            rows[i].reshape((-1,) + d)[int(rng.integers(int(np.prod(sshape))))] = 0.0
            C["rows_with_exact_zero"] = 1
        if str(i).endswith(".rho") and int(np.prod(sshape)) >= 2 and (case["mode"] == "given" or rng.random() < 0.3):
            # one sample without sampling at the present (rho exactly 0, a legitimate value with its own code path), the others with
            rows[i].reshape((-1,) + d)[0] = 0.0
            C["rows_with_rho_zero"] = 1
    batched_spec = with_values(g["spec"], {i: rows[i].tolist() for i in chosen})
    detail = {"case": case, "batched": chosen}
    try:
        _, dicb = tt.load(batched_spec)
        vb = get_target(dicb, t)
    except tt.SubjectError:
        raise
    except Exception as e:
        from ..worker import _blame

        w = _blame(e)
        if w is None:
            # torch itself may raise on inconsistent shapes from inside a torchtree call chain; anything else is ours
            import traceback

            if "torchtree" not in traceback.format_exc():
                raise
            w = "torch"
        C["batched_raised"] += 1
        C["raised_by"] = ["%s:%s:%s" % (gname, t, type(e).__name__)]
        if case["mode"] == "all" and len(sshape) == 1 and (gname, t) in MUST_RETURN:
            C["must_return_checked"] += 1
            V.append(tt.viol("C10:supported-shape-raises:%s:%s" % (gname, t), "%s/%s: the fully batched [S=%d] evaluation raises %s: %s" % (gname, t, sshape[0], type(e).__name__, str(e)[:160]), **detail))
        return {"violations": V, "counters": C, "fingerprint": None, "sample": None}
    C["returned_numbers"] += 1
    if case["mode"] == "all" and len(sshape) == 1 and (gname, t) in MUST_RETURN:
        C["must_return_checked"] += 1
    # per-slice evaluations
    import itertools

    idxs = list(itertools.product(*[range(n) for n in sshape]))
    slices = []
    for ix in idxs:
        vals = {i: rows[i][ix].tolist() for i in chosen}
        _, dics = tt.load(with_values(g["spec"], vals))
        slices.append(get_target(dics, t))
    has_batch = vb.ndim >= len(sshape) and tuple(vb.shape[: len(sshape)]) == sshape and vb.ndim > np.squeeze(slices[0]).ndim - 0 and (vb.size == int(np.prod(sshape)) * slices[0].size)
    for ix, vs in zip(idxs, slices):
        C["slices_compared"] += 1
        if has_batch:
            got = np.squeeze(vb[ix])
        else:
            got = np.squeeze(vb)
        exp = np.squeeze(vs)
        if got.shape != exp.shape:
            V.append(tt.viol("C10:shape:%s:%s" % (gname, t), "%s/%s with %s batched %s: result has shape %s, slices have shape %s" % (gname, t, "+".join(chosen) if len(chosen) <= 3 else "%d parameters" % len(chosen), list(sshape), vb.shape, vs.shape), **detail))
            break
        if not np.allclose(got, exp, rtol=1e-10, atol=1e-12, equal_nan=True):
            culprits = inconsistent_components(target_object(dicb, t), sshape if t.startswith("jointof:") else None) if not t.startswith("derived:") else []
            for culprit in culprits:
                # mechanism: the joint adds up a component over all samples because that component's declared
                # sample shape ignores the batch dimension of one of its own (hyper-)parameters
                V.append(tt.viol("C10:joint-mixing:component-sample-shape-ignores-batched-parameter:%s" % culprit,
                                 "%s/%s with %s batched %s: component(s) %s return one value per sample but declare a smaller sample shape; the joint adds the samples up (sample %s: %s, slice alone: %s)"
                                 % (gname, t, "+".join(chosen) if len(chosen) <= 3 else "%d parameters" % len(chosen), list(sshape), culprit, ix, np.asarray(got).reshape(-1)[:2], np.asarray(exp).reshape(-1)[:2]), **detail))
            if culprits:
                break
            V.append(tt.viol("C10:mixing:%s:%s" % (gname, t), "%s/%s with %s batched %s: sample %s gives %s, the same slice evaluated alone gives %s"
                             % (gname, t, "+".join(chosen) if len(chosen) <= 3 else "%d parameters" % len(chosen), list(sshape), ix, np.asarray(got).reshape(-1)[:3], np.asarray(exp).reshape(-1)[:3]), **detail))
            break
    if t.endswith("gmrfcov"):
        # mechanism: GMRFCovariate._call is written for an unbatched field (field.t() @ Q @ field); with a sample dimension it raises,
        # except when the number of samples equals the field length, where the matrix products go through and numbers come back
        for v in V:
            if v["sig"].startswith(("C10:shape:", "C10:mixing:")):
                v["sig"] = "C10:GMRFCovariate:no-sample-dimension-support:returns-numbers-when-S-equals-the-field-length"
    fp = "%s|%s|%s|%s" % (gname, t, ",".join(sorted(chosen)) if len(chosen) < 6 else case["mode"], sshape) if int(np.prod(sshape)) >= 2 else None
    return {"violations": V, "counters": C, "fingerprint": fp, "sample": {"graph": gname, "target": t, "batched": chosen, "shape": list(sshape)} if len(chosen) <= 4 else None}
