"""C12 - gradients are the derivatives of the reported densities.

Gradient monitor: for every density of the model zoo and every continuous leaf parameter (reached through any chain of
transforms) the back-propagated gradient is compared with Richardson-extrapolated central differences of the same
public call; a parameter whose finite difference shows influence must not receive a missing or zero gradient."""
from __future__ import annotations

import numpy as np

from .. import tt
from ..gen import zoo

PROPERTY = "C12"
LEVEL = "exploration"
RULE = ("cases = (graph of the zoo, one of its densities, random interior point, rescaling off / forced on); for every leaf parameter up to 4 "
        "random components are differentiated numerically; non-trivial = at least one component with a non-zero derivative; distinct by (graph, density, seed, rescale)")
ASSUMPTIONS = [
    "central differences with Richardson extrapolation (steps h and h/2, h = 1e-4 * max(1,|x|)) in float64; a disagreement is re-examined with h/8 before it is reported (guards against a kink inside the stencil: ties between event times are excluded by the statement)",
    "simplex-valued leaves are perturbed component-wise as raw vectors (the densities are smooth functions of the raw vector)",
]
BUDGET = {"quick": 85, "thorough": 900}
ROUNDS = {"thorough": 16}
FLOORS = {"derivatives_compared": {"quick": 4000, "thorough": 40000}, "nonzero_derivatives": {"quick": 800, "thorough": 8000}, "densities": 30, "with_rescaling": 20, "switch_evaluations": {"quick": 4, "thorough": 16}, "scaled_up_rates": {"quick": 6, "thorough": 40}, "evaluated_before_with_backward": {"quick": 8, "thorough": 60}, "evaluated_before_with_no_grad": {"quick": 8, "thorough": 60}}


def cases(tier, seed):
    rng = np.random.default_rng([seed, 12])
    out = []
    reps = 8 if tier == "quick" else 60
    for rep in range(reps):
        for name in zoo.DETERMINISTIC:
            g = zoo.build(name, 0)
            for e in g["evals"]:
                out.append({"graph": name, "eval": e, "seed": int(rng.integers(2**31)), "rescale": bool(e.startswith("like") and rep % 2 == 1)})
    # fast birth-death processes over the depth of the tree (rate x time in the thousands: exp(A t) does not fit a double)
    for i in range(8 if tier == "quick" else 64):
        f = float([150.0, 400.0, 1200.0, 60.0][i % 4])
        e = ["bd", "bdsk", "bdsk.edge", "bd"][i % 4]
        sc = {"bd.lambda": f, "bd.mu": f, "bd.psi": f} if e == "bd" else ({"bdsk.delta": f} if e == "bdsk" else {"bdsk.edge.delta": f})
        out.append({"graph": "time-ratio", "eval": e, "seed": int(rng.integers(2**31)), "rescale": False, "scale_leaves": sc})
    # trees large enough to underflow: gradient of the evaluation that switches to rescaling, and of the one after it
    models = ["JC69", "HKY", "GTR+W4", "HKY-states"]
    for i in range(6 if tier == "quick" else 24):
        cfg = {"shape": ["caterpillar", "balanced", "random"][i % 3], "model": models[i % 4], "scale": float([0.5, 1.0, 3.0][i % 3]), "target": float([-330.0, -400.0][i % 2]),
               "seed": int(rng.integers(2**31)), "nsites": 2, "history": False, "batch": False}
        out.insert(i, {"config": cfg, "seed": int(rng.integers(2**31))})
    return out


def run_switch_case(case):
    """Gradient taken from the very evaluation that detects the underflow and switches to rescaling (and from the
    following, rescaled, evaluation), against finite differences of the (path-independent, see C03) value."""
    import torch
    from . import c03
    from ..gen import phylo

    V = []
    C = {"derivatives_compared": 0, "nonzero_derivatives": 0, "switch_evaluations": 0, "densities": ["switch:" + case["config"]["model"]], "with_rescaling": 0}
    cfg = case["config"]
    import sys

    sys.setrecursionlimit(50000)
    N = c03.locate(cfg)[0]
    c = c03.make(cfg, N)
    rng = np.random.default_rng(case["seed"])
    for which in ("switching", "after"):
        objs, dic = tt.load(phylo.likelihood_json(c))
        like, blp = dic["like"], dic["tree.blens"]
        if which == "after":
            with torch.no_grad():
                like()
            blp.tensor = blp.tensor.detach().clone()  # change notification: the next call recomputes, now rescaled
        r_before = bool(like.rescale)
        blp.requires_grad = True
        val = like().sum()
        if not torch.isfinite(val):
            continue
        val.backward()
        if which == "switching" and (r_before or not like.rescale):
            C["switch_not_reached"] = C.get("switch_not_reached", 0) + 1
            continue
        C["switch_evaluations" if which == "switching" else "with_rescaling"] += 1
        grad = blp.grad.detach().clone().numpy().reshape(-1)
        base = blp.tensor.detach().clone()
        idxs = rng.choice(base.numel(), size=3, replace=False)
        for idx in idxs:
            idx = int(idx)
            h = 1e-4 * max(1.0, float(base[idx]))

            def f(delta):
                x = base.clone()
                x[idx] += delta
                blp.tensor = x
                with torch.no_grad():
                    return float(like().sum())

            d1 = (f(h) - f(-h)) / (2 * h)
            d2 = (f(h / 2) - f(-h / 2)) / h
            fd = (4 * d2 - d1) / 3
            C["derivatives_compared"] += 1
            if abs(fd) > 1e-7:
                C["nonzero_derivatives"] += 1
            gv = float(grad[idx])
            if not np.isfinite(gv) or abs(gv - fd) > 1e-5 * max(1.0, abs(gv), abs(fd)):
                V.append(tt.viol("C12:wrong-gradient:underflow-%s-evaluation:%s" % (which, cfg["model"]), "%d taxa, %s: d logL / d branch[%d] back-propagated from the %s evaluation is %.10g, finite difference %.10g"
                                 % (N, cfg["model"], idx, "switching (first, underflowing)" if which == "switching" else "rescaled", gv, fd), case=case, N=N, index=idx))
                break
        blp.tensor = base
    return {"violations": V, "counters": C, "fingerprint": "switch|%s|%s|%d" % (cfg["shape"], cfg["model"], case["seed"]), "sample": None}


def run_case(case):
    import torch

    if "config" in case:
        return run_switch_case(case)
    V = []
    g = zoo.build(case["graph"], case["seed"])
    e = case["eval"]
    C = {"derivatives_compared": 0, "nonzero_derivatives": 0, "retried_smaller_step": 0, "densities": ["%s:%s" % (g["name"], e)], "with_rescaling": 0}
    rng = np.random.default_rng(case["seed"] + 3)
    objs, dic = tt.load(g["spec"])
    leaves = g["leaves"]
    # move to a random interior point
    for pid, dom in leaves.items():
        if rng.random() < 0.5:
            shape = tuple(dic[pid].tensor.shape)
            dic[pid].tensor = torch.tensor(np.asarray(zoo.draw(rng, dom, shape), dtype=float).reshape(shape))
        if dom == "positive" and dic[pid].tensor.numel() > 1 and rng.random() < 0.15 and not str(pid).startswith("tree."):
            # (not the tree's own parameters: equal increments put two nodes at the same height - a tie between event times, which the
            # property excludes and where max() has no derivative)
            # all entries equal (where optimisers and samplers are started): still an interior point, the density is smooth there
            dic[pid].tensor = torch.full_like(dic[pid].tensor, float(np.exp(rng.normal(0.5, 0.5))))
            C["tied_vectors"] = C.get("tied_vectors", 0) + 1
    if e in ("bdsk", "bdsk.edge") and case["seed"] % 2 == 0 and e + ".s" in dic:
        # no psi-sampling in the older epoch (s = 0 there: sampling began later, the usual skyline set-up): s is then a
        # constant of the model (it sits on the boundary of its domain) and the other parameters are differentiated
        dic[e + ".s"].tensor = torch.tensor([0.0, 0.3], dtype=dic[e + ".s"].tensor.dtype)
        leaves = {k: v for k, v in leaves.items() if k != e + ".s"}
        C["epochs_without_psi_sampling"] = 1
    for pid, f in (case.get("scale_leaves") or {}).items():
        dic[pid].tensor = dic[pid].tensor.detach() * f
        C["scaled_up_rates"] = 1
    if case["rescale"]:
        for i, o in dic.items():
            if hasattr(o, "rescale") and hasattr(o, "threshold"):
                o.rescale = True
                C["with_rescaling"] += 1
    for pid in leaves:
        dic[pid].requires_grad = True
    target = dic[e]

    def value():
        return target().sum()

    # history: the likelihood has been evaluated before at this point - once with a backward pass, or once without a graph (a logger,
    # a sampler's accept step) - and since then everything but the substitution model has moved (new tensors for every other parameter; the
    # parameters the rate matrix is built from are the very same objects - the library's caches keep the graph of whatever they hold, so
    # all other parameters have to be renewed between two backward passes): what is back-propagated now are still the derivatives of
    # the value returned now
    hist = 0
    sub_models = [o for o in dic.values() if hasattr(o, "q") and hasattr(o, "frequencies") and hasattr(o, "p_t")]
    if e.startswith("like") and sub_models and case["seed"] % 3:
        def qs_():
            with torch.no_grad():
                return [torch.cat([m.q().reshape(-1), m.frequencies.reshape(-1)]).clone() for m in sub_models]

        q0_ = qs_()
        q_params = set()
        for pid in leaves:
            keep_ = dic[pid].tensor
            dic[pid].tensor = keep_.detach() * 1.003 + 1e-3
            q1_ = qs_()
            dic[pid].tensor = keep_
            if any(a.shape != b.shape or bool((a - b).abs().max() > 0) for a, b in zip(q0_, q1_)):
                q_params.add(pid)
        for pid in leaves:
            dic[pid].requires_grad = True
        # (a parameter behind a transform is renewed as well: the transformed parameter keeps the graph of its own cached value)
        behind = set()
        for o in dic.values():
            if type(o).__name__ in ("TransformedParameter", "ViewParameter", "CatParameter"):
                behind.update(getattr(q_, "id", None) for q_ in o.parameters())
        q_params = {pid for pid in q_params if pid not in behind}
        if q_params and len(q_params) < len(leaves):
            hist = case["seed"] % 3
            try:
                if hist == 1:
                    v0 = value()
                    if torch.isfinite(v0) and v0.requires_grad:
                        v0.backward()
                else:
                    with torch.no_grad():
                        value()
            except (RuntimeError, NotImplementedError):
                hist = 0  # (reported by the plain case of this density)
            for pid in leaves:
                if dic[pid].tensor.grad is not None:
                    dic[pid].tensor.grad = None
                if pid not in q_params:
                    dic[pid].tensor = dic[pid].tensor.detach().clone()
                    dic[pid].requires_grad = True
            if hist:
                C["evaluated_before_with_" + ("backward" if hist == 1 else "no_grad")] = 1
    val = value()
    if not torch.isfinite(val):
        return {"violations": V, "counters": C, "fingerprint": None, "sample": None}
    if val.requires_grad:
        try:
            val.backward()
        except (RuntimeError, NotImplementedError) as ex:
            # raised by the autograd engine while differentiating the value the library returned (an in-place update of a tensor
            # needed for the backward pass, an operation without a derivative): no gradient at all
            import re

            V.append(tt.viol("C12:backward-raises:%s:%s:%s%s" % (g["name"], e, type(ex).__name__, ":after-an-earlier-evaluation" if hist else ""), "%s/%s: back-propagating from the returned value%s raises %s: %s" % (g["name"], e, [" ", " (evaluated and back-propagated once before, then every parameter but those of the rate matrix was renewed)", " (evaluated once before under no_grad, then every parameter but those of the rate matrix was renewed)"][hist].rstrip(), type(ex).__name__, re.sub(r"\s+", " ", str(ex))[:160]), case=case))
            return {"violations": V, "counters": C, "fingerprint": None, "sample": None}
    grads = {pid: (None if dic[pid].grad is None else dic[pid].grad.detach().clone().numpy()) for pid in leaves}
    base = {pid: dic[pid].tensor.detach().clone() for pid in leaves}
    for pid in leaves:
        dic[pid].tensor = base[pid].clone()  # plain tensors from here on

    def f_at(pid, idx, delta):
        x = base[pid].clone()
        x.view(-1)[idx] += delta
        dic[pid].tensor = x
        with torch.no_grad():
            v = float(value())
        dic[pid].tensor = base[pid].clone()
        return v

    def richardson(pid, idx, h):
        d1 = (f_at(pid, idx, h) - f_at(pid, idx, -h)) / (2 * h)
        d2 = (f_at(pid, idx, h / 2) - f_at(pid, idx, -h / 2)) / h
        return (4 * d2 - d1) / 3

    # mechanism: the eigendecomposition route of the substitution models is not differentiable where the symmetrised rate
    # matrix has repeated eigenvalues (e.g. all exchangeabilities equal); the back-propagated gradient of anything that goes
    # through p_t is then NaN or arbitrary
    from .c19 import repeated_eigenvalues

    degenerate = (e.startswith("like") or e == "joint") and repeated_eigenvalues(dic, torch)
    eig_params = set()
    if degenerate:
        C["points_with_repeated_eigenvalues"] = 1
        # the mechanism concerns the parameters the rate matrix is built from (what is back-propagated through the eigendecomposition);
        # branch lengths, clock and site-model parameters reach p_t through t only
        models = [o for o in dic.values() if hasattr(o, "q") and hasattr(o, "frequencies") and hasattr(o, "p_t")]

        def qs():
            with torch.no_grad():
                return [torch.cat([m.q().reshape(-1), m.frequencies.reshape(-1)]).clone() for m in models]

        q0 = qs()
        for pid in leaves:
            dic[pid].tensor = base[pid] * 1.003 + 1e-3
            q1 = qs()
            dic[pid].tensor = base[pid].clone()
            if any(a.shape != b.shape or bool((a - b).abs().max() > 0) for a, b in zip(q0, q1)):
                eig_params.add(pid)

    def sig_for(kind, pid):
        if case.get("scale_leaves") and C.get("epochs_without_psi_sampling") and kind == "nonfinite":
            # mechanism: rate x time above 709 (the regime repaired in 505a49e for psi > 0) together with an epoch without psi-sampling:
            # A = |lambda - mu| exactly, and the branch-free forms of A + x / A - x divide 0 by 0 in the backward pass
            return "C12:nonfinite-gradient:birth-death:rate-times-time-above-709:epoch-without-psi-sampling"
        if degenerate and pid in eig_params and kind in ("wrong", "nonfinite"):
            return "C12:gradient-wrong-or-not-finite:repeated-eigenvalues-of-the-rate-matrix"
        return "C12:%s-gradient:%s:%s:%s" % (kind, g["name"], e, pid)

    any_nonzero = False
    for pid in leaves:
        n = base[pid].numel()
        idxs = rng.choice(n, size=min(4, n), replace=False)
        for idx in idxs:
            idx = int(idx)
            x0 = float(base[pid].view(-1)[idx])
            h = 1e-4 * max(1.0, abs(x0))
            if leaves[pid] in ("positive", "unit", "simplex", "ratio"):
                h = min(h, 0.2 * abs(x0), 0.2 * abs(1 - x0) if leaves[pid] in ("unit", "ratio") else h)
            fd = richardson(pid, idx, h)
            gv = 0.0 if grads[pid] is None else float(grads[pid].reshape(-1)[idx])
            C["derivatives_compared"] += 1
            if not np.isfinite(fd):
                continue
            if not np.isfinite(gv):
                V.append(tt.viol(sig_for("nonfinite", pid), "%s/%s: d/d %s[%d] back-propagated %s while the value is finite and the finite difference is %.10g"
                                 % (g["name"], e, pid, idx, gv, fd), case=case, parameter=pid, index=idx, point=base[pid].reshape(-1)[:8].tolist()))
                break
            tol = 1e-6 * max(1.0, abs(gv), abs(fd))
            if abs(gv - fd) > tol:
                C["retried_smaller_step"] += 1
                fd2 = richardson(pid, idx, h / 8)
                if abs(gv - fd2) <= 1e-5 * max(1.0, abs(gv), abs(fd2)):
                    fd = fd2
                elif abs(fd - fd2) > 1e-4 * max(1.0, abs(fd)):
                    continue  # the finite differences do not converge here (a kink inside the stencil): not judged
            if abs(fd) > 1e-7:
                any_nonzero = True
                C["nonzero_derivatives"] += 1
            if abs(gv - fd) > tol and abs(gv - fd) > 1e-5 * max(1.0, abs(gv), abs(fd)):
                kind = "missing" if (grads[pid] is None or gv == 0.0) else "wrong"
                V.append(tt.viol(sig_for(kind, pid), "%s/%s: d/d %s[%d] back-propagated %s, finite difference %.10g (rescale=%s)"
                                 % (g["name"], e, pid, idx, "None" if grads[pid] is None else "%.10g" % gv, fd, case["rescale"]), case=case, parameter=pid, index=idx))
                break
    fp = "%s|%s|%d|%s" % (g["name"], e, case["seed"], case["rescale"]) if any_nonzero else None
    return {"violations": V, "counters": C, "fingerprint": fp, "sample": {"graph": g["name"], "density": e, "value": float(val)}}
