"""C12 - gradients are the derivatives of the reported densities.

Gradient monitor: for every density of the model zoo and every continuous leaf parameter (reached through any chain of
transforms) the back-propagated gradient is compared with Richardson-extrapolated central differences of the same
public call; a parameter whose finite difference shows influence must not receive a missing or zero gradient."""
from __future__ import annotations

import numpy as np

from .. import tt
from ..gen import zoo

PROPERTY = "C12"
LEVEL = "exploration"
RULE = ("cases = (graph of the zoo, one of its densities, random interior point, rescaling off / forced on); for every leaf parameter up to 4 "
        "random components are differentiated numerically; non-trivial = at least one component with a non-zero derivative; distinct by (graph, density, seed, rescale)")
ASSUMPTIONS = [
    "central differences with Richardson extrapolation (steps h and h/2, h = 1e-4 * max(1,|x|)) in float64; a disagreement is re-examined with h/8 before it is reported (guards against a kink inside the stencil: ties between event times are excluded by the statement)",
    "simplex-valued leaves are perturbed component-wise as raw vectors (the densities are smooth functions of the raw vector)",
]
BUDGET = {"quick": 85, "thorough": 900}
ROUNDS = {"thorough": 16}
FLOORS = {"derivatives_compared": {"quick": 4000, "thorough": 40000}, "nonzero_derivatives": {"quick": 800, "thorough": 8000}, "densities": 30, "with_rescaling": 20}


def cases(tier, seed):
    rng = np.random.default_rng([seed, 12])
    out = []
    reps = 8 if tier == "quick" else 60
    for rep in range(reps):
        for name in zoo.GRAPHS:
            g = zoo.build(name, 0)
            for e in g["evals"]:
                out.append({"graph": name, "eval": e, "seed": int(rng.integers(2**31)), "rescale": bool(e.startswith("like") and rep % 2 == 1)})
    return out


def run_case(case):
    import torch

    V = []
    g = zoo.build(case["graph"], case["seed"])
    e = case["eval"]
    C = {"derivatives_compared": 0, "nonzero_derivatives": 0, "retried_smaller_step": 0, "densities": ["%s:%s" % (g["name"], e)], "with_rescaling": 0}
    rng = np.random.default_rng(case["seed"] + 3)
    objs, dic = tt.load(g["spec"])
    leaves = g["leaves"]
    # move to a random interior point
    for pid, dom in leaves.items():
        if rng.random() < 0.5:
            shape = tuple(dic[pid].tensor.shape)
            dic[pid].tensor = torch.tensor(np.asarray(zoo.draw(rng, dom, shape), dtype=float).reshape(shape))
    if case["rescale"]:
        for i, o in dic.items():
            if hasattr(o, "rescale") and hasattr(o, "threshold"):
                o.rescale = True
                C["with_rescaling"] += 1
    for pid in leaves:
        dic[pid].requires_grad = True
    target = dic[e]

    def value():
        return target().sum()

    val = value()
    if not torch.isfinite(val):
        return {"violations": V, "counters": C, "fingerprint": None, "sample": None}
    if val.requires_grad:
        val.backward()
    grads = {pid: (None if dic[pid].grad is None else dic[pid].grad.detach().clone().numpy()) for pid in leaves}
    base = {pid: dic[pid].tensor.detach().clone() for pid in leaves}
    for pid in leaves:
        dic[pid].tensor = base[pid].clone()  # plain tensors from here on

    def f_at(pid, idx, delta):
        x = base[pid].clone()
        x.view(-1)[idx] += delta
        dic[pid].tensor = x
        with torch.no_grad():
            v = float(value())
        dic[pid].tensor = base[pid].clone()
        return v

    def richardson(pid, idx, h):
        d1 = (f_at(pid, idx, h) - f_at(pid, idx, -h)) / (2 * h)
        d2 = (f_at(pid, idx, h / 2) - f_at(pid, idx, -h / 2)) / h
        return (4 * d2 - d1) / 3

    any_nonzero = False
    for pid in leaves:
        n = base[pid].numel()
        idxs = rng.choice(n, size=min(4, n), replace=False)
        for idx in idxs:
            idx = int(idx)
            x0 = float(base[pid].view(-1)[idx])
            h = 1e-4 * max(1.0, abs(x0))
            if leaves[pid] in ("positive", "unit", "simplex", "ratio"):
                h = min(h, 0.2 * abs(x0), 0.2 * abs(1 - x0) if leaves[pid] in ("unit", "ratio") else h)
            fd = richardson(pid, idx, h)
            gv = 0.0 if grads[pid] is None else float(grads[pid].reshape(-1)[idx])
            C["derivatives_compared"] += 1
            if not np.isfinite(fd):
                continue
            tol = 1e-6 * max(1.0, abs(gv), abs(fd))
            if abs(gv - fd) > tol:
                C["retried_smaller_step"] += 1
                fd2 = richardson(pid, idx, h / 8)
                if abs(gv - fd2) <= 1e-5 * max(1.0, abs(gv), abs(fd2)):
                    fd = fd2
                elif abs(fd - fd2) > 1e-4 * max(1.0, abs(fd)):
                    continue  # the finite differences do not converge here (a kink inside the stencil): not judged
            if abs(fd) > 1e-7:
                any_nonzero = True
                C["nonzero_derivatives"] += 1
            if abs(gv - fd) > tol and abs(gv - fd) > 1e-5 * max(1.0, abs(gv), abs(fd)):
                kind = "missing" if (grads[pid] is None or gv == 0.0) else "wrong"
                V.append(tt.viol("C12:%s-gradient:%s:%s:%s" % (kind, g["name"], e, pid), "%s/%s: d/d %s[%d] back-propagated %s, finite difference %.10g (rescale=%s)"
                                 % (g["name"], e, pid, idx, "None" if grads[pid] is None else "%.10g" % gv, fd, case["rescale"]), case=case, parameter=pid, index=idx))
                break
    fp = "%s|%s|%d|%s" % (g["name"], e, case["seed"], case["rescale"]) if any_nonzero else None
    return {"violations": V, "counters": C, "fingerprint": fp, "sample": {"graph": g["name"], "density": e, "value": float(val)}}
