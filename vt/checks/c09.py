"""C09 - birth-death skyline density agrees across epochs and with the constant model.

Reference-model monitor: (a) single epoch against the constant-rate closed form, (b) epoch-refinement metamorphic
pairs on the library, (c) numerical integration of the birth-death master equations along the tree (vt.ref.bd),
(d) every JSON option of BDSKModel / BirthDeathModel compared with what it names."""
from __future__ import annotations

import math

import numpy as np

from .. import tt
from ..gen import models as gm
from ..gen import phylo
from ..ref import bd
from ..ref import tree as rt

PROPERTY = "C09"
LEVEL = "exploration"
RULE = ("cases = tree (2..30 tips; serial / contemporaneous / mixed sampling) x 1..8 epochs x boundary placement {default equidistant, "
        "random, exactly on a psi-sampled tip, exactly on a birth time} x {rho at present, rho-sampled tips on an interior boundary} x "
        "removal probability {absent, constant, per epoch} x survival conditioning x route {BDSKModel from JSON, distribution}; "
        "sub-checks: ODE oracle, single-epoch closed form, epoch refinement, JSON options; non-trivial = >= 3 tips; distinct by seed")
ASSUMPTIONS = [
    "master equations integrated with DOP853 at rtol 1e-12; compared at 1e-6 relative",
    "oriented-tree density; the library adds (n-1) log 2 when a removal probability is given (labelled-tree convention): this constant is fixed from theory, not fitted",
    "coincidences of a boundary with an event are generated only where the rates on both sides are equal (refinement) or where the tips on the boundary are rho-sampled",
    "a Stadler-closed-form / ODE disagreement is an oracle error (harness error -> inconclusive), never a violation",
    "fast-process cases whose survival probability is itself below 1e-304 are not judged (the quantity conditioned on is not a double)",
]
BUDGET = {"quick": 80, "thorough": 1800}
ROUNDS = {"thorough": 10}
FLOORS = {"after_moving_the_epoch_boundaries": {"quick": 40, "thorough": 400}, "ode_comparisons": {"quick": 400, "thorough": 4000}, "closed_form_comparisons": {"quick": 80, "thorough": 800},
          "refinement_pairs": {"quick": 300, "thorough": 3000}, "json_option_checks": {"quick": 150, "thorough": 1500}, "oracle_cross_checks": 50}

OPTIONS = ["survival", "removal_probability", "relative_times", "times_list", "origin_is_root_edge", "rho_absent", "birth_death_model"]


def cases(tier, seed):
    rng = np.random.default_rng([seed, 9])
    n = {"quick": 2000, "thorough": 14000}[tier]
    out = []
    for i in range(n):
        sub = ["ode", "ode", "ode", "refine", "refine", "single", "json"][i % 7]
        c = {"sub": sub, "n": int(rng.choice([2, 3, 4, 5, 6, 8, 12, 20, 30])), "sampling": str(rng.choice(["serial", "serial", "contemp", "mixed", "serial", "serial", "contemp", "mixed", "contemp-psi"])),
             "m": 1 if sub == "single" else int(rng.integers(1, 9)), "boundaries": str(rng.choice(["default", "random", "random", "on-tip", "on-birth"])),
             "rho_interior": bool(rng.random() < 0.2), "r": str(rng.choice(["none", "none", "const", "per-epoch"])),
             "survival": bool(rng.random() < 0.6), "route": str(rng.choice(["json", "direct"])), "seed": int(rng.integers(2**31))}
        if c["r"] != "none" and rng.random() < 0.8:
            c["m"] = 1  # several epochs with a removal probability are declined by the library (known finding): keep few
        if sub == "refine" and rng.random() < 0.85:
            c["r"] = "none"  # a refined removal model has two epochs, which the library declines (known finding)
        if sub == "refine":
            c["split"] = str(rng.choice(["random", "on-psi-tip", "on-birth", "random"]))
        if i % 9 == 4:
            c["near_rho_tip"] = True
            c["sampling"] = "mixed"
        if sub == "json":
            c["option"] = OPTIONS[(i // 7) % len(OPTIONS)]
            c["route"] = "json"
            c["rho_interior"] = False  # option plumbing is judged on configurations free of the interior-rho mechanism
        out.append(c)
    # fast epidemics over a long time (rate x time in the hundreds and thousands: e.g. an infectious period of days and an origin years
    # back): exp(A t) no longer fits a double, its logarithm does.  Single epoch, against the 40-digit closed form.
    for i in range({"quick": 60, "thorough": 600}[tier]):
        out.append({"sub": "single", "n": int(rng.choice([2, 4, 8, 20])), "sampling": str(rng.choice(["serial", "contemp", "mixed", "contemp-psi"])), "m": 1, "boundaries": "default",
                    "rho_interior": False, "r": "none", "survival": bool(i % 2), "route": str(rng.choice(["json", "direct"])), "seed": int(rng.integers(2**31)),
                    "fast": float([20.0, 60.0, 200.0, 600.0][i % 4])})
        if i % 5 == 4:
            # a declining epidemic sampled at the present only, conditioned on having survived: the survival probability is small
            # (1e-10 .. 1e-300), its logarithm is an ordinary number
            out[-1].update(sampling="contemp", survival=True, subcritical=True, fast=float([3.0, 8.0, 20.0, 60.0][(i // 5) % 4]))
    for i in range({"quick": 16, "thorough": 120}[tier]):
        out.append({"sub": "ode", "n": int(rng.choice([5, 10, 20])), "sampling": "contemp", "m": int(rng.choice([2, 3])), "boundaries": "default", "rho_interior": False, "r": "none",
                    "survival": bool(i % 2), "route": str(rng.choice(["json", "direct"])), "seed": int(rng.integers(2**31)), "boom_bust": float([20.0, 60.0, 150.0, 400.0][i % 4])})
    for i in range({"quick": 12, "thorough": 60}[tier]):
        out.append({"sub": "ode", "n": int(rng.choice([3, 6, 12])), "sampling": "contemp", "m": int(rng.choice([1, 1, 3])), "boundaries": "default", "rho_interior": False, "r": "none",
                    "survival": bool(i % 2), "route": str(rng.choice(["json", "direct"])), "seed": int(rng.integers(2**31)), "critical": float([0.0, 1e-12, -1e-10, 1e-8][i % 4])})
    return out


def build(case):
    rng = np.random.default_rng(case["seed"])
    n, m = case["n"], case["m"]
    if case["sampling"] in ("contemp", "contemp-psi"):
        # "contemp-psi": every tip at the present but no rho-sampling there (rho = 0, psi > 0): the tips are psi-samples at time 0
        th = np.zeros(n)
    elif case["sampling"] == "serial":
        th = rng.uniform(0.05, 3.0, n)
        th[int(rng.integers(n))] = 0.0
    else:
        th = np.where(rng.random(n) < 0.5, 0.0, rng.uniform(0.05, 3.0, n))
        th[int(rng.integers(n))] = 0.0
    th = [float(x) for x in th]
    if case.get("near_rho_tip") and case["sampling"] == "mixed" and n >= 3:
        # a psi-sampled tip a hair's breadth (2e-5 time units) above the rho-sampled tips at the present: near is not on
        serial = [i for i, x in enumerate(th) if x > 0] or [n - 1]
        th[serial[0]] = 2.0e-5
        if all(x > 0 for x in th):
            th[(serial[0] + 1) % n] = 0.0
    topo = rt.random_topology(n, rng)
    names = ["t%d" % i for i in range(n)]
    # interior rho-sampling: put some tips exactly on a common height which will be a boundary
    rho_h = None
    if case["rho_interior"] and m >= 2 and n >= 3 and not case["sampling"].startswith("contemp"):
        rho_h = float(rng.uniform(0.3, 2.0))
        k = int(rng.integers(1, max(2, n // 3) + 1))
        idx = rng.choice(n, size=k, replace=False)
        for i in idx:
            th[int(i)] = rho_h
        if min(th) > 0:
            th[int(np.argmax([1 if i not in idx else 0 for i in range(n)]))] = 0.0
    root = rt.random_time_tree(topo, rng, {i: th[i] for i in range(n)}, {i: names[i] for i in range(n)}, scale=float(rng.choice([0.2, 1.0])))
    ih = [nd.height for nd in rt.postorder(root) if not nd.is_leaf()]
    origin = root.height + float(rng.exponential(0.5)) + 0.01
    # boundaries by height: b_0 = 0 < ... < b_m = origin
    style = case["boundaries"]
    inner = []
    if m > 1:
        if style == "default":
            inner = [origin * k / m for k in range(1, m)]
        else:
            inner = sorted(rng.uniform(0.02 * origin, 0.98 * origin, m - 1).tolist())
        if rho_h is not None:
            inner[int(np.argmin([abs(x - rho_h) for x in inner]))] = rho_h
            style = "random" if style == "default" else style
            inner = sorted(set(inner))
    # keep boundaries away from events (unless a coincidence is asked for): measure-zero conventions are not judged
    events = [x for x in th if x > 0] + ih
    inner2 = []
    for x in inner:
        if x != rho_h:
            while any(abs(x - e) < 1e-9 for e in events) and style != "default":
                x += 1e-4
        inner2.append(x)
    inner = sorted(set(inner2))
    b = [0.0] + inner + [origin]
    m = len(b) - 1
    lam, mu, psi, rr = [], [], [], []
    R = gm.loguniform(rng, 0.5, 4.0, m)
    delta = gm.loguniform(rng, 0.2, 3.0, m) * case.get("fast", 1.0)
    s = rng.uniform(0.05, 0.9, m)
    if case["sampling"] == "contemp" and rng.random() < 0.5:
        s = np.zeros(m)
    if case.get("subcritical"):
        R = np.full(m, float(rng.uniform(0.5, 0.95)))
        s = np.zeros(m)
    if case.get("boom_bust"):
        # an epidemic that grew and has been declining since (R above one in the older epochs, below one in the most recent), sampled at
        # the present only with a small probability: by the present the chance of an old lineage to be sampled at all is 1e-10 .. 1e-60
        R = np.array([0.5] + [float(rng.uniform(1.3, 2.5)) for _ in range(m - 1)])
        delta = np.full(m, float(case["boom_bust"]) / origin)
        s = np.zeros(m)
    if case.get("critical") is not None:
        # a critical process (births and deaths balance: R = 1, or within 1e-12 of it) without psi-sampling
        R = np.full(m, 1.0 + float(case["critical"]))
        s = np.zeros(m)
    rkind = case["r"]
    if rkind == "const":
        rv = np.full(m, float(rng.uniform(0.05, 1.0)))
    elif rkind == "per-epoch":
        rv = rng.uniform(0.05, 1.0, m)
    else:
        rv = None
    if rv is not None and np.all(s == 0):
        s = rng.uniform(0.05, 0.9, m)
    rho = [0.0] * m  # by height: rho[j] at b_j
    if case["sampling"] in ("contemp", "mixed") or (rng.random() < 0.2 and case["sampling"] != "contemp-psi"):
        rho[0] = float(rng.uniform(0.05, 1.0))
    if rho_h is not None:
        rho[b.index(rho_h)] = float(rng.uniform(0.1, 0.9))
    if case.get("boom_bust"):
        rho[0] = float(10.0 ** rng.uniform(-4, -2))
    if case["sampling"] == "mixed" and m >= 2 and rho[0] > 0 and rv is None and case["seed"] % 3 == 0 and not any(0 < t <= b[1] for t in th):
        # no psi-sampling in the most recent epoch (its only samples are the rho-sampled tips at the present): s = 0 there, a usual set-up
        s = np.array(s, dtype=float)
        s[0] = 0.0
    return {"tip_heights": th, "root": root, "internal": ih, "origin": origin, "b": b, "R": R.tolist(), "delta": delta.tolist(), "s": s.tolist(),
            "r": None if rv is None else rv.tolist(), "rho": rho, "names": names, "topo": topo, "rho_h": rho_h, "m": m, "style": style, "short_rho": case["seed"] % 2 == 0, "stiff": bool(case.get("boom_bust"))}


def rates(d):
    """lambda, mu, psi per epoch (by height order) from the epidemiological parameterisation (documented formulas)."""
    lam, mu, psi = [], [], []
    for j in range(d["m"]):
        R, de, s = d["R"][j], d["delta"][j], d["s"][j]
        lam.append(R * de)
        if d["r"] is None:
            mu.append(de - s * de)
            psi.append(s * de)
        else:
            r = d["r"][j]
            p = s * de / (1.0 + (r - 1.0) * s)
            psi.append(p)
            mu.append(de - p * r)
    return lam, mu, psi


def oracle(d, survival, rtol=None):
    lam, mu, psi = rates(d)
    sky = bd.Skyline(d["b"], lam, mu, psi, d["rho"], d["r"], rtol=rtol or (3e-14 if d.get("stiff") else 1e-12))
    val = bd.tree_log_density(d["root"], sky, survival)
    n = len(d["tip_heights"])
    const = (n - 1) * math.log(2.0) if d["r"] is not None else 0.0
    return val + const


def fwd(x):
    return list(reversed(x))


def rho_arg(d):
    """rho as handed to the subject (forward time): every epoch's entry, or - in half of the cases without rho-sampling in the
    past - the one entry for the present alone, which the library pads with zeros (what torchtree-cli writes)"""
    if d.get("short_rho") and d["m"] > 1 and not any(d["rho"][1:]):
        return [d["rho"][0]]
    return fwd(d["rho"])


def lib_direct(d, survival, times="absolute", **override):
    """PiecewiseConstantBirthDeath constructed directly (forward-time ordering of epochs)."""
    import torch
    from torchtree.evolution.bdsk import PiecewiseConstantBirthDeath

    lam, mu, psi = rates(d)
    T = lambda v: torch.tensor(v, dtype=torch.float64)
    kw = dict(rho=T(rho_arg(d)), origin=T([d["origin"]]), survival=survival)
    if d["r"] is not None:
        kw["removal_probability"] = T(fwd(d["r"]))
    if times == "absolute":
        kw["times"] = T([d["origin"] - x for x in reversed(d["b"][1:])])  # [0, t_1, ..., t_{m-1}]
    kw.update(override)
    dist = PiecewiseConstantBirthDeath(T(fwd(lam)), T(fwd(mu)), T(fwd(psi)), **kw)
    heights = T(d["tip_heights"] + sorted(d["internal"]))
    return dist.log_prob(heights)


def tree_case(d, rng):
    n = len(d["names"])
    names = [d["names"][i] for i in rng.permutation(n)]
    tcase = {"newick": rt.to_newick(d["root"], lengths=False), "names": names, "tree": "time",
             "dates": {d["names"][i]: d["tip_heights"][i] for i in range(n)}}
    ref_root = phylo.ref_tree(tcase)
    by_clade = {frozenset(x.name for x in rt.postorder(nd) if x.is_leaf()): nd.height for nd in rt.postorder(d["root"])}
    ih = [None] * (n - 1)
    for nd in rt.postorder(ref_root):
        if not nd.is_leaf():
            ih[nd.idx - n] = by_clade[frozenset(x.name for x in rt.postorder(nd) if x.is_leaf())]
    tree = {"id": "tree", "type": "TimeTreeModel", "newick": tcase["newick"], "taxa": "taxa",
            "internal_heights": gm.param("tree.heights", ih, dtype="torch.float64")}
    return [phylo.taxa_json(tcase), tree]


def bdsk_json(d, survival, rng, times="parameter", drop=(), extra=None):
    P = lambda name, v: gm.param("bdsk." + name, v, dtype="torch.float64")
    j = {"id": "bdsk", "type": "BDSKModel", "tree_model": "tree", "R": P("R", fwd(d["R"])), "delta": P("delta", fwd(d["delta"])), "s": P("s", fwd(d["s"])),
         "rho": P("rho", rho_arg(d)), "origin": P("origin", [d["origin"]]), "survival": survival}
    tl = [d["origin"] - x for x in reversed(d["b"][1:])]
    if times == "parameter":
        j["times"] = P("times", tl)
    elif times == "list":
        j["times"] = tl
    if d["r"] is not None:
        j["removal_probability"] = P("r", fwd(d["r"]))
    for k in drop:
        j.pop(k, None)
    if extra:
        j.update(extra)
    return tree_case(d, rng) + [j]


def scalar(v, sig, what):
    a = tt.as_np(v, sig, what)
    if a.size != 1:
        raise tt.SubjectError(sig, "%s has shape %s" % (what, a.shape))
    return float(a.reshape(-1)[0])


def features(case, d):
    f = [case["sampling"]]
    if d["rho_h"] is not None:
        f.append("interior-rho-tips")
    if d["r"] is not None:
        f.append("removal")
    if d["m"] > 1:
        f.append("multi-epoch")
    return "+".join(f)


def run_case(case):
    try:
        return _run_case(case)
    except Exception as e:
        from ..worker import _blame

        d = build(case)
        with_r = d["r"] is not None or case.get("option") == "removal_probability"
        several = d["m"] > 1 or case["sub"] == "refine"  # refinement turns one epoch into two
        if _blame(e) is not None and with_r and several and not isinstance(e, tt.SubjectError):
            # mechanism: a removal probability combined with more than one epoch is not evaluated at all
            v = tt.viol("C09:removal-probability-with-several-epochs:raises", "removal probability with %d epochs: the evaluation raises %s: %s" % (d["m"], type(e).__name__, str(e)[:160]), case=case)
            return {"violations": [v], "counters": {"raised_removal_multi_epoch": 1}, "fingerprint": None, "sample": None}
        raise


def _run_case(case):
    V = []
    C = {"ode_comparisons": 0, "closed_form_comparisons": 0, "refinement_pairs": 0, "json_option_checks": 0, "oracle_cross_checks": 0,
         "subs": [case["sub"]], "samplings": [case["sampling"]], "options": []}
    d = build(case)
    rng = np.random.default_rng(case["seed"] + 1)
    surv = case["survival"]
    n = case["n"]
    detail = {"case": case, "numbers": {k: d[k] for k in ("tip_heights", "internal", "origin", "b", "R", "delta", "s", "r", "rho")}}
    feat = features(case, d)

    def lib_value(survival=surv):
        if case["route"] == "json":
            objs, dic = tt.load(bdsk_json(d, survival, rng))
            return scalar(dic["bdsk"](), "C09:not-a-number", "BDSKModel()")
        return scalar(lib_direct(d, survival), "C09:not-a-number", "log_prob")

    if case.get("fast"):
        lam, mu, psi = rates(d)
        cf = bd.single_epoch_log_density(d["tip_heights"], d["internal"], d["origin"], lam[0], mu[0], psi[0], d["rho"][0], None, surv)
        A = math.sqrt((lam[0] - mu[0] - psi[0]) ** 2 + 4 * lam[0] * psi[0])
        C["fast_cases"] = 1
        if A * d["origin"] > 355:
            C["fast_cases_beyond_exp_range"] = 1
        if surv:
            lsp = bd.single_epoch_log_density(d["tip_heights"], d["internal"], d["origin"], lam[0], mu[0], psi[0], d["rho"][0], None, "log-survival-probability")
            if lsp < -700.0:
                # the probability the density is conditioned on is itself below the range of a double (a process that dies out with
                # probability 1 - 1e-304 or more): not judged
                C["survival_probability_below_double_range"] = 1
                return {"violations": V, "counters": C, "fingerprint": None, "sample": None}
        x = lib_value()
        C["closed_form_comparisons"] += 1
        if not np.isfinite(x) or abs(x - cf) > 1e-9 * max(1.0, abs(cf)):
            V.append(tt.viol("C09:single-epoch:large-rate-times-time:%s" % ("not-finite" if not np.isfinite(x) else "inaccurate"),
                             "single-epoch skyline %.14g, closed form (40 digits) %.14g; A*origin = %.0f (n=%d, %s, route %s)" % (x, cf, A * d["origin"], n, feat, case["route"]), **detail))
        if not (all(t == 0 for t in d["tip_heights"]) and d["rho"][0] == 0):
            import torch
            from torchtree.evolution.birth_death import BirthDeath

            T = lambda v: torch.tensor(v, dtype=torch.float64)
            y = float(BirthDeath(T([lam[0]]), T([mu[0]]), T([psi[0]]), T([d["rho"][0]]), T([d["origin"]]), survival=surv).log_prob(T(d["tip_heights"] + sorted(d["internal"]))).reshape(-1)[0])
            C["closed_form_comparisons"] += 1
            if not np.isfinite(y) or abs(y - cf) > 1e-9 * max(1.0, abs(cf)):
                V.append(tt.viol("C09:constant-model:large-rate-times-time:%s" % ("not-finite" if not np.isfinite(y) else "inaccurate"),
                                 "constant birth-death model %.14g, closed form (40 digits) %.14g; A*origin = %.0f (n=%d, %s)" % (y, cf, A * d["origin"], n, feat), **detail))
        return {"violations": V, "counters": C, "fingerprint": "fast|%d" % case["seed"], "sample": None}
    if case["sub"] in ("ode", "single"):
        ref = oracle(d, surv)
        if d.get("stiff"):
            # rate x time of 20..400 per epoch amplifies the integration error of the oracle: it is believed only where two tolerances agree
            ref2 = oracle(d, surv, rtol=1e-12)
            if not (np.isfinite(ref) and np.isfinite(ref2)) or abs(ref - ref2) > 3e-6 * max(1.0, abs(ref)):
                C["oracle_not_converged_not_judged"] = C.get("oracle_not_converged_not_judged", 0) + 1
                return {"violations": V, "counters": C, "fingerprint": None, "sample": None}
            C["stiff_cases_judged"] = C.get("stiff_cases_judged", 0) + 1
        lam, mu, psi = rates(d)
        exactly_critical = any(l_ == m_ and p_ == 0 for l_, m_, p_ in zip(lam, mu, psi))  # (the closed form of the oracle divides by A too: master equations only)
        if d["m"] == 1 and d["rho_h"] is None and not exactly_critical:
            cf = bd.single_epoch_log_density(d["tip_heights"], d["internal"], d["origin"], lam[0], mu[0], psi[0], d["rho"][0],
                                             None if d["r"] is None else d["r"][0], surv)
            cf += (n - 1) * math.log(2.0) if d["r"] is not None else 0.0
            C["oracle_cross_checks"] += 1
            if abs(cf - ref) > 1e-7 * max(1.0, abs(ref)):
                raise RuntimeError("oracle disagreement: closed form %r vs ODE %r" % (cf, ref))
        x = lib_value()
        C["ode_comparisons"] += 1
        # mechanism: A = sqrt((lambda - mu - psi)^2 + 4 lambda psi) is zero or next to zero in some epoch - a critical or nearly critical
        # process without psi-sampling - and the closed form divides by it
        lam_, mu_, psi_ = rates(d)
        near_critical = any(math.sqrt((l_ - m_ - p_) ** 2 + 4.0 * l_ * p_) < 1e-5 * (l_ + m_ + p_) for l_, m_, p_ in zip(lam_, mu_, psi_))
        if near_critical:
            C["nearly_critical_processes"] = C.get("nearly_critical_processes", 0) + 1
            if not np.isfinite(x) or abs(x - ref) > 1e-6 * max(1.0, abs(ref)):
                V.append(tt.viol("C09:nearly-critical-process-without-psi-sampling:%s" % ("not-finite" if not np.isfinite(x) else "inaccurate"),
                                 "lambda = mu (to within 1e-5) and psi = 0 in some epoch: log density %.12g, master-equation integration %.12g (n=%d, %d epochs, R - 1 = %g)" % (x, ref, n, d["m"], case.get("critical", float("nan"))), **detail))
            return {"violations": V, "counters": C, "fingerprint": "|".join(map(str, (case["sub"], n, d["m"], feat, case["seed"]))), "sample": None}
        # (rate x time of 20..400 per epoch amplifies the integration error of the oracle: tolerance 1e-12 moves its value by 1e-6,
        # 3e-14 - used for these cases - is the best double precision gives; judged to 1e-5)
        if not np.isfinite(x) or abs(x - ref) > (1e-5 if d.get("stiff") else 1e-6) * max(1.0, abs(ref)):
            V.append(tt.viol("C09:ode:%s:%s" % (feat, d["style"] if d["m"] > 1 else "single-epoch"), "log density %.12g, master-equation integration %.12g (n=%d, %d epochs, %s, route %s)" % (x, ref, n, d["m"], feat, case["route"]), **detail))
        if d["m"] == 1 and d["rho_h"] is None:
            C["closed_form_comparisons"] += 1
            if abs(x - cf) > 1e-9 * max(1.0, abs(cf)):
                V.append(tt.viol("C09:single-epoch:%s" % feat, "single-epoch skyline %.14g differs from the constant-rate closed form %.14g" % (x, cf), **detail))
        if case["route"] == "json" and d["m"] > 1 and d["rho_h"] is None and not any(d["rho"][1:]) and d["r"] is None and not V:
            # the same model object after its epoch boundaries were moved through the times parameter: the density of the new epochs
            import torch

            objs, dic = tt.load(bdsk_json(d, surv, rng))
            _ = dic["bdsk"]()
            u = float(rng.uniform(0.8, 0.97))
            d2 = dict(d, b=[0.0] + [x * u for x in d["b"][1:-1]] + [d["origin"]])
            dic["bdsk.times"].tensor = torch.tensor([d2["origin"] - x for x in reversed(d2["b"][1:])], dtype=torch.float64)
            x2 = scalar(dic["bdsk"](), "C09:not-a-number", "BDSKModel()")
            ref2 = oracle(d2, surv)
            C["after_moving_the_epoch_boundaries"] = 1
            if not np.isfinite(x2) or abs(x2 - ref2) > 1e-6 * max(1.0, abs(ref2)):
                V.append(tt.viol("C09:ode:after-times-update", "after the epoch boundaries were moved (times parameter x %.3g): log density %.12g, master-equation integration for the new epochs %.12g (before the move: %.12g)" % (u, x2, ref2, x), **detail))
        if d["m"] == 1 and d["rho_h"] is None and d["r"] is None and not V:
            # the same two densities with a sample dimension: two rows with different rates, each against the closed form
            import torch
            from torchtree.evolution.bdsk import PiecewiseConstantBirthDeath
            from torchtree.evolution.birth_death import BirthDeath

            lam, mu, psi = rates(d)
            rows = [(lam[0], mu[0], psi[0], d["rho"][0], d["origin"])]
            rows.append((lam[0] * float(rng.uniform(0.6, 1.5)), mu[0] * float(rng.uniform(0.6, 1.5)), psi[0] * float(rng.uniform(0.6, 1.5)),
                         min(0.99, d["rho"][0] * float(rng.uniform(0.6, 1.4))), d["origin"] + float(rng.uniform(0.0, 1.0))))
            T = lambda v: torch.tensor(v, dtype=torch.float64)
            col = lambda k: T([[r[k]] for r in rows])
            heights = T(d["tip_heights"] + sorted(d["internal"]))
            refs = [bd.single_epoch_log_density(d["tip_heights"], d["internal"], r[4], r[0], r[1], r[2], r[3], None, surv) for r in rows]
            for cname, make in (("skyline", lambda: PiecewiseConstantBirthDeath(col(0), col(1), col(2), rho=col(3), origin=col(4), survival=surv)),
                                ("constant", lambda: BirthDeath(col(0), col(1), col(2), col(3), col(4), survival=surv))):
                if cname == "constant" and (all(t == 0 for t in d["tip_heights"]) and d["rho"][0] == 0):
                    continue
                try:
                    out = tt.as_np(make().log_prob(heights), "C09:not-a-tensor").reshape(-1)
                except Exception as e:
                    from ..worker import _blame

                    if _blame(e) is None:
                        raise
                    C["batched_declined"] = C.get("batched_declined", 0) + 1
                    continue
                C["batched_rows"] = C.get("batched_rows", 0) + 2
                if out.shape[0] != 2 or any(abs(out[i] - refs[i]) > 1e-8 * max(1.0, abs(refs[i])) for i in range(2)):
                    V.append(tt.viol("C09:batched:%s:%s" % (cname, feat), "%s density with two parameter rows gives %s, the closed form %s" % (cname, out.tolist(), refs), **detail))
    elif case["sub"] == "refine":
        base = lib_value()
        # split one epoch into two sub-epochs with identical rates and rho = 0 at the new boundary
        b = d["b"]
        style = case["split"]
        cand = None
        if style == "on-psi-tip":
            tips = sorted({x for x in d["tip_heights"] if x > 0 and x not in b})
            cand = float(rng.choice(tips)) if tips else None
        elif style == "on-birth":
            cand = float(rng.choice([x for x in d["internal"] if x not in b])) if d["internal"] else None
        if cand is None:
            style = "random"
            cand = float(rng.uniform(0.01, 0.99) * d["origin"])
            while cand in b:
                cand += 1e-3
        j = max(k for k in range(len(b) - 1) if b[k] < cand)
        d2 = dict(d)
        d2["b"] = b[: j + 1] + [cand] + b[j + 1:]
        for key in ("R", "delta", "s"):
            d2[key] = d[key][: j + 1] + [d[key][j]] + d[key][j + 1:]
        if d["r"] is not None:
            d2["r"] = d["r"][: j + 1] + [d["r"][j]] + d["r"][j + 1:]
        d2["rho"] = d["rho"][: j + 1] + [0.0] + d["rho"][j + 1:]
        d2["m"] = d["m"] + 1
        if case["route"] == "json":
            objs, dic = tt.load(bdsk_json(d2, surv, rng))
            refined = scalar(dic["bdsk"](), "C09:not-a-number", "BDSKModel()")
        else:
            refined = scalar(lib_direct(d2, surv), "C09:not-a-number", "log_prob")
        C["refinement_pairs"] += 1
        if not np.isfinite(refined) or abs(refined - base) > 1e-9 * max(1.0, abs(base)):
            V.append(tt.viol("C09:refine:%s:%s%s" % (style, "removal" if d["r"] is not None else "no-removal", ":interior-rho-tips" if d["rho_h"] is not None else ""), "splitting epoch %d at height %.6g (%s) into identical sub-epochs changes the log density from %.12g to %.12g" % (j, cand, style, base, refined), split=cand, **detail))
    else:
        run_json_option(case, d, rng, V, C, detail)
    fp = "%s|%d" % (case["sub"], case["seed"]) if n >= 3 else None
    sample = None
    if n <= 5:
        sample = {"case": case, "tip_heights": d["tip_heights"], "internal_heights": d["internal"], "origin": d["origin"], "boundaries": d["b"],
                  "R": d["R"], "delta": d["delta"], "s": d["s"], "rho": d["rho"], "r": d["r"]}
    return {"violations": V, "counters": C, "fingerprint": fp, "sample": sample}


def run_json_option(case, d, rng, V, C, detail):
    """The model built from JSON with the option must equal the distribution constructed with what the option names
    (which in turn is anchored to the ODE oracle), and differ from the JSON without it when it should."""
    import torch

    opt = case["option"]
    C["options"] = [opt]
    surv = case["survival"]
    n = case["n"]
    T = lambda v: torch.tensor(v, dtype=torch.float64)

    def model_value(spec, id_="bdsk"):
        objs, dic = tt.load(spec)
        first = scalar(dic[id_](), "C09:json:%s:not-a-number" % opt, "model()")
        # the same model evaluated again after a change notification that changes no value: same density
        from torchtree import Parameter

        for pid, o in dic.items():
            if type(o) is Parameter and str(pid).startswith(("bdsk.", "bd.", "R", "delta", "s", "lambda", "mu", "psi", "rho", "origin")):
                o.tensor = o.tensor.clone()
                break
        again = scalar(dic[id_](), "C09:json:%s:not-a-number" % opt, "model()")
        C["re_evaluations"] = C.get("re_evaluations", 0) + 1
        if np.isfinite(first) and abs(again - first) > 1e-12 * max(1.0, abs(first)):
            V.append(tt.viol("C09:re-evaluation:%s" % opt, "the model built from JSON gives %.12g, and %.12g when evaluated again after a change notification that changed no value" % (first, again), **detail))
        return first

    def judge(got, expected, what, tag=""):
        if expected == float("-inf"):
            C["trees_of_density_zero_not_judged"] = C.get("trees_of_density_zero_not_judged", 0) + 1  # (a psi-sampled tip where psi = 0)
            return
        C["json_option_checks"] += 1
        if not np.isfinite(got) or abs(got - expected) > 1e-6 * max(1.0, abs(expected)):
            V.append(tt.viol("C09:json:%s%s" % (opt, tag), "%s: model from JSON gives %.12g, the behaviour the option names gives %.12g" % (what, got, expected), **detail))

    if opt == "survival":
        for sv in (True, False):
            judge(model_value(bdsk_json(d, sv, rng)), oracle(d, sv), "survival=%s" % sv)
        dflt = model_value(bdsk_json(d, True, rng, drop=("survival",)))
        judge(dflt, oracle(d, True), "survival absent (documented default: condition on survival)")
    elif opt == "removal_probability":
        if d["r"] is None:
            d = dict(d)
            d["r"] = [float(rng.uniform(0.05, 0.95))] * d["m"]
        judge(model_value(bdsk_json(d, surv, rng)), oracle(d, surv), "removal_probability given")
        d0 = dict(d)
        d0["r"] = None
        # without the key the model is the plain skyline (same R, delta, s)
        spec = bdsk_json(d, surv, rng, drop=("removal_probability",))
        judge(model_value(spec), oracle(d0, surv), "removal_probability absent")
    elif opt == "relative_times":
        tl = [d["origin"] - x for x in reversed(d["b"][1:])]
        rel = [x / d["origin"] for x in tl]
        spec = bdsk_json(d, surv, rng, extra={"times": gm.param("bdsk.times", rel, dtype="torch.float64"), "relative_times": True})
        judge(model_value(spec), oracle(d, surv), "relative_times=true with times as fractions of the origin")
        spec = bdsk_json(d, surv, rng, extra={"relative_times": False})
        judge(model_value(spec), oracle(d, surv), "relative_times=false with absolute times")
    elif opt == "times_list":
        judge(model_value(bdsk_json(d, surv, rng, times="list")), oracle(d, surv), "times given as a JSON list")
        # times absent: equidistant epochs between origin and present
        d2 = dict(d)
        d2["b"] = [d["origin"] * k / d["m"] for k in range(d["m"] + 1)]
        if d["rho_h"] is None and not any(abs(x - e) < 1e-9 for x in d2["b"][1:-1] for e in d["tip_heights"] + d["internal"]):
            judge(model_value(bdsk_json(d, surv, rng, drop=("times",))), oracle(d2, surv), "times absent (equidistant epochs)")
    elif opt == "origin_is_root_edge":
        rootedge = d["origin"] - d["root"].height
        tl = [d["origin"] - x for x in reversed(d["b"][1:])]
        spec = bdsk_json(d, surv, rng, extra={"origin": gm.param("bdsk.origin", [rootedge], dtype="torch.float64"), "origin_is_root_edge": True})
        judge(model_value(spec), oracle(d, surv), "origin_is_root_edge=true with origin = length of the root edge")
        judge(model_value(bdsk_json(d, surv, rng, extra={"origin_is_root_edge": False})), oracle(d, surv), "origin_is_root_edge=false")
        # the two options together: epoch times as fractions of the origin, the origin given through the root edge
        rel = [x / d["origin"] for x in tl]
        spec = bdsk_json(d, surv, rng, extra={"origin": gm.param("bdsk.origin", [rootedge], dtype="torch.float64"), "origin_is_root_edge": True,
                                              "times": gm.param("bdsk.times", rel, dtype="torch.float64"), "relative_times": True})
        judge(model_value(spec), oracle(d, surv), "origin_is_root_edge=true together with relative_times=true", tag="+relative_times")
    elif opt == "rho_absent":
        d0 = dict(d)
        d0["rho"] = [0.0] * d["m"]
        if all(x > 0 for x in d["s"]) and d["rho_h"] is None and any(x > 0 for x in d["tip_heights"]):
            judge(model_value(bdsk_json(d0, surv, rng, drop=("rho",))), oracle(d0, surv), "rho absent (no rho sampling)")
        else:
            C["json_option_checks"] += 0
    elif opt == "birth_death_model":
        # constant-rate model given directly by lambda, mu, psi, rho, origin
        d1 = dict(d)
        d1["b"] = [0.0, d["origin"]]
        d1["m"] = 1
        for k in ("R", "delta", "s"):
            d1[k] = d[k][:1]
        d1["r"] = None
        d1["rho"] = d["rho"][:1]
        d1["rho_h"] = None
        if any(0 < x for x in d["tip_heights"]) and d1["s"][0] == 0:
            d1["s"] = [0.3]
        lam, mu, psi = rates(d1)
        P = lambda name, v: gm.param("bd." + name, v, dtype="torch.float64")
        for sv in (True, False):
            j = {"id": "bd", "type": "BirthDeathModel", "tree_model": "tree", "lambda": P("lambda", lam), "mu": P("mu", mu), "psi": P("psi", psi),
                 "rho": P("rho", d1["rho"]), "origin": P("origin", [d["origin"]]), "survival": sv}
            judge(model_value(tree_case(d1, rng) + [j], "bd"), oracle(d1, sv), "BirthDeathModel survival=%s" % sv, ":" + case["sampling"] + (":rho-at-present" if d1["rho"][0] > 0 else ""))
