"""C17 - a checkpoint restores the whole run state; resuming continues the same run.

Restart tracer.  Run A goes through the real entry point (torchtree.torchtree.main) with a small checkpoint frequency;
a wrapper on save_parameters freezes, at each save, the complete state of the algorithm object (generic deep walk over
the optimiser / MCMC / operator / adaptor / integrator objects, type-sensitive), the torch RNG state, and copies the
file; per-iteration parameter states are recorded.  Run B restarts from a copy with `-c checkpoint`; just before its
run() the same freeze is taken and compared; the RNG is then set to run A's state at that save and the visited states
are compared position by position over the common prefix."""
from __future__ import annotations

import collections
import contextlib
import copy
import io
import json
import os
import shutil
import sys
import tempfile

import numpy as np

from .. import tt
from ..gen import models as gm

PROPERTY = "C17"
LEVEL = "exploration"
RULE = ("cases = algorithm configuration: Optimizer x {SGD+momentum, Adam, AdamW, Adagrad, RMSprop, LBFGS} x {no scheduler, LambdaLR, StepLR, ExponentialLR, MultiStepLR, CosineAnnealingLR} on an ELBO "
        "or a MAP objective; MCMC x {scaler, sliding window, Dirichlet, GMRF block update, HMC with no adaptor / AdaptiveStepSize / DualAveragingStepSize / "
        "MassMatrixAdaptor (plain, variance_window, swap_every) / combinations, diagonal or dense mass} x parameter dtype {float32, float64} x {tensor, nn.Parameter} "
        "x definition {tensor, full, zeros, full_like} x checkpoint frequency; every checkpoint of a 12-iteration run is restarted; non-trivial = restart compared "
        "state and at least one subsequent iteration; distinct by (configuration, checkpoint index)")
ASSUMPTIONS = [
    "the torch RNG state is not part of a checkpoint: the harness sets it to run A's state at the save before run B continues ('deterministic run')",
    "both drivers store the iteration counter before incrementing it: a resumed run repeats the iteration number it was saved at; the restored counter is identical and trajectories are compared by position (reported as an observation, not judged)",
    "the standalone HMC class saves parameters only and has no id/state_dict: it is outside 'MCMC with every operator and adaptor combination' and not exercised",
    "transient attributes (operator.saved_tensors) are not part of the run state",
]
BUDGET = {"quick": 85, "thorough": 900}
ROUNDS = {"thorough": 6}
FLOORS = {"restarts": {"quick": 120, "thorough": 1200}, "restarts_from_two_files": {"quick": 40, "thorough": 400}, "state_components_compared": {"quick": 5000, "thorough": 50000}, "trajectory_steps_compared": {"quick": 500, "thorough": 5000},
          "optimizers": 7, "operator_kinds": 5, "adaptor_kinds": 4, "plate_parameter_restarts": {"quick": 4, "thorough": 30}}

F64 = "torch.float64"
OPTIMS = ["SGD", "SGD-plain", "Adam", "AdamW", "Adagrad", "RMSprop", "LBFGS"]  # SGD-plain: no momentum, no per-parameter optimiser state
SCHED = ["none", "LambdaLR", "StepLR", "ExponentialLR", "MultiStepLR", "CosineAnnealingLR"]
MCMC_OPS = ["scaler-view", "sliding-cat", "scaler", "sliding", "dirichlet", "block", "hmc", "hmc-adaptive", "hmc-dual", "hmc-mass", "hmc-mass-window", "hmc-mass-swap", "hmc-dual+mass", "mixed"]


def cases(tier, seed):
    rng = np.random.default_rng([seed, 17])
    out = []
    reps = 1 if tier == "quick" else 8
    for rep in range(reps):
        for o in OPTIMS:
            for s in SCHED:
                if o == "LBFGS" and s != "none":
                    continue
                out.append({"algorithm": "optimizer", "optim": o, "scheduler": s, "objective": "elbo" if (len(out) % 2 == 0 and o != "LBFGS") else "map",
                            "dtype": str(rng.choice(["torch.float64", "torch.float32"])), "nn": bool(rng.random() < 0.5), "definition": str(rng.choice(["tensor", "full", "zeros", "full_like"])),
                            "frequency": int(rng.choice([1, 2, 3, 5])), "seed": int(rng.integers(2**31))})
        for im, m in enumerate(MCMC_OPS * (2 if tier == "quick" else 3)):
            # (the first pass over the operator kinds writes a checkpoint at every iteration - every state an adaptor goes through is restarted
            # from, whatever the random stream; the later passes draw the frequency)
            fr = int(rng.choice([1, 2, 3, 5]))
            out.append({"algorithm": "mcmc", "ops": m, "dense": bool(rng.random() < 0.4), "dtype": "torch.float64", "nn": False, "definition": "tensor",
                        "frequency": 1 if im < len(MCMC_OPS) else fr, "seed": int(rng.integers(2**31)), "adapt": True})
    for m in ("hmc", "hmc-dual"):
        out.append({"algorithm": "mcmc", "ops": m, "dense": False, "dtype": "torch.float64", "nn": False, "definition": "tensor", "frequency": 2, "seed": int(rng.integers(2**31)), "adapt": True,
                    "find_step_size": True})
    for i, c in enumerate(out):
        c["split"] = i % 3 == 1
    # the optimised / sampled parameters are those of a tree model that takes its starting values from the Newick string
    # (keep_branch_lengths: what torchtree-cli writes for --keep, --brlens_init tree, --heights_init tree)
    for o, kind in (("SGD", "unrooted"), ("Adam", "time")):
        out.append({"algorithm": "optimizer", "optim": o, "scheduler": "none", "objective": "map", "tree_keep": kind, "dtype": "torch.float64", "nn": False, "definition": "tensor",
                    "frequency": 2, "seed": int(rng.integers(2**31)), "split": False})
    # a variational distribution that creates its parameters itself (the weights of a normalising flow: `advi -q realnvp`)
    out.append({"algorithm": "optimizer", "optim": "Adam", "scheduler": "none", "objective": "realnvp", "dtype": "torch.float64", "nn": False, "definition": "tensor",
                "frequency": 3, "seed": int(rng.integers(2**31)), "split": False})
    for i, c in enumerate(out):
        if c["algorithm"] == "optimizer" and c["objective"] == "map" and i % 2 == 1 and c["definition"] != "full_like":
            c["plate"] = True
            c["many"] = (i // 2) % 2 == 0
        if c["algorithm"] == "mcmc" and c["ops"] in ("sliding", "mixed", "hmc-adaptive") and i % 2 == 0:
            c["no_adapt"] = True  # an operator declared with disable_adaptation: it still has counters (and, for HMC, adaptors) to restore
        if c["algorithm"] == "optimizer":
            c["ptype"] = ["Parameter", "torchtree.Parameter", "torchtree.core.parameter.Parameter"][i % 3]
        elif "dual" in c["ops"] and i % 2 == 0:
            c["dual_end"] = 4  # the adaptation window ends before most of the checkpoints are written
    return out


# ---------------------------------------------------------------- specifications
def P(i, v, dtype=F64, **kw):
    return gm.param(i, v, dtype=dtype, **kw)


def defined(i, n, case, rng):
    """a parameter of n elements defined the way the case asks for (dtype, nn, tensor/full/zeros/full_like)"""
    d = {"id": i, "type": case.get("ptype", "Parameter"), "dtype": case["dtype"]}  # the three spellings the loader registers
    if case["nn"]:
        d["nn"] = True
    k = case["definition"]
    if k == "tensor":
        d["tensor"] = rng.normal(0, 0.5, n).round(3).tolist()
    elif k == "full":
        d["full"] = [n]
        d["tensor"] = 0.25
    elif k == "zeros":
        d["zeros"] = [n]
    else:
        d["full_like"] = "data"
        d["tensor"] = 0.1
        d.pop("dtype")
    return d


def optimizer_spec(case, rng, ckpt):
    n = 3
    data = P("data", rng.normal(0.3, 1.0, n).round(3).tolist())
    if case["objective"] == "map" and case.get("plate"):
        # the optimised parameters are declared inside a plate (two clones x.0, x.1, each with its own prior)
        k_ = 12 if case.get("many") else 2  # (more than ten optimised tensors: the per-parameter optimiser state has keys '0' ... '11')
        spec = [data,
                {"id": "plate", "type": "Plate", "range": "0:%d" % k_,
                 "object": {"id": "prior.*", "type": "Distribution", "distribution": "torch.distributions.Normal", "x": defined("x.*", n, case, rng), "parameters": {"loc": 0.0, "scale": 2.0}}},
                {"id": "lik", "type": "Distribution", "distribution": "torch.distributions.Normal", "x": "data", "parameters": {"loc": "x.0", "scale": 0.7}},
                {"id": "lik1", "type": "Distribution", "distribution": "torch.distributions.Normal", "x": "data", "parameters": {"loc": "x.1", "scale": 1.1}}]
        # (every clone has a likelihood term of its own, so that no two of them have the same gradients and optimiser moments)
        spec += [{"id": "lik%d" % i, "type": "Distribution", "distribution": "torch.distributions.Normal", "x": "data", "parameters": {"loc": "x.%d" % i, "scale": 0.6 + 0.13 * i}} for i in range(2, k_)]
        spec += [{"id": "joint", "type": "JointDistributionModel", "distributions": ["prior.%d" % i for i in range(k_)] + ["lik", "lik1"] + ["lik%d" % i for i in range(2, k_)]}]
        loss, params = "joint", ["x.%d" % i for i in range(k_)]
    elif case["objective"] == "realnvp":
        spec = [{"id": "joint", "type": "JointDistributionModel", "distributions": [
                    {"id": "target", "type": "Distribution", "distribution": "torch.distributions.Normal", "x": P("x", [0.5, 0.5]),
                     "parameters": {"loc": P("loc", [1.0, -1.0]), "scale": P("scale", [0.5, 2.0])}}]},
                {"id": "var", "type": "RealNVP", "x": "x", "n_blocks": 2, "hidden_size": 2, "n_hidden": 1,
                 "base": {"id": "var.base", "type": "Distribution", "distribution": "torchtree.distributions.Normal", "x": {"id": "var.dummy", "type": "Parameter", "zeros": 2},
                          "parameters": {"loc": {"id": "var.base.loc", "type": "Parameter", "zeros": 2}, "scale": {"id": "var.base.scale", "type": "Parameter", "ones": 2}}}},
                {"id": "elbo", "type": "ELBO", "samples": 3, "joint": "joint", "variational": "var"}]
        loss, params = "elbo", ["var"]
    elif case["objective"] == "map" and case.get("tree_keep"):
        taxa = {"id": "taxa", "type": "Taxa", "taxa": [{"id": nm, "type": "Taxon", "attributes": {"date": 0.0}} for nm in "ABCD"]}
        if case["tree_keep"] == "unrooted":
            tree = {"id": "tree", "type": "UnRootedTreeModel", "newick": "((A:0.11,B:0.23):0.37,C:0.41,D:0.05);", "taxa": "taxa", "keep_branch_lengths": True,
                    "branch_lengths": P("x", [0.0] * 5)}
            # (a prior that pulls the lengths towards 0.3: the unconstrained optimiser stays inside the support)
            prior = {"id": "prior", "type": "Distribution", "distribution": "torch.distributions.Normal", "x": "x", "parameters": {"loc": 0.3, "scale": 0.5}}
        else:
            tree = {"id": "tree", "type": "TimeTreeModel", "newick": "((A:1.0,B:1.0):2.0,(C:1.5,D:1.5):1.5);", "taxa": "taxa", "keep_branch_lengths": True,
                    "internal_heights": P("x", [9.0] * 3)}
            prior = {"id": "prior", "type": "Distribution", "distribution": "torch.distributions.Normal", "x": "x", "parameters": {"loc": 2.0, "scale": 3.0}}
        spec = [taxa, tree, prior, {"id": "joint", "type": "JointDistributionModel", "distributions": ["prior"]}]
        loss, params = "joint", ["x"]
    elif case["objective"] == "map":
        x = defined("x", n, case, rng)
        spec = [data, x,
                {"id": "prior", "type": "Distribution", "distribution": "torch.distributions.Normal", "x": "x", "parameters": {"loc": 0.0, "scale": 2.0}},
                {"id": "lik", "type": "Distribution", "distribution": "torch.distributions.Normal", "x": "data", "parameters": {"loc": "x", "scale": 0.7}},
                {"id": "joint", "type": "JointDistributionModel", "distributions": ["prior", "lik"]}]
        loss, params = "joint", ["x"]
    else:
        spec = [data, P("z", [0.1] * n),
                {"id": "prior", "type": "Distribution", "distribution": "torch.distributions.Normal", "x": "z", "parameters": {"loc": 0.0, "scale": 2.0}},
                {"id": "lik", "type": "Distribution", "distribution": "torch.distributions.Normal", "x": "data", "parameters": {"loc": "z", "scale": 0.7}},
                {"id": "joint", "type": "JointDistributionModel", "distributions": ["prior", "lik"]},
                defined("q.m", n, case, rng),
                {"id": "q.s", "type": "TransformedParameter", "transform": "torch.distributions.ExpTransform", "x": defined("q.logs", n, case, rng)},
                {"id": "var", "type": "JointDistributionModel", "distributions": [
                    {"id": "q", "type": "Distribution", "distribution": "torch.distributions.Normal", "x": "z", "parameters": {"loc": "q.m", "scale": "q.s"}}]},
                {"id": "elbo", "type": "ELBO", "variational": "var", "joint": "joint", "samples": 3}]
        loss, params = "elbo", ["q.m", "q.logs"]
    o = case["optim"]
    opts = {"SGD": {"lr": 0.05, "momentum": 0.9}, "SGD-plain": {"lr": 0.05}, "Adam": {"lr": 0.05}, "AdamW": {"lr": 0.05, "weight_decay": 0.01}, "Adagrad": {"lr": 0.1}, "RMSprop": {"lr": 0.02, "momentum": 0.5},
            "LBFGS": {"lr": 0.5, "max_iter": 3}}[o]
    opt = {"id": "opt", "type": "Optimizer", "algorithm": "torch.optim." + o.split("-")[0], "options": opts, "maximize": True, "loss": loss, "parameters": params, "iterations": 12,
           "checkpoint": ckpt, "checkpoint_frequency": case["frequency"]}
    s = case["scheduler"]
    if s == "LambdaLR":
        opt["scheduler"] = {"id": "sch", "type": "Scheduler", "scheduler": "torch.optim.lr_scheduler.LambdaLR", "lr_lambda": "lambda epoch: 0.9 ** epoch"}
    elif s == "StepLR":
        opt["scheduler"] = {"id": "sch", "type": "Scheduler", "scheduler": "torch.optim.lr_scheduler.StepLR", "step_size": 2, "gamma": 0.5}
    elif s == "ExponentialLR":
        opt["scheduler"] = {"id": "sch", "type": "Scheduler", "scheduler": "torch.optim.lr_scheduler.ExponentialLR", "gamma": 0.8}
    elif s == "MultiStepLR":
        opt["scheduler"] = {"id": "sch", "type": "Scheduler", "scheduler": "torch.optim.lr_scheduler.MultiStepLR", "milestones": [2, 5, 9], "gamma": 0.5}
    elif s == "CosineAnnealingLR":
        opt["scheduler"] = {"id": "sch", "type": "Scheduler", "scheduler": "torch.optim.lr_scheduler.CosineAnnealingLR", "T_max": 7}
    return spec + [opt]


def mcmc_spec(case, rng, ckpt):
    from . import c15

    kind = case["ops"]
    c = {"adapt": True, "seed": case["seed"]}
    if kind == "block":
        spec, ops, logged, meta = c15.target_skygrid(c, rng)
        ops = ops[:2]
    else:
        spec, ops, logged = c15.target_toy(c, rng)
        by = {o["id"]: o for o in ops}
        hmc = by["op.hmc"]
        hmc["integrator"]["step_size"] = 0.3
        if case["dense"]:
            A = rng.normal(0, 1, (2, 2))
            hmc["mass_matrix"] = P("op.hmc.mass", (A @ A.T / 2 + 0.5 * np.eye(2)).tolist())
        ad = []
        integ = "op.hmc.integrator"
        if kind in ("hmc-adaptive",):
            ad.append({"id": "ad.step", "type": "AdaptiveStepSize", "integrator": integ, "target_acceptance_probability": 0.7, "use_acceptance_rate": bool(rng.random() < 0.5)})
        if kind in ("hmc-dual", "hmc-dual+mass", "mixed"):
            ad.append(dict({"id": "ad.dual", "type": "DualAveragingStepSize", "integrator": integ, "target_acceptance_probability": 0.7},
                           **({"end": int(case["dual_end"])} if case.get("dual_end") else {})))
        if kind in ("hmc-mass", "hmc-dual+mass", "mixed"):
            ad.append({"id": "ad.mass", "type": "MassMatrixAdaptor", "parameters": ["z"], "mass_matrix": "op.hmc.mass", "update_frequency": 2})
        if kind == "hmc-mass-window":
            ad.append({"id": "ad.mass", "type": "MassMatrixAdaptor", "parameters": ["z"], "mass_matrix": "op.hmc.mass", "update_frequency": 2, "variance_window": 1})
        if kind == "hmc-mass-swap":
            ad.append({"id": "ad.mass", "type": "MassMatrixAdaptor", "parameters": ["z"], "mass_matrix": "op.hmc.mass", "update_frequency": 2, "swap_every": 4})
        if ad:
            hmc["adaptors"] = ad
        if case.get("find_step_size"):
            hmc["find_reasonable_step_size"] = True  # documented HMCOperator option: search a step size while the operator is constructed
        if kind == "scaler-view":
            # an operator acting on a view of a parameter (one coordinate of a vector)
            spec.append({"id": "y.view", "type": "ViewParameter", "parameter": "y", "indices": "0:1"})
            by["op.scale.view"] = c15.op("op.scale.view", "ScalerOperator", ["y.view"], rng, True, scaler=0.6)
        if kind == "sliding-cat":
            # an operator acting on a concatenation of two parameters
            spec.append({"id": "x.big", "type": "CatParameter", "parameters": ["x", "big"], "dim": -1})
            by["op.slide.cat"] = c15.op("op.slide.cat", "SlidingWindowOperator", ["x.big"], rng, True, width=0.7)
        sel = {"scaler": ["op.scale"], "sliding": ["op.slide"], "dirichlet": ["op.dirichlet"], "mixed": list(by), "scaler-view": ["op.scale.view", "op.slide"], "sliding-cat": ["op.slide.cat", "op.scale"]}.get(kind, ["op.hmc"])
        ops = [by[i] for i in sel]
        if kind.startswith("hmc"):
            hmc["weight"] = 5.0
        if kind == "hmc-adaptive":
            hmc["integrator"]["step_size"] = 1.7  # bold enough for rejections before the first checkpoints
        if case.get("no_adapt"):
            for o_ in ops:
                if o_["id"] in ("op.slide", "op.hmc"):
                    o_["disable_adaptation"] = True
    mcmc = {"id": "mcmc", "type": "MCMC", "joint": "joint", "operators": ops, "iterations": 12, "checkpoint": ckpt, "checkpoint_frequency": case["frequency"], "every": 0, "loggers": []}
    return spec + [mcmc]


# ---------------------------------------------------------------- freezing the run state
SKIP_ATTR = {"saved_tensors", "loggers", "listeners", "_listeners"}


def freeze(x, depth=0):
    import torch
    from torchtree.core.model import Model
    from torchtree.core.abstractparameter import AbstractParameter

    if depth > 12:
        return ("deep",)
    if isinstance(x, torch.Tensor):
        return ("tensor", str(x.dtype), isinstance(x, torch.nn.Parameter), x.detach().cpu().tolist())
    if isinstance(x, AbstractParameter):
        t = x.tensor
        return ("parameter", x.id, str(t.dtype), isinstance(t, torch.nn.Parameter), t.detach().cpu().tolist())
    if isinstance(x, Model):
        return ("model", type(x).__name__)
    if isinstance(x, (bool, int, float, str)) or x is None:
        return (type(x).__name__, x if not isinstance(x, float) else repr(x))
    if isinstance(x, collections.deque):
        # a bounded window drops what an unbounded one keeps: the bound is part of the state
        return ("deque", x.maxlen, [freeze(v, depth + 1) for v in x])
    if isinstance(x, (list, tuple)):
        return ("list", [freeze(v, depth + 1) for v in x])
    if isinstance(x, dict):
        return ("dict", sorted(((type(k).__name__, str(k)), freeze(v, depth + 1)) for k, v in x.items()))
    mod = type(x).__module__ or ""
    if mod.startswith("torchtree.inference") or mod.startswith("torchtree.ops") or mod.startswith("torchtree.optim") or mod.startswith("vt."):
        return ("object", type(x).__name__ if not mod.startswith("vt.") else type(x).__mro__[1].__name__,
                sorted((k, freeze(v, depth + 1)) for k, v in vars(x).items() if k not in SKIP_ATTR and not callable(v)))
    if callable(x):
        return ("callable",)
    return ("other", type(x).__name__)


def freeze_algorithm(algo):
    import torch

    name = type(algo).__name__
    if name == "Optimizer":
        opt = algo.optimizer
        per_param = []
        for g in opt.param_groups:
            for p in g["params"]:
                per_param.append(freeze(dict(opt.state.get(p, {}))))
        groups = [{k: v for k, v in g.items() if k != "params"} for g in opt.param_groups]
        st = {"epoch": algo._epoch, "optimizer.state (what the next step reads)": ("list", per_param), "optimizer.param_groups": freeze(groups),
              "optimizer.state_dict": freeze(opt.state_dict()), "parameters": freeze(list(algo.parameters))}
        if algo.scheduler is not None:
            st["scheduler"] = freeze(algo.scheduler.state_dict())
        return ("dict", sorted(((type(k).__name__, k), v if isinstance(v, tuple) else freeze(v)) for k, v in st.items()))
    st = {"epoch": freeze(algo._epoch), "operators": freeze(list(algo._operators)), "parameters": freeze(list(algo.parameters))}
    return ("dict", sorted(((type(k).__name__, k), v) for k, v in st.items()))


def first_difference(a, b, path=""):
    """-> (generalised path, a, b) of the first difference between two frozen structures, or None"""
    if a[0] != b[0]:
        return path, a, b
    kind = a[0]
    if kind == "list":
        if len(a[1]) != len(b[1]):
            return path + ".length", len(a[1]), len(b[1])
        for x, y in zip(a[1], b[1]):
            d = first_difference(x, y, path + "[*]")
            if d:
                return d
        return None
    if kind == "dict":
        ka, kb = [k for k, _ in a[1]], [k for k, _ in b[1]]
        if ka != kb:
            return path + ".keys", ka, kb
        for (k, x), (_, y) in zip(a[1], b[1]):
            d = first_difference(x, y, path + "." + (k[1] if not k[1].isdigit() else "<%s key>" % k[0]))
            if d:
                return d
        return None
    if kind == "object":
        if a[1] != b[1]:
            return path + ".class", a[1], b[1]
        ka, kb = [k for k, _ in a[2]], [k for k, _ in b[2]]
        if ka != kb:
            return path + ".attributes", sorted(set(ka) ^ set(kb)), ""
        for (k, x), (_, y) in zip(a[2], b[2]):
            d = first_difference(x, y, path + "." + k)
            if d:
                return d
        return None
    if a != b:
        return path, a, b
    return None


def count_leaves(a):
    if a[0] == "list":
        return sum(count_leaves(x) for x in a[1])
    if a[0] == "dict":
        return sum(count_leaves(v) for _, v in a[1])
    if a[0] == "object":
        return sum(count_leaves(v) for _, v in a[2])
    return 1


# ---------------------------------------------------------------- running through the entry point
class Recorder:
    def __init__(self, tag="A"):
        self.tag = tag
        self.algo = None
        self.saves = []  # (iteration count at save, frozen state, rng state, copy of checkpoint file)
        self.states = []  # parameter values after each iteration
        self.before_run = None
        self.rng_to_set = None


def run_main(specfile, checkpoint, rec, workdir):
    """torchtree.torchtree.main() with patched argv; class-level wrappers route observations into `rec`"""
    import torch
    import torchtree.torchtree as entry
    import torchtree.inference.mcmc.mcmc as mcmc_mod
    import torchtree.optim.optimizer as optim_mod

    def params_now(algo):
        return [p.tensor.detach().clone() for p in algo.parameters]

    def wrap_run(cls):
        orig = cls.run

        def run(self):
            rec.algo = self
            rec.before_run = freeze_algorithm(self)
            if rec.rng_to_set is not None:
                torch.set_rng_state(rec.rng_to_set)
            if cls.__name__ == "MCMC":
                for o in self._operators:
                    t = o.tune

                    def tune(*a, _t=t, **k):
                        _t(*a, **k)
                        rec.states.append(params_now(self))

                    o.tune = tune
            else:
                st = self.optimizer.step

                def step(*a, **k):
                    out = st(*a, **k)
                    rec.states.append(params_now(self))
                    return out

                self.optimizer.step = step
            return orig(self)

        cls.run = run
        return orig

    def wrap_save(mod):
        orig = mod.save_parameters

        def save(file_name, full_state, *a, **k):
            out = orig(file_name, full_state, *a, **k)
            algo = rec.algo
            dst = os.path.join(workdir, "save-%s-%d.json" % (rec.tag, len(rec.saves)))
            shutil.copyfile(file_name, dst)
            rec.saves.append((len(rec.states) + (1 if type(algo).__name__ == "MCMC" and False else 0), freeze_algorithm(algo), torch.get_rng_state(), dst))
            return out

        mod.save_parameters = save
        return orig

    o1, o2 = wrap_run(mcmc_mod.MCMC), wrap_run(optim_mod.Optimizer)
    s1, s2 = wrap_save(mcmc_mod), wrap_save(optim_mod)
    argv = sys.argv
    cks = [] if not checkpoint else ([checkpoint] if isinstance(checkpoint, str) else list(checkpoint))
    sys.argv = ["torchtree", specfile] + [a for c in cks for a in ("-c", c)]
    dtype = torch.get_default_dtype()
    try:
        with contextlib.redirect_stdout(io.StringIO()), contextlib.redirect_stderr(io.StringIO()) as err:
            entry.main()
    finally:
        sys.argv = argv
        mcmc_mod.MCMC.run, optim_mod.Optimizer.run = o1, o2
        mcmc_mod.save_parameters, optim_mod.save_parameters = s1, s2
        torch.set_default_dtype(dtype)
    return err.getvalue()


def run_case(case):
    import torch

    V = []
    alg = case["algorithm"]
    kind = case["optim"] + "+" + case["scheduler"] if alg == "optimizer" else case["ops"]
    C = {"restarts": 0, "state_components_compared": 0, "trajectory_steps_compared": 0, "checkpoints_written": 0, "optimizers": [], "operator_kinds": [], "adaptor_kinds": [],
         "iteration_counter_repeats_observed": 0}
    if alg == "optimizer":
        C["optimizers"] = [case["optim"]]
        if case.get("plate"):
            C["plate_parameter_restarts"] = 1
    else:
        k = case["ops"]
        C["operator_kinds"] = [k.split("-")[0]] if k != "mixed" else ["scaler", "sliding", "dirichlet", "hmc"]
        C["adaptor_kinds"] = [a for a, on in (("adaptive", "adaptive" in k), ("dual", "dual" in k or k == "mixed"), ("mass", "mass" in k or k == "mixed"), ("none", k == "hmc")) if on]
    rng = np.random.default_rng(case["seed"])
    work = tempfile.mkdtemp(prefix="vt-c17-", dir="/dev/shm" if os.path.isdir("/dev/shm") else None)
    detail = {"case": case}
    try:
        ckpt = os.path.join(work, "checkpoint.json")
        spec = optimizer_spec(case, rng, ckpt) if alg == "optimizer" else mcmc_spec(case, rng, ckpt)
        specfile = os.path.join(work, "spec.json")
        with open(specfile, "w") as fp:
            json.dump(spec, fp)
        torch.manual_seed(case["seed"] % (2**31))
        A = Recorder()
        err = run_main(specfile, None, A, work)
        if A.algo is None:
            raise RuntimeError("run A did not start: " + err[-300:])
        C["checkpoints_written"] += len(A.saves)
        for idx, (n_done, frozen, rng_state, ckfile) in enumerate(A.saves):
            for f in (ckpt, ckpt + ".old", ckpt + ".new"):
                if os.path.exists(f):
                    os.remove(f)
            B = Recorder("B%d" % idx)
            B.rng_to_set = rng_state
            given = ckfile
            if case.get("split"):
                # the documented `-c` may be repeated: the same checkpoint handed over as two files, algorithm state first, parameters second
                with open(ckfile) as fp:
                    entries = json.load(fp)
                algo_part = [e for e in entries if e.get("type") not in ("torchtree.Parameter", "Parameter")]
                par_part = [e for e in entries if e.get("type") in ("torchtree.Parameter", "Parameter")]
                f1, f2 = ckfile + ".algorithm.json", ckfile + ".parameters.json"
                with open(f1, "w") as fp:
                    json.dump(algo_part, fp)
                with open(f2, "w") as fp:
                    json.dump(par_part, fp)
                given = [f1, f2]
                C["restarts_from_two_files"] = C.get("restarts_from_two_files", 0) + 1
            try:
                err = run_main(specfile, given, B, work)
            except Exception as e:
                from ..worker import _blame

                w = _blame(e)
                if w is None:
                    raise
                V.append(tt.viol("C17:restart-raises:%s:%s:%s" % (alg, type(e).__name__, w), "restarting %s (%s) from its checkpoint %d raises %s: %s" % (alg, kind, idx, type(e).__name__, str(e)[:160]), **detail))
                break
            if B.before_run is None:
                V.append(tt.viol("C17:restart-does-not-run:%s" % alg, "restart from checkpoint %d did not reach run(): %s" % (idx, err[-200:]), **detail))
                break
            C["restarts"] += 1
            C["state_components_compared"] += count_leaves(frozen)
            d = first_difference(frozen, B.before_run)
            if d:
                path, a, b = d
                sig = "C17:state:%s:%s" % (alg, path)
                if case.get("find_step_size") and "parameters" in path:
                    # mechanism: find_reasonable_step_size runs trial trajectories on the parameters while HMCOperator is being
                    # constructed, after the checkpoint's values have been put into the specification, and never puts them back
                    sig = "C17:state:hmc-find_reasonable_step_size:parameters-moved-while-the-operator-is-constructed"
                V.append(tt.viol(sig, "%s (%s), checkpoint %d: %s is %s when the checkpoint is written and %s after restarting from it"
                                 % (alg, kind, idx, path, str(a)[:120], str(b)[:120]), **detail))
                break
            C["iteration_counter_repeats_observed"] += 1
            # trajectories: B's j-th visited state against A's (n_done + j)-th
            tail = A.states[n_done:]
            m = min(len(tail), len(B.states))
            for j in range(m):
                C["trajectory_steps_compared"] += 1
                if any(not torch.equal(x, y) or x.dtype != y.dtype for x, y in zip(tail[j], B.states[j])):
                    V.append(tt.viol("C17:trajectory:%s:%s" % (alg, kind if alg == "mcmc" else case["optim"]), "%s (%s): state %d after resuming from checkpoint %d differs from the uninterrupted run (%s vs %s)"
                                     % (alg, kind, j + 1, idx, [t.tolist() for t in B.states[j]][:2], [t.tolist() for t in tail[j]][:2]), **detail))
                    break
            if V:
                break
    finally:
        shutil.rmtree(work, ignore_errors=True)
    fps = ["%s|%s|%s|%s|%s|%d|%d" % (alg, kind, case["dtype"], case["nn"], case["definition"], case["seed"], i) for i in range(C["restarts"])]
    return {"violations": V, "counters": C, "fingerprint": None, "fingerprints": fps, "sample": {"configuration": case, "checkpoints": C["checkpoints_written"]}}
