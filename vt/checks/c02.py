"""C02 - the likelihood is invariant to how the same tree and data are written down.

Metamorphic monitor: for each base case an orbit of equivalent JSON specifications is written by the
independent tree/alignment writer (vt.ref) and evaluated by the real code; all members must agree.  The
C01 reference is evaluated on the base member so that 'all members wrong in the same way' is excluded."""
from __future__ import annotations

import copy
import hashlib

import numpy as np

from .. import tt
from ..gen import models as gm
from ..gen import phylo
from ..ref import tree as rt
from . import c01

PROPERTY = "C02"
LEVEL = "exploration"
RULE = ("base case = random tree (4..12 taxa) x random model/data as in C01; orbit = permuted taxa list, permuted sequence "
        "list, swapped children, permuted columns, doubled alignment (weights), tip states <-> tip partials without "
        "ambiguities, every re-rooting of an unrooted tree under a reversible model (root branch split at a random "
        "fraction), basal trifurcation; non-trivial = base alignment has a column with >= 2 distinct states; distinct by hash of the base case")
ASSUMPTIONS = [
    "non-reversible models are excluded from re-rooting and from swapping the two root children of an UnRootedTreeModel (that swap moves the collapsed root from one child to the other, i.e. it is a re-rooting)",
    "per-branch clock rates and directly supplied branch lengths are re-indexed for each member through the documented index convention (leaf = position in the taxa list, internal nodes in post-order)",
]
BUDGET = {"quick": 75, "thorough": 900}
ROUNDS = {"thorough": 8}
FLOORS = {"pairs_compared": {"quick": 1500, "thorough": 15000}, "rerootings": {"quick": 200, "thorough": 2000},
          "relations": 19}


def cases(tier, seed):
    rng = np.random.default_rng([seed, 2])
    n = {"quick": 900, "thorough": 6000}[tier]
    out = []
    for i in range(n):
        nt = int(rng.integers(4, 13))
        t = rt.random_topology(nt, rng, str(rng.choice(["random", "random", "caterpillar", "balanced"])))
        kinds = ["JC69", "HKY", "GTR", "GenSym", "GenNonSym", "GeneralJC69", "LG", "WAG"]
        k = kinds[i % len(kinds)]
        tree_kind = "unrooted" if i % 5 < 3 else "time"
        c = phylo.random_case(rng, t, k, None, tree_kind, ncols=int(rng.integers(2, 9)))
        c.pop("indices", None)  # a column subset is tied to the column order: the rewritings below would not denote the same data
        if i % 40 == 0:
            t3 = rt.random_topology(3, rng)
            c = phylo.random_case(rng, t3, "MG94", "constant", tree_kind, ncols=2)
        if tree_kind == "unrooted":
            c["bl_mode"] = "keep"  # re-rooting needs explicit branch lengths in the Newick
            root = rt.parse_newick(c["newick"])
            if any(nd.length is None for nd in rt.postorder(root) if nd.parent is not None):
                rt.set_lengths(root, rng, 1e-3, 1.0)
                c["newick"] = rt.to_newick(root)
        if tree_kind == "time" and i % 4 == 1:
            # branch lengths as a file would hold them (two decimals): no longer exactly consistent with the tip dates, so the children
            # of a node imply different heights for it; whatever the library makes of that, it is the same tree however it is written
            root = rt.parse_newick(c["newick"])
            for nd in rt.postorder(root):
                if nd.parent is not None and nd.length is not None:
                    nd.length = max(0.01, round(nd.length * float(rng.uniform(0.9, 1.1)), 2))
            c["newick"] = rt.to_newick(root)
            c["rounded_newick"] = True
        c["orbit_seed"] = int(rng.integers(2**31))
        out.append(c)
    return out


def _clade(nd):
    return frozenset(x.name for x in rt.postorder(nd) if x.is_leaf())


def _reindex_clock(base, variant):
    """Per-branch clock rates follow the branch (identified by its clade), whatever index it gets."""
    c = base.get("clock")
    if not c or c["kind"] != "simple":
        return
    r0 = phylo.ref_tree(base)
    by_clade = {_clade(nd): c["rates"][nd.idx] for nd in rt.postorder(r0) if nd.parent is not None}
    r1 = phylo.ref_tree(variant)
    rates = [None] * len(c["rates"])
    for nd in rt.postorder(r1):
        if nd.parent is not None:
            rates[nd.idx] = by_clade[_clade(nd)]
    variant["clock"] = {"kind": "simple", "rates": rates}


def _newick_swapped(case, rng, allow_root_swap):
    root = rt.parse_newick(case["newick"])
    for nd in rt.postorder(root):
        if not nd.is_leaf() and rng.random() < 0.5:
            if nd.parent is None and not allow_root_swap:
                continue
            nd.children = nd.children[::-1]
    return rt.to_newick(root)


def _size(case):
    return 3 if case["datatype"]["kind"] == "codon" else case["datatype"].get("width", 1)


def _columns(case):
    s = _size(case)
    names = list(case["seqs"])
    L = len(case["seqs"][names[0]]) // s
    return names, [[case["seqs"][nm][i * s:(i + 1) * s] for nm in names] for i in range(L)]


def _from_columns(names, cols):
    return {nm: "".join(col[i] for col in cols) for i, nm in enumerate(names)}


def orbit(case):
    """-> list of (relation name, variant case, expected multiple of the base log-likelihood)."""
    rng = np.random.default_rng(case["orbit_seed"])
    rev = gm.reversible(case["subst"])
    unrooted = case["tree"] == "unrooted"
    out = []
    n = len(case["names"])
    # 1 permuted taxa list
    v = copy.deepcopy(case)
    v["names"] = [case["names"][i] for i in rng.permutation(n)]
    _reindex_clock(case, v)
    out.append(("taxa-order", v, 1.0))
    # 2 permuted sequence list
    v = copy.deepcopy(case)
    v["seq_order"] = [case["names"][i] for i in rng.permutation(n)]
    out.append(("sequence-order", v, 1.0))
    # 3 children swapped
    v = copy.deepcopy(case)
    v["newick"] = _newick_swapped(case, rng, allow_root_swap=(rev or not unrooted))
    _reindex_clock(case, v)
    out.append(("children-order", v, 1.0))
    # 4 columns permuted
    names, cols = _columns(case)
    v = copy.deepcopy(case)
    v["seqs"] = _from_columns(names, [cols[i] for i in rng.permutation(len(cols))])
    out.append(("column-order", v, 1.0))
    # 5 doubled alignment: identical columns merge into patterns of weight 2 -> twice the log-likelihood
    v = copy.deepcopy(case)
    dbl = [c for c in cols for _ in range(2)] if rng.random() < 0.5 else cols + cols
    v["seqs"] = _from_columns(names, dbl)
    out.append(("merged-columns", v, 2.0))
    # 6 tip states <-> tip partials (ambiguous symbols treated as missing in both)
    if not case["use_ambiguities"]:
        v = copy.deepcopy(case)
        v["use_tip_states"] = not case["use_tip_states"]
        out.append(("tip-representation", v, 1.0))
    # 6b the alignment holds a Taxa object of its own with the taxa in another order: data still follow the names
    v = copy.deepcopy(case)
    v["aln_taxa_order"] = [case["names"][i] for i in rng.permutation(n)]
    out.append(("alignment-taxa-object", v, 1.0))
    # 6c the alignment read from a FASTA file (sequences wrapped over several lines, blank lines between records) instead of inline
    v = copy.deepcopy(case)
    v["aln_file"] = {"wrap": int(rng.choice([0, 1, 3, 7, 60])), "blank": bool(rng.random() < 0.5)}
    out.append(("alignment-file", v, 1.0))
    # 6e the site pattern restricted to "all columns" written as several pieces (a rotation, odd and even columns): the same data
    ncols_ = len(next(iter(case["seqs"].values())))
    if case["datatype"]["kind"] != "codon" and case["datatype"].get("width", 1) == 1 and ncols_ >= 2:
        v = copy.deepcopy(case)
        k_ = int(rng.integers(1, ncols_))
        # (also pieces read backwards - a negative step with an open stop - and bounds counted from the end)
        forms = ["%d:,:%d" % (k_, k_), "::2,1::2", "1::2,::2", "%d::-1,%d:" % (k_ - 1, k_), "%d:,%d::-1" % (k_, k_ - 1), "::-1", "-%d:,:-%d" % (ncols_ - k_, ncols_ - k_)]
        v["indices"] = forms[int(rng.integers(len(forms)))]
        out.append(("indices-in-pieces", v, 1.0))
    # 6f an unrooted tree whose Newick carries a length on the root node itself (as many programs write it): there is no such branch
    if unrooted and case.get("bl_mode", "keep") == "keep":
        v = copy.deepcopy(case)
        v["newick"] = case["newick"].rstrip().rstrip(";") + ":%s;" % ["0.0", "0.25", "1.5"][int(rng.integers(3))]
        out.append(("root-length", v, 1.0))
    # 6d discrete trait: one symbol per taxon, given as a one-column alignment and as a taxon attribute (AttributePattern), tip partials and tip states
    if case["datatype"]["kind"] == "general":
        va = copy.deepcopy(case)
        va["seqs"] = {nm: sq[:case["datatype"].get("width", 1)] for nm, sq in case["seqs"].items()}
        out.append(("one-column-alignment", va, None))
        vb = phylo.as_attribute_case(case)
        out.append(("trait-attribute", vb, "one-column-alignment"))
        if not case["use_ambiguities"]:
            vc = phylo.as_attribute_case(case)
            vc["use_tip_states"] = not case["use_tip_states"]
            out.append(("trait-attribute-tip-representation", vc, "one-column-alignment"))
    # 7 all of the above at once
    v = copy.deepcopy(case)
    v["names"] = [case["names"][i] for i in rng.permutation(n)]
    v["seq_order"] = [case["names"][i] for i in rng.permutation(n)]
    v["newick"] = _newick_swapped(case, rng, allow_root_swap=(rev or not unrooted))
    v["seqs"] = _from_columns(names, [cols[i] for i in rng.permutation(len(cols))])
    _reindex_clock(case, v)
    out.append(("combined", v, 1.0))
    # 8 re-rooting on every branch (reversible models, unrooted tree) + basal trifurcation
    if unrooted and rev and case.get("bl_mode", "keep") == "keep":
        root = rt.parse_newick(case["newick"])
        for r, x, y, l in rt.reroot_all(root):
            f = float(rng.uniform(0.02, 0.98))
            x.length = l * f
            y.length = l * (1 - f)
            if rng.random() < 0.5:
                r.children = r.children[::-1]
            v = copy.deepcopy(case)
            v["newick"] = rt.to_newick(r)
            out.append(("reroot", v, 1.0))
        a, b = root.children
        big, other = (a, b) if not a.is_leaf() else (b, a)
        if not big.is_leaf():
            c1, c2 = big.children
            other.length = big.length + other.length
            tri = "(%s,%s,%s);" % (rt.to_newick(c1)[:-1], rt.to_newick(c2)[:-1], rt.to_newick(other)[:-1])
            v = copy.deepcopy(case)
            v["newick"] = tri
            out.append(("trifurcation", v, 1.0))
    # 9 a multifurcation inside the tree is the same tree as its resolution by zero-length branches
    if unrooted and case.get("bl_mode", "keep") == "keep":
        root = rt.parse_newick(case["newick"])
        cand = [nd for nd in rt.postorder(root) if nd.parent is not None and nd.parent.parent is not None and not nd.is_leaf()]
        if cand:
            y = cand[int(rng.integers(len(cand)))]
            y.length = 0.0
            va = copy.deepcopy(case)
            va["newick"] = rt.to_newick(root)
            x = y.parent
            i = x.children.index(y)
            x.children[i:i + 1] = y.children
            for ch in y.children:
                ch.parent = x
            vb = copy.deepcopy(case)
            vb["newick"] = rt.to_newick(root)
            out.append(("polytomy-resolved", va, None))
            out.append(("polytomy", vb, "polytomy-resolved"))
    return out


def run_case(case):
    V = []
    C = {"pairs_compared": 0, "rerootings": 0, "relations": [], "anchored_to_reference": 0}
    like, dic, val = c01.evaluate(case)
    base = float(tt.as_np(val, "C02:not-a-tensor").reshape(-1)[0])
    sk = case["subst"]["kind"]
    emp = None
    if sk in ("LG", "WAG"):
        sm = dic["sm"]
        emp = (sm._rates.detach().numpy().astype(float), sm.frequencies.detach().numpy().astype(float))
    n = len(case["names"])
    S = gm.n_states(case["subst"])
    if case.get("rounded_newick"):
        ref = float("nan")  # node heights of an inconsistent Newick are the library's choice: the members are compared with each other only
        C["rounded_newicks"] = 1
    else:
        ref, _, method = phylo.ref_loglik(case, "brute" if S ** (n - 1) <= 5000 else "pruning", emp)
        C["anchored_to_reference"] += 1
    known_p0 = False
    if np.isfinite(ref) and abs(base - ref) > 1e-9 * max(1.0, abs(ref)):
        V.append(tt.viol("C02:base-differs-from-reference", "base member %.15g differs from the exact marginalisation %.15g (see C01)" % (base, ref), case=case))
    held = None
    for name, v, mult in orbit(case):
        if name not in C["relations"]:
            C["relations"].append(name)
        try:
            _, _, val2 = c01.evaluate(v)
        except Exception as e:
            if tt_blame_subject(e):
                V.append(tt.viol("C02:%s:raises:%s" % (name, type(e).__name__), "equivalent specification (%s) raises %s: %s" % (name, type(e).__name__, str(e)[:200]), case=case, variant=v))
                if mult is None:
                    held = None
                continue
            raise
        x = float(tt.as_np(val2, "C02:not-a-tensor").reshape(-1)[0])
        if mult is None:
            held = x  # a member of a pair that is compared with its partner, not with the base
            continue
        C["pairs_compared"] += 1
        if name == "reroot":
            C["rerootings"] += 1
        if isinstance(mult, str) and held is None:
            continue  # (its partner raised: reported above)
        exp = held if isinstance(mult, str) else mult * base
        mult = 1.0 if isinstance(mult, str) else mult
        if not np.isfinite(x) or abs(x - exp) > 1e-10 * max(1.0, abs(exp)):
            V.append(tt.viol("C02:" + name, "%s: log-likelihood %.15g, expected %.15g (= %g x base) [subst %s, tree %s, tips %s]"
                             % (name, x, exp, mult, sk, case["tree"], "states" if case["use_tip_states"] else "partials"), case=case, variant=v))
    # partitions: site patterns over complementary column subsets of the *same* alignment object, sharing tree and models,
    # add up to the likelihood of the whole alignment
    ncols = len(next(iter(case["seqs"].values())))
    if case["datatype"]["kind"] != "codon" and case["datatype"].get("width", 1) == 1 and ncols >= 2:
        spec = phylo.likelihood_json(case)
        parts = [("::2", "1::2"), ("::3", "1::3", "2::3"), (":1", "1:")][int(ncols) % 3]
        for k, ind in enumerate(parts):
            lk = {"id": "like.%d" % k, "type": "TreeLikelihoodModel", "tree_model": "tree", "site_model": "site", "substitution_model": "sm",
                  "site_pattern": {"id": "sp.%d" % k, "type": "SitePattern", "alignment": "aln", "indices": ind}}
            for key in ("use_ambiguities", "use_tip_states"):
                if case.get(key):
                    lk[key] = True
            if "branch_model" in spec[1]:
                lk["branch_model"] = "clock"
            spec.append(lk)
        try:
            _, dicp = tt.load(spec)
            whole = float(tt.as_np(dicp["like"](), "C02:not-a-tensor").reshape(-1)[0])
            pieces = [float(tt.as_np(dicp["like.%d" % k](), "C02:not-a-tensor").reshape(-1)[0]) for k in range(len(parts))]
            C["pairs_compared"] += 1
            if "partitions" not in C["relations"]:
                C["relations"].append("partitions")
            if not np.isfinite(sum(pieces)) or abs(sum(pieces) - whole) > 1e-10 * max(1.0, abs(whole)):
                V.append(tt.viol("C02:partitions", "site patterns %s of one alignment give %s, together %.15g; the whole alignment gives %.15g" % (list(parts), pieces, sum(pieces), whole), case=case, parts=list(parts)))
        except Exception as e:
            if tt_blame_subject(e):
                V.append(tt.viol("C02:partitions:raises:%s" % type(e).__name__, "partitioned specification raises %s: %s" % (type(e).__name__, str(e)[:200]), case=case))
            else:
                raise
    fp = hashlib.md5(repr(case).encode()).hexdigest()[:16] if c01._nontrivial(case) else None
    sample = None
    if sk not in ("LG", "WAG", "MG94"):
        sample = {"base": {k: case[k] for k in ("newick", "names", "seq_order", "tree", "seqs")}, "relations": C["relations"], "base_value": base}
    return {"violations": V, "counters": C, "fingerprint": fp, "sample": sample}


def tt_blame_subject(e):
    from ..worker import _blame

    return _blame(e) is not None
