"""C03 - likelihood accuracy does not degrade with tree size (no silent underflow).

Adaptive stress: the extended-range (log-space) reference is used to *locate* tree sizes at which the smallest
per-site likelihood sits at a prescribed magnitude (1e-250 ... the denormal band [5e-324, 2.3e-308] ... 1e-1000);
the real model is evaluated exactly there, and through histories that cross the band (evaluate, stretch the
branch lengths, evaluate, shrink back, evaluate), with forced rescaling on representable cases and with a batch
in which only one sample underflows.  The sticky `rescale` flag is observed at every step."""
from __future__ import annotations

import math

import numpy as np

from .. import tt
from ..gen import models as gm
from ..gen import phylo
from ..ref import tree as rt

PROPERTY = "C03"
LEVEL = "exploration"
RULE = ("cases = tree shape {caterpillar, balanced, random} x model {JC69, HKY, GTR+Weibull4, HKY with tip states} x branch-length "
        "scale x target magnitude of the smallest site likelihood (log10: -250, -290, 12 points inside the denormal band, -330, "
        "-400, -1000); the tree size is searched with the reference so that the target is hit; non-trivial = located size "
        "reaches the target within 3 decades; distinct by (shape, model, scale, located size)")
ASSUMPTIONS = [
    "reference: float64 log-sum-exp pruning (vt.ref.like), whose per-site values never leave the normal range",
    "branch lengths are supplied directly through the branch-length parameter (documented index convention)",
]
BUDGET = {"quick": 80, "thorough": 900}
ROUNDS = {"thorough": 3}
FLOORS = {"evaluations_compared": {"quick": 150, "thorough": 1200}, "in_denormal_band": {"quick": 20, "thorough": 150},
          "beyond_underflow": {"quick": 10, "thorough": 60}, "history_steps": {"quick": 60, "thorough": 400}, "nearly_constant_columns": {"quick": 15, "thorough": 100}, "batched_substitution_parameters": {"quick": 3, "thorough": 30}}

LN10 = math.log(10.0)
BAND = (math.log10(5e-324), math.log10(2.2250738585072014e-308))


def cases(tier, seed):
    rng = np.random.default_rng([seed, 3])
    band_pts = np.linspace(BAND[0] + 0.3, BAND[1] - 0.3, 12).tolist()
    targets = [-250.0, -290.0] + band_pts + [-330.0, -400.0]
    out = []
    shapes = ["caterpillar", "balanced", "random"]
    models = ["JC69", "HKY", "GTR+W4", "HKY-states", "HKY+I"]  # +I: rate categories with unequal probabilities
    combos = [(s, m) for s in shapes for m in models]
    reps = 1 if tier == "quick" else 6
    for rep in range(reps):
        for ci, (shape, model) in enumerate(combos):
            scales = [0.1, 0.5, 1.0, 3.0]
            tg = targets if tier == "thorough" else [targets[i] for i in sorted(rng.choice(len(targets), size=5, replace=False).tolist())]
            if tier == "quick":
                # always keep two band points and one beyond-underflow point per combination
                tg = sorted(set(tg + [band_pts[(ci * 5) % 12], band_pts[(ci * 5 + 6) % 12], -330.0]))
            for t in tg:
                out.append({"shape": shape, "model": model, "scale": float(scales[int(rng.integers(4))]), "target": float(t),
                            "seed": int(rng.integers(2**31)), "nsites": int(rng.integers(2, 5)),
                            "history": bool(rng.random() < 0.5), "batch": bool(rng.random() < 0.3), "conserved": bool(rng.random() < 0.4), "dup": bool(rng.random() < 0.5)})
                out[-1]["unknowns"] = len(out) % 3 == 0  # a few gaps / N / ? among the tips (missing data)
    # nearly constant columns (one taxon differs) under models with a rate-0 category: inside the large constant clade the variable
    # categories fall hundreds of orders of magnitude below the invariant one, which then dies where the odd taxon joins
    k = 0
    for shape in shapes:
        for model in ("JC69+I", "HKY+I", "GTR+W4", "HKY+I0"):
            for t in ([-330.0, -600.0] if tier == "quick" else [-310.0, -330.0, -400.0, -600.0, -1000.0]):
                for odd in (["last"] if tier == "quick" else ["first", "middle", "last"]):
                    k += 1
                    out.append({"shape": shape, "model": model, "scale": float([0.5, 1.0][k % 2]), "target": t, "seed": int(rng.integers(2**31)), "nsites": 2,
                                "history": bool(k % 3 == 0), "batch": bool(k % 5 == 0), "conserved": False, "dup": False, "odd": odd})
    # far beyond underflow (large trees): few cases
    for i in range(2 if tier == "quick" else 12):
        out.append({"shape": shapes[i % 3], "model": models[i % 5], "scale": 1.0, "target": -1000.0, "seed": int(rng.integers(2**31)),
                    "nsites": 2, "history": bool(i % 2), "batch": False, "conserved": bool(i % 2), "dup": bool(i % 3 == 0)})
    return out


def make(case, N):
    """Deterministic likelihood case of size N for this stress configuration."""
    rng = np.random.default_rng([case["seed"], N if case["shape"] != "caterpillar" else 0])
    if case["shape"] == "caterpillar":
        t = 0
        for x in range(1, N):
            t = (t, x)
    else:
        t = rt.random_topology(N, rng, case["shape"])
    names = ["t%d" % i for i in range(N)]
    root = rt.build(t, {i: names[i] for i in range(N)})
    m = case["model"]
    prng = np.random.default_rng(case["seed"])
    if m == "JC69":
        subst, site = {"kind": "JC69"}, {"kind": "constant"}
    elif m == "JC69+I":
        subst, site = {"kind": "JC69"}, {"kind": "invariant", "pinv": 0.2}
    elif m == "HKY+I0":
        subst, site = {"kind": "HKY", "kappa": 3.0, "pi": [0.1, 0.2, 0.3, 0.4]}, {"kind": "invariant", "pinv": 0.0}  # an invariant category of probability exactly 0
    elif m == "HKY+I":
        subst, site = {"kind": "HKY", "kappa": 3.0, "pi": [0.1, 0.2, 0.3, 0.4]}, {"kind": "invariant", "pinv": 0.3}
    elif m.startswith("HKY"):
        subst, site = {"kind": "HKY", "kappa": 3.0, "pi": [0.1, 0.2, 0.3, 0.4]}, {"kind": "constant"}
    else:
        subst = {"kind": "GTR", "rates": [0.5, 2.0, 0.7, 1.3, 3.0, 1.0], "pi": [0.15, 0.35, 0.3, 0.2]}
        site = {"kind": "weibull", "K": 4, "shape": 0.7}
    lrng = np.random.default_rng([case["seed"], 7])
    bl_all = (lrng.choice([0.5, 1.0, 2.0], size=4 * 4096) * case["scale"])
    bl = bl_all[: 2 * N - 3].tolist()
    drng = np.random.default_rng([case["seed"], 11])
    S = case["nsites"]
    maj = drng.integers(0, 4, size=S)
    dev = drng.random((4096 * 2, S)) < 0.6
    alt = drng.integers(0, 4, size=(4096 * 2, S))
    if case.get("odd"):
        dev[:, :] = False
        dev[{"first": 0, "middle": N // 2, "last": N - 1}[case["odd"]], 0] = True  # column 0: one taxon differs; the other columns are constant
        alt[:, 0] = (maj[0] + 1) % 4
    if case.get("conserved"):
        dev[:, 0] = False  # one fully conserved column next to the variable ones: site likelihoods hundreds of orders of magnitude apart
    seqs = {}
    unk = drng.random((4096 * 2, S)) < (0.05 if case.get("unknowns") else 0.0)
    for i in range(N):
        seqs[names[i]] = "".join(("-N?"[(i + s) % 3] if unk[i, s] else "ACGT"[alt[i, s] if dev[i, s] else maj[s]]) for s in range(S))
        if case.get("dup"):
            seqs[names[i]] += seqs[names[i]][-1] * 2  # the last column three times: a site pattern of weight 3
    return {"tree": "unrooted", "bl_mode": "param", "branch_lengths": bl, "newick": rt.to_newick(root, lengths=False),
            "names": names, "seq_order": names, "subst": subst, "site": site, "datatype": {"kind": "nucleotide"},
            "seqs": seqs, "use_ambiguities": False, "use_tip_states": m.endswith("states")}


def ref_eval(c):
    ref, lsl, _ = phylo.ref_loglik(c, "pruning")
    return ref, float(lsl.min()) / LN10


def locate(case):
    """Find N such that the smallest per-site log10-likelihood is just below the target."""
    tgt = case["target"]
    lo, hi = 8, None
    cache = {}

    def f(N):
        if N not in cache:
            cache[N] = ref_eval(make(case, N))[1]
        return cache[N]

    N = 64
    while f(N) > tgt and N < 6000:
        lo = N
        N *= 2
    hi = N
    # bisection on a roughly monotone function (exactly monotone for the caterpillar, noisy otherwise)
    for _ in range(12):
        if hi - lo <= 1:
            break
        mid = (lo + hi) // 2
        if f(mid) > tgt:
            lo = mid
        else:
            hi = mid
    return hi, f(hi), len(cache)


def _lib(like, what):
    v = tt.as_np(like(), "C03:not-a-tensor", what)
    return v


def run_case(case):
    import sys
    import torch

    sys.setrecursionlimit(50000)
    V = []
    C = {"evaluations_compared": 0, "in_denormal_band": 0, "beyond_underflow": 0, "representable": 0, "history_steps": 0,
         "batched": 0, "forced_rescale": 0, "nearly_constant_columns": int(bool(case.get("odd"))), "ref_evaluations": 0, "rescale_switches": 0}
    N, got, nref = locate(case)
    C["ref_evaluations"] += nref
    c = make(case, N)
    ref, minlog = ref_eval(c)
    objs, dic = tt.load(phylo.likelihood_json(c))
    like = dic["like"]
    blp = dic["tree.blens"]
    tag = "%s:%s" % (case["model"], case["shape"])

    def compare(value, ref_, where, minlog_):
        x = float(np.asarray(value).reshape(-1)[0])
        C["evaluations_compared"] += 1
        if BAND[0] <= minlog_ <= BAND[1]:
            C["in_denormal_band"] += 1
            region = "denormal-band"
        elif minlog_ < BAND[0]:
            C["beyond_underflow"] += 1
            region = "beyond-underflow"
        else:
            C["representable"] += 1
            region = "representable"
        if not np.isfinite(x):
            V.append(tt.viol("C03:nonfinite:%s:%s" % (region, where.split("@")[0]), "%s: log-likelihood %r while the true value %.12g is finite (N=%d, min site log10 L %.1f, rescale=%s)"
                             % (where, x, ref_, N, minlog_, like.rescale), case=case, N=N))
            return
        err = abs(x - ref_) / abs(ref_)
        if err > 1e-8:
            V.append(tt.viol("C03:inaccurate:%s:%s" % (region, where.split("@")[0]), "%s: log-likelihood %.15g vs extended-range reference %.15g, rel err %.3g (N=%d, %s, min site log10 L %.1f, rescale=%s)"
                             % (where, x, ref_, err, N, tag, minlog_, like.rescale), case=case, N=N, lib=x, ref=ref_))

    r0 = bool(like.rescale)
    compare(_lib(like, "log-likelihood"), ref, "first-evaluation", minlog)
    r1 = bool(like.rescale)
    if r1 and not r0:
        C["rescale_switches"] += 1
    bl0 = torch.tensor(c["branch_lengths"], dtype=torch.float64)
    # forced rescaling on this case: rescaled and unrescaled evaluation agree whenever both are representable
    if minlog > BAND[1] + 5:
        first = float(_lib(like, "log-likelihood").reshape(-1)[0])
        like.rescale = True
        blp.tensor = bl0.clone()  # change notification through the public parameter interface
        C["forced_rescale"] += 1
        second = float(_lib(like, "log-likelihood").reshape(-1)[0])
        if abs(first - second) > 1e-9 * abs(first):
            V.append(tt.viol("C03:rescaled-vs-plain", "rescaled %.15g and unrescaled %.15g evaluation disagree on a representable case (N=%d %s)" % (second, first, N, tag), case=case, N=N))
        compare(np.array(second), ref, "forced-rescale", minlog)
    # history across the band: stretch, shrink back, stretch more
    if case["history"]:
        # (in half of the histories also a collapse of the tree by six orders of magnitude and back: subtrees that were far above the
        # threshold when rescaling was switched on now underflow)
        for step, f in enumerate([1.6, 0.7, 1.0, 2.5, 1.0] + ([1e-6, 1.0, 1e-8, 30.0, 1e-14, 1.0, 1e-18, 1.0] if case["seed"] % 2 else [])):
            c2 = dict(c)
            c2["branch_lengths"] = (bl0 * f).tolist()
            ref2, minlog2 = ref_eval(c2)
            C["ref_evaluations"] += 1
            before = bool(like.rescale)
            blp.tensor = bl0 * f
            val = _lib(like, "log-likelihood")
            C["history_steps"] += 1
            if bool(like.rescale) and not before:
                C["rescale_switches"] += 1
            if before and not like.rescale:
                V.append(tt.viol("C03:rescale-flag-reset", "rescale flag went back to False at history step %d" % step, case=case))
            compare(val, ref2, "history-step@%d(x%g)" % (step, f), minlog2)
    # a batch in which one sample underflows and the other does not
    if case["batch"]:
        objs, dic2 = tt.load(phylo.likelihood_json(c))
        like2 = dic2["like"]
        factors = (0.3, 1.5) if case["seed"] % 2 else (0.05, 1.0, 1.5)  # samples whose likelihoods are hundreds of orders of magnitude apart
        rows = torch.stack([bl0 * f for f in factors])
        dic2["tree.blens"].tensor = rows
        # with HKY also kappa and the frequencies differ between the samples of the batch
        sub_rows = None
        if c["subst"]["kind"] == "HKY" and "sm.pi" in dic2 and case["seed"] % 3 != 2:
            brng = np.random.default_rng(case["seed"] + 5)
            sub_rows = [{"kind": "HKY", "kappa": float(c["subst"]["kappa"] * brng.uniform(0.5, 2.0)), "pi": brng.dirichlet([4.0] * 4).tolist()} for _ in factors]
            dic2["sm.kappa"].tensor = torch.tensor([[r["kappa"]] for r in sub_rows], dtype=torch.float64)
            dic2["sm.pi"].tensor = torch.tensor([r["pi"] for r in sub_rows], dtype=torch.float64)
            C["batched_substitution_parameters"] = 1
        refs = []
        for bi, f in enumerate(factors):
            c2 = dict(c)
            c2["branch_lengths"] = (bl0 * f).tolist()
            if sub_rows:
                c2["subst"] = sub_rows[bi]
            refs.append(ref_eval(c2))
            C["ref_evaluations"] += 1
        val = _lib(like2, "batched log-likelihood").reshape(-1)
        C["batched"] += 1
        if val.shape[0] != len(factors):
            V.append(tt.viol("C03:batched-shape", "batched evaluation returned shape %s" % (val.shape,), case=case))
        else:
            for i in range(len(factors)):
                compare(val[i], refs[i][0], "batched-row@%d" % i, refs[i][1])
            # the same batch again (after the switch every pass is the fully rescaled one)
            dic2["tree.blens"].tensor = rows.clone()
            val = _lib(like2, "batched log-likelihood").reshape(-1)
            C["batched"] += 1
            for i in range(len(factors)):
                compare(val[i], refs[i][0], "batched-row-second-evaluation@%d" % i, refs[i][1])
    near = abs(got - case["target"]) < 3
    fp = "%s:%g:%d" % (tag, case["scale"], N) if near else None
    sample = {"config": case, "located_N": N, "min_site_log10_likelihood": got, "reference": ref}
    return {"violations": V, "counters": C, "fingerprint": fp, "sample": sample}
