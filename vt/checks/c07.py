"""C07 - every change of variables reports its true log-Jacobian and inverse.

AD-Jacobian monitor: for every shipped transform (and the torch transforms the CLI emits) the reported
log|det J| is compared with slogdet of torch.autograd's Jacobian of the real forward map; inverse round trips;
TransformedParameter() and ReparameterizedTimeTreeModel() must return that quantity for their *current* value."""
from __future__ import annotations

import numpy as np

from .. import tt
from ..gen import models as gm
from ..gen import phylo
from ..gen import timetree as gt
from ..ref import tree as rt

PROPERTY = "C07"
LEVEL = "exploration"
RULE = ("cases = transform kind x dimension 1..12 (or tree topology: all <= 5 taxa + random <= 30) x point (N(0,3^2) in unconstrained "
        "space, log-normal where the domain is positive) x batch shape {[d],[B,d],[S,K,d]} x {direct, through TransformedParameter "
        "from JSON after an update}; non-trivial = dimension >= 2 or tree with >= 3 taxa; distinct by (kind, dimension/newick, batch shape, route)")
ASSUMPTIONS = [
    "torch.autograd.functional.jacobian in float64 is the trusted oracle for the derivative of the forward map",
    "a transform that raises NotImplementedError for log_abs_det_jacobian or _inverse declines that sub-claim (recorded, not a violation)",
    "for simplex-valued transforms (StickBreaking) the (K-1)x(K-1) Jacobian of the first K-1 outputs is used, torch's own convention",
    "ConvexCombinationTransform is not declared bijective (maps onto a (K-1)-dimensional surface) and is outside 'each invertible transform'",
]
BUDGET = {"quick": 70, "thorough": 700}
ROUNDS = {"thorough": 10}
FLOORS = {"logdet_comparisons": {"quick": 1500, "thorough": 12000}, "inverse_round_trips": {"quick": 1000, "thorough": 8000},
          "transformed_parameter_calls": 200, "tree_model_calls": 100, "tree_model_pre_reads": 3, "kinds": 13, "api_tree_model_calls": 100, "updates_through_a_view": 100, "rates_far_from_one": 20, "mixed_precision_round_trips": 50}

PLAIN = ["CumSum", "CumSumExp", "SoftPlus", "CumSumSoftPlus", "Log", "TrilExpDiagonal"]
TORCH = ["Exp", "Sigmoid", "Affine", "AffineParam", "StickBreaking"]
TREE = ["GeneralNodeHeight", "DifferenceNodeHeight", "DifferenceNodeHeightSmooth", "LogDifferenceRate"]


def cases(tier, seed):
    rng = np.random.default_rng([seed, 7])
    out = []
    n_plain = 160 if tier == "quick" else 800
    for kind in PLAIN + TORCH:
        for i in range(n_plain):
            d = int(rng.integers(1, 13))
            if kind == "TrilExpDiagonal":
                m = int(rng.integers(1, 6))
                d = m * (m + 1) // 2
            shape = [[d], [int(rng.integers(1, 6)), d], [int(rng.integers(1, 5)), int(rng.integers(1, 5)), d]][i % 3]
            if kind == "TrilExpDiagonal":
                shape = [d]
            out.append({"kind": kind, "shape": shape, "seed": int(rng.integers(2**31)), "route": ["direct", "tp"][i % 2] if kind != "TrilExpDiagonal" else "direct"})
    topos = []
    for n in (2, 3, 4, 5):
        topos += rt.all_rooted_topologies(n)
    nbig = 160 if tier == "quick" else 1200
    for _ in range(nbig):
        topos.append(rt.random_topology(int(rng.integers(6, 31)), rng, str(rng.choice(["random", "caterpillar", "balanced"]))))
    if tier == "thorough":
        topos += rt.all_rooted_topologies(6)
    j = 0
    for t in topos:
        for kind in TREE:
            n = len(rt.leaves_of(t))
            param = "ratio" if kind == "GeneralNodeHeight" else "shift"
            batch = int(rng.choice([0, 0, 2, 3]))
            c = gt.make_case(rng, t, param, None, batch)
            # moderate ratios: the AD comparison is about the formula, conditioning extremes belong to C06
            if param == "ratio":
                B = max(batch, 1)
                u = rng.uniform(0.02, 0.98, (B, max(n - 2, 0)))
                if j % 9 == 4:
                    # a few ratios next to the ends of the interval: the inverse has to return them (tolerance rule of C06)
                    u = np.where(rng.random(u.shape) < 0.4, rng.choice([1e-9, 3e-8, 1 - 1e-9, 1 - 4e-7], size=u.shape), u)
                c["ratios"] = u.tolist() if batch else u[0].tolist()
            out.append({"kind": kind, "tree": c, "seed": int(rng.integers(2**31)), "route": str(rng.choice(["direct", "model", "api"] if kind in ("GeneralNodeHeight", "DifferenceNodeHeight") else ["direct", "model"]))})
            j += 1
    return out


def _ref_logdet(f, x, stick=False, exact=False):
    """log|det| of the AD Jacobian of f at the 1-D point x (float64 LU; exact=True: the determinant of the
    float64 Jacobian evaluated in 60-digit arithmetic, used as tie-breaker when the matrix is ill-conditioned)."""
    import torch
    from torch.autograd.functional import jacobian

    J = jacobian(f, x)
    J = J.reshape(-1, x.numel())
    if stick:
        J = J[:-1, :]
    if J.shape[0] != J.shape[1]:
        return None
    if exact:
        import mpmath

        try:
            with mpmath.workdps(60):
                M = mpmath.matrix(J.tolist())
                return float(mpmath.log(abs(mpmath.det(M))))
        except Exception:  # singular / non-finite Jacobian in float64: the oracle does not apply at this point
            return None
    return float(torch.linalg.slogdet(J)[1])


def _softplus_allowance(kind, x):
    """torch.nn.functional.softplus (which both the forward map and the reported Jacobian of the softplus transforms are
    written with) switches to the identity above its documented threshold of 20, an absolute error of at most
    exp(-20) = 2.1e-9 per element; the AD derivative does not.  Only elements beyond the threshold get the allowance."""
    if kind == "SoftPlus":
        return 2.1e-9 * float((x.abs() > 20).sum())
    if kind == "CumSumSoftPlus":
        return 2.1e-9 * float((x.cumsum(-1).abs() > 20).sum())
    return 0.0


def _agree(reported, f, x, stick=False, allowance=0.0):
    """(ok, reference): reported log-det against AD; a disagreement with the float64 LU is re-judged exactly."""
    ref = _ref_logdet(f, x, stick)
    if ref is None:
        return True, None
    tol = 1e-9 * max(1.0, abs(ref) / 100.0) + allowance
    if abs(reported - ref) <= tol:
        return True, ref
    ref2 = _ref_logdet(f, x, stick, exact=True)
    if ref2 is None or not np.isfinite(ref2):
        return True, None  # not judged
    return bool(abs(reported - ref2) <= tol), ref2


def _compare(V, C, kind, tr, x, stick=False, elementwise=False, where="direct", extra=None, inv_tol=None):
    """x: tensor [..., d]; compares reported log-det with AD per row and checks the inverse."""
    import torch

    y = tr(x)
    try:
        rep = tr.log_abs_det_jacobian(x, y)
    except NotImplementedError:
        C["declined_logdet"] = C.get("declined_logdet", 0) + 1
        rep = None
    batch_shape = tuple(x.shape[:-1])
    if rep is not None:
        rep = tt.as_np(rep, "C07:not-a-tensor:" + kind, "log_abs_det_jacobian")
        if elementwise and rep.shape == tuple(x.shape):
            rep = rep.sum(-1)
        if tuple(rep.shape) != batch_shape:
            V.append(tt.viol("C07:logdet-shape:%s" % kind, "%s: reported log|det J| has shape %s for input %s (expected %s)" % (where, rep.shape, tuple(x.shape), batch_shape), kind=kind, extra=extra))
            rep = None
    rows = x.reshape(-1, x.shape[-1])
    if rep is not None:
        repf = rep.reshape(-1)
        for i in range(rows.shape[0]):
            ok, ref = _agree(repf[i], lambda v: tr(v), rows[i].clone(), stick, _softplus_allowance(kind, rows[i]))
            if ref is None:
                continue
            C["logdet_comparisons"] += 1
            if not ok:
                V.append(tt.viol("C07:logdet:%s" % kind, "%s: reported log|det J| %.12g, AD Jacobian gives %.12g (row %d of input shape %s)" % (where, repf[i], ref, i, tuple(x.shape)),
                                 kind=kind, x=rows[i].tolist(), extra=extra))
                break
    try:
        if kind in TORCH:
            # inverses of torch's own transforms are torch's business (ill-conditioned at extreme points);
            # what is checked for them is the log-Jacobian wiring
            raise NotImplementedError
        back = tr.inv(y)
        back = tt.as_np(back, "C07:not-a-tensor:" + kind, "inverse")
        C["inverse_round_trips"] += 1
        xn = x.detach().numpy()
        tol = 1e-9 * np.maximum(1.0, np.abs(xn)) if inv_tol is None else inv_tol
        if back.shape == xn.shape and inv_tol is not None:
            back = np.where(np.isfinite(back) | np.isfinite(tol), back, xn)
        if back.shape != xn.shape or not np.all(np.abs(back - xn) <= tol):
            err = "shape %s" % (back.shape,) if back.shape != xn.shape else "max abs err %.3g" % np.abs(back - xn).max()
            V.append(tt.viol("C07:inverse:%s" % kind, "%s: inv(forward(x)) != x (%s, input shape %s)" % (where, err, tuple(x.shape)), kind=kind, x=xn.reshape(-1)[:12].tolist(), extra=extra))
    except NotImplementedError:
        if kind not in TORCH:
            C["declined_inverse"] = C.get("declined_inverse", 0) + 1


def _plain_transform(kind, rng, d):
    import torch
    import torch.distributions as D
    from torchtree.distributions import transforms as T

    if kind == "Exp":
        return D.ExpTransform(), "torch.distributions.ExpTransform", None, True
    if kind == "Sigmoid":
        return D.SigmoidTransform(), "torch.distributions.SigmoidTransform", None, True
    if kind == "Affine":
        loc, scale = float(rng.normal()), float(np.exp(rng.normal()))
        return D.AffineTransform(loc, scale), "torch.distributions.AffineTransform", {"loc": loc, "scale": scale}, True
    if kind == "StickBreaking":
        return D.StickBreakingTransform(), "torch.distributions.StickBreakingTransform", None, False
    cls = {"CumSum": T.CumSumTransform, "CumSumExp": T.CumSumExpTransform, "SoftPlus": T.SoftPlusTransform,
           "CumSumSoftPlus": T.CumSumSoftPlusTransform, "Log": T.LogTransform, "TrilExpDiagonal": T.TrilExpDiagonalTransform}[kind]
    return cls(), "torchtree.distributions.transforms." + cls.__name__, None, kind in ("SoftPlus", "Log")


def run_plain(case, V, C):
    import torch

    kind = case["kind"]
    rng = np.random.default_rng(case["seed"])
    shape = case["shape"]
    d = shape[-1]
    if kind == "Log":
        x = torch.tensor(np.exp(rng.normal(0, 1.5, shape)))
    elif kind == "TrilExpDiagonal":
        x = torch.tensor(rng.normal(0, 1.5, shape))
    else:
        x = torch.tensor(rng.normal(0, 3.0, shape))
    if kind == "SoftPlus" and rng.random() < 0.35:
        # the tails of the domain, where softplus is within round-off of 0 (x << 0) or of x (x >> 0): element-wise and
        # well conditioned in both directions, so the round trip must still return the input
        x = torch.tensor(np.clip(rng.normal(0, 25.0, shape), -60.0, 60.0))
        if rng.random() < 0.4:
            # values of the size of a population size or a date (hundreds): exp(x) does not fit a double, softplus(x) = x does
            x = torch.tensor(rng.uniform(100.0, 900.0, shape))
        C["tail_points"] = C.get("tail_points", 0) + 1
    if kind == "CumSumSoftPlus" and rng.random() < 0.3:
        # a first element far out on either side: the running sum stays there (softplus of it is within round-off of 0 or of the sum)
        xn = rng.normal(0, 3.0, shape)
        xn[..., 0] = rng.uniform(-45.0, 900.0, xn[..., 0].shape)
        x = torch.tensor(xn)
        C["tail_points"] = C.get("tail_points", 0) + 1
    if kind == "AffineParam":
        # AffineTransform whose loc is a Parameter object (what the CLI emits for origin = root_height + delta)
        spec = {"id": "tp", "type": "TransformedParameter", "transform": "torch.distributions.AffineTransform",
                "x": gm.param("tp.x", x.tolist(), dtype="torch.float64"),
                "parameters": {"loc": gm.param("tp.loc", [float(rng.normal())], dtype="torch.float64"), "scale": float(np.exp(rng.normal()))}}
        objs, dic = tt.load(spec)
        tp = dic["tp"]
        _tp_checks(V, C, kind, tp, dic, x, rng, elementwise=True, stick=False)
        return
    tr, path, params, elementwise = _plain_transform(kind, rng, d)
    stick = kind == "StickBreaking"
    if case["route"] == "direct":
        inv_tol = None
        if kind == "CumSumSoftPlus":
            # each x is recovered as a difference of two adjacent running sums: round-off of the sums, not of x
            c = np.abs(x.cumsum(-1).numpy())
            # (+ torch's softplus threshold: beyond 20 the forward map returns the sum itself, exp(-20) = 2.1e-9 away from softplus)
            e = 16 * 2.2e-16 * (c + 1.0) + 2.1e-9 * (c > 20)
            e = e + np.concatenate([np.zeros_like(e[..., :1]), e[..., :-1]], -1)
            inv_tol = 1e-9 * np.maximum(1.0, np.abs(x.numpy())) + e
        _compare(V, C, kind, tr, x, stick=stick, elementwise=elementwise, inv_tol=inv_tol)
        return
    spec = {"id": "tp", "type": "TransformedParameter", "transform": path, "x": gm.param("tp.x", x.tolist(), dtype="torch.float64")}
    if params:
        spec["parameters"] = params
    objs, dic = tt.load(spec)
    _tp_checks(V, C, kind, dic["tp"], dic, x, rng, elementwise, stick)


def _tp_checks(V, C, kind, tp, dic, x, rng, elementwise, stick):
    """TransformedParameter(): the log-Jacobian of its transform at the current value, before and after an update."""
    import torch

    for step in range(3):
        if step == 1:
            x = torch.tensor(np.exp(rng.normal(0, 1.5, tuple(x.shape)))) if kind in ("Log", "LogDifferenceRate") else torch.tensor(rng.normal(0, 3.0, tuple(x.shape)))
            dic["tp.x"].tensor = x  # update through the public parameter interface
        if step == 2:
            # update of one coordinate through a view of the wrapped parameter (what an operator on a single entry does)
            from torchtree.core.parameter import ViewParameter

            view = ViewParameter(None, dic["tp.x"], slice(0, 1))
            shp = tuple(x.shape[:-1]) + (1,)
            view.tensor = torch.tensor(np.exp(rng.normal(0, 1.5, shp))) if kind in ("Log", "LogDifferenceRate") else torch.tensor(rng.normal(0, 3.0, shp))
            x = dic["tp.x"].tensor.detach().clone()
            C["updates_through_a_view"] = C.get("updates_through_a_view", 0) + 1
        val = tt.as_np(tp(), "C07:not-a-tensor:TransformedParameter:" + kind, "TransformedParameter()")
        y = tt.as_np(tp.tensor, "C07:not-a-tensor:TransformedParameter:" + kind, "TransformedParameter.tensor")
        C["transformed_parameter_calls"] += 1
        tr = tp.transform
        yy = tr(x).detach().numpy()
        if y.shape != yy.shape or np.abs(y - yy).max() > 1e-12 * max(1.0, np.abs(yy).max()):
            V.append(tt.viol("C07:TransformedParameter:value:" + kind, "TransformedParameter.tensor is not transform(x) for the current x (step %d)" % step, kind=kind))
        rows = x.reshape(-1, x.shape[-1])
        tot = val.sum(-1) if (elementwise and val.shape == tuple(x.shape)) else val
        if tuple(np.shape(tot)) != tuple(x.shape[:-1]):
            V.append(tt.viol("C07:TransformedParameter:shape:" + kind, "TransformedParameter() has shape %s for x of shape %s" % (val.shape, tuple(x.shape)), kind=kind))
            continue
        totf = np.asarray(tot).reshape(-1)
        for i in range(rows.shape[0]):
            ok, ref = _agree(totf[i], lambda v: tr(v), rows[i].clone(), stick, _softplus_allowance(kind, rows[i]))
            if ref is None:
                continue
            C["logdet_comparisons"] += 1
            if not ok:
                V.append(tt.viol("C07:TransformedParameter:logdet:" + kind, "TransformedParameter() returns %.12g at step %d, AD Jacobian at the current value gives %.12g" % (totf[i], step, ref), kind=kind, x=rows[i].tolist()))
                break


def run_tree(case, V, C):
    import torch
    from torchtree.evolution.rate_transform import LogDifferenceRateTransform
    from torchtree.evolution.tree_height_transform import DifferenceNodeHeightTransform

    kind = case["kind"]
    tc = case["tree"]
    rng = np.random.default_rng(case["seed"])
    n = len(tc["names"])
    B = tc["batch"]
    objs, dic = tt.load([phylo.taxa_json(tc), gt.tree_json(tc)])
    tree = dic["tree"]
    extra = {"newick": tc["newick"], "dates": tc["dates"], "names": tc["names"]}
    if kind == "LogDifferenceRate":
        tr = LogDifferenceRateTransform(tree)
        shape = ([B] if B else []) + [2 * n - 2]
        # rates of order one, and of the size of real substitution rates per site per year (their product leaves the float range)
        loc = float(rng.choice([0.0, 0.0, -8.0, -14.0, 14.0]))
        x = torch.tensor(np.exp(rng.normal(loc, 1.0, shape)))
        if loc != 0.0:
            C["rates_far_from_one"] = 1
        if case["route"] == "direct":
            _compare(V, C, kind, tr, x, where="direct", extra=extra)
        else:
            spec = {"id": "tp", "type": "TransformedParameter", "transform": "LogDifferenceRateTransform",
                    "x": gm.param("tp.x", x.tolist(), dtype="torch.float64"), "parameters": {"tree_model": "tree"}}
            tt.load(spec, dic)
            _tp_checks(V, C, kind, dic["tp"], dic, x, np.random.default_rng(case["seed"] + 1), False, False)
        return
    if kind == "DifferenceNodeHeightSmooth":
        tr = DifferenceNodeHeightTransform(tree, k=float(rng.choice([0.5, 2.0, 20.0, -1.0])))  # (k <= 0: the hard maximum, by the class's own rule)
    else:
        tr = tree.transform
    x = tree._internal_heights.tensor.detach().clone()
    if kind in ("GeneralNodeHeight", "DifferenceNodeHeight") and case["seed"] % 5 == 0:
        # mixed precision: the process default is single precision (nothing called set_default_dtype), the parameters are double:
        # the map works in the precision of its input
        old_dtype = torch.get_default_dtype()
        torch.set_default_dtype(torch.float32)
        try:
            _, dic32 = tt.load([phylo.taxa_json(tc), gt.tree_json(tc)])
            t32 = dic32["tree"]
            x32 = t32._internal_heights.tensor.detach().clone()
            y32 = t32.transform(x32)
            back = t32.transform.inv(y32)
        finally:
            torch.set_default_dtype(old_dtype)
        C["mixed_precision_round_trips"] = 1
        err = float((back.double() - x32.double()).abs().max())
        scale = max(1.0, float(y32.double().abs().max()))
        cond = 1.0
        if kind == "GeneralNodeHeight":
            from . import c06

            tol_ = c06._inverse_tolerance(tc, x32.numpy())
            cond = 0.0 if tol_ is None else 1.0
        if y32.dtype != x32.dtype or (cond and err > 1e-9 * scale):
            V.append(tt.viol("C07:mixed-precision:" + kind, "default dtype float32, parameters %s: forward output is %s, inv(forward(x)) misses x by %.3g (double precision would give ~1e-15)" % (
                str(x32.dtype), str(y32.dtype), err), extra=extra))
            return
    if case["route"] == "direct" or kind == "DifferenceNodeHeightSmooth":
        inv_tol = None
        if kind == "GeneralNodeHeight":
            # a ratio inherits round-off from its denominator (parent height - bound): same rule as C06
            from . import c06

            inv_tol = c06._inverse_tolerance(tc, x.numpy())
            if inv_tol is None:
                inv_tol = np.full(tuple(x.shape), np.inf)
            inv_tol = inv_tol + 1e-9
        _compare(V, C, kind, tr, x, where="direct", extra=extra, inv_tol=inv_tol)
        return
    if case["route"] == "api":
        # the model built through the Python API on ONE plain Parameter, which is then changed in place and announced (optimiser
        # protocol), and through a view of its last entry (the root height / the root's increment)
        from torchtree import Parameter
        from torchtree.core.parameter import ViewParameter
        from torchtree.evolution.tree_model import ReparameterizedTimeTreeModel

        p = Parameter("p", x.clone())
        t2 = ReparameterizedTimeTreeModel("tree.api", tree.tree, dic["taxa"], **({"ratios_root_height": p} if tc["param"] == "ratio" else {"shifts": p}))
        oracle_tr = type(t2.transform)(t2)  # an instance of its own for the oracle: the model's transform object is not touched by the monitor
        for step in range(3):
            if step == 1:
                with torch.no_grad():
                    p.tensor[..., -1:] *= 1.3
                    if tc["param"] != "ratio":
                        p.tensor[..., :-1] *= 0.7
                p.fire_parameter_changed()
            elif step == 2:
                ViewParameter(None, p, slice(-1, None)).tensor = p.tensor[..., -1:].detach() * 1.21
            cur = p.tensor.detach().clone()
            val = tt.as_np(t2(), "C07:not-a-tensor:tree-model", "ReparameterizedTimeTreeModel()")
            hts = tt.as_np(t2.node_heights, "C07:not-a-tensor:tree-model", "node_heights")[..., n:]
            C["tree_model_calls"] += 1
            C["api_tree_model_calls"] = C.get("api_tree_model_calls", 0) + 1
            want_h = oracle_tr(cur).detach().numpy()
            if hts.shape != want_h.shape or np.abs(hts - want_h).max() > 1e-12 * max(1.0, np.abs(want_h).max()):
                V.append(tt.viol("C07:tree-model:api:heights-not-of-current-value:" + kind, "API-built model, step %d: node heights are not transform(current parameter value) (max diff %.3g)" % (
                    step, np.abs(hts - want_h).max() if hts.shape == want_h.shape else float("nan")), extra=extra))
                return
            rows = cur.reshape(-1, cur.shape[-1])
            vf = val.reshape(-1)
            if vf.shape[0] != rows.shape[0]:
                V.append(tt.viol("C07:tree-model:shape:" + kind, "API-built ReparameterizedTimeTreeModel() has shape %s for parameters of shape %s" % (val.shape, tuple(cur.shape)), extra=extra))
                return
            for i in range(rows.shape[0]):
                ok, ref = _agree(vf[i], lambda v: oracle_tr(v), rows[i].clone())
                if ref is None:
                    continue
                C["logdet_comparisons"] += 1
                if not ok:
                    V.append(tt.viol("C07:tree-model:api:logdet:" + kind, "API-built ReparameterizedTimeTreeModel() returns %.12g at step %d (0 as built, 1 in-place update + notification, 2 view assignment), AD Jacobian at the current value gives %.12g" % (vf[i], step, ref), extra=extra, x=rows[i].tolist()))
                    return
        return
    # through the model: ReparameterizedTimeTreeModel() is the log-Jacobian at the current value, also after an update
    # what is read before the update: the model itself, or only the heights / branch lengths it derives (the log-Jacobian
    # cache is then still dirty when the update arrives)
    pre = int(rng.integers(0, 3))
    C["tree_model_pre_reads"] = [pre]
    oracle_tree_tr = type(tree.transform)(tree)  # the oracle differentiates an instance of its own
    for step in range(2):
        if step == 0 and pre:
            _ = tree.node_heights if pre == 1 else tree.branch_lengths()
            continue
        if step == 1:
            if tc["param"] == "ratio":
                if n > 2:
                    new = torch.tensor(rng.uniform(0.02, 0.98, tuple(dic["tree.ratios"].tensor.shape)))
                    dic["tree.ratios"].tensor = new
                else:
                    dic["tree.root_height"].tensor = dic["tree.root_height"].tensor + 0.37
            else:
                dic["tree.shifts"].tensor = torch.tensor(rng.exponential(1.0, tuple(dic["tree.shifts"].tensor.shape)) + 1e-3)
            x = tree._internal_heights.tensor.detach().clone()
        val = tt.as_np(tree(), "C07:not-a-tensor:tree-model", "ReparameterizedTimeTreeModel()")
        C["tree_model_calls"] += 1
        rows = x.reshape(-1, x.shape[-1])
        if tuple(val.shape) != tuple(x.shape[:-1]):
            V.append(tt.viol("C07:tree-model:shape:" + kind, "ReparameterizedTimeTreeModel() has shape %s for parameters of shape %s" % (val.shape, tuple(x.shape)), extra=extra))
            return
        vf = val.reshape(-1)
        for i in range(rows.shape[0]):
            ok, ref = _agree(vf[i], lambda v: oracle_tree_tr(v), rows[i].clone())
            if ref is None:
                continue
            C["logdet_comparisons"] += 1
            if not ok:
                V.append(tt.viol("C07:tree-model:logdet:" + kind, "ReparameterizedTimeTreeModel() returns %.12g at step %d, AD Jacobian at the current value gives %.12g" % (vf[i], step, ref), extra=extra, x=rows[i].tolist()))
                return


def run_case(case):
    V = []
    C = {"logdet_comparisons": 0, "inverse_round_trips": 0, "transformed_parameter_calls": 0, "tree_model_calls": 0, "kinds": [case["kind"]]}
    if "tree" in case:
        run_tree(case, V, C)
        n = len(case["tree"]["names"])
        fp = "%s|%s|%s|%s" % (case["kind"], case["tree"]["newick"], case["tree"]["batch"], case["route"]) if n >= 3 else None
        sample = {"kind": case["kind"], "newick": case["tree"]["newick"], "route": case["route"]} if n <= 6 else None
    else:
        run_plain(case, V, C)
        fp = "%s|%s|%s" % (case["kind"], case["shape"], case["route"]) if case["shape"][-1] >= 2 else None
        sample = case
    return {"violations": V, "counters": C, "fingerprint": fp, "sample": sample}
