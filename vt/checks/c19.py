"""C19 - every configuration the CLI emits is runnable and targets the right density.

CLI monitor.  torchtree.cli.cli.main is run in-process (argv patched, stdout captured) over an enumeration of the
model-defining core options and a covering set of the other switches on small synthetic data sets; the emitted JSON
is loaded exactly as torchtree.main loads it; then (b) the target and its gradient are evaluated at the initial point,
(c) requested initial values are compared with the constrained parameters, (d) an automatic-differentiation oracle
accounts for the Jacobian terms: for every prior in the joint the variable it is a density of is differentiated with
respect to the unconstrained leaves through the real object graph, and `joint.jacobian() - joint()` must equal the sum
of those log-determinants, each variable once."""
from __future__ import annotations

import contextlib
import io
import json
import os
import shutil
import sys
import tempfile
import re

import numpy as np

from .. import tt
from ..gen import clidata
from ..ref import tree as rt

PROPERTY = "C19"
LEVEL = "exploration"
RULE = ("cases = sub-command {advi, map, mcmc, hmc} x substitution model (9) x categories {1,4} x invariant x clock {none, strict, ucln, horseshoe} x heights "
        "{ratio, shift} x tree prior {none, 8 coalescents, bd-constant, bdsk} (sampled in quick, enumerated in thorough) + a covering set of the remaining switches "
        "(--keep, --brlens_init, --heights_init, --rate(_init), --clockpr, --brlenspr, --use_ambiguities, --use_tip_states, --use_path, --include_jacobian, --dates, "
        "grid/cutoff incl. cutoff below the date span, --gmrf_integrated, --coalescent_non_centered, --coalescent_temperature, --disable_time_aware, variational family, "
        "HMC options); a combination the CLI rejects (non-zero exit / uncaught exception inside the CLI) is vacuous and counted; non-trivial = accepted and loaded; "
        "distinct by the option vector")
ASSUMPTIONS = [
    "synthetic 6-taxon data sets (dated names, nucleotide / codon / amino-acid alignments, Newick and NEXUS trees) written by the harness",
    "'accepts' = the CLI exits 0 and prints JSON; argparse errors, sys.exit and exceptions inside the CLI are rejections (counted by option and exception type)",
    "Jacobian terms of transformed parameters that carry no explicit prior are a legitimate implicit-prior choice and are subtracted before comparing",
    "for `map` the loss is by design the constrained joint: the check is that the loss is the joint",
]
BUDGET = {"quick": 85, "thorough": 1500}
FLOORS = {"cli_runs": {"quick": 500, "thorough": 5000}, "accepted": {"quick": 350, "thorough": 3500}, "loaded": {"quick": 250, "thorough": 2500},
          "targets_evaluated": {"quick": 250, "thorough": 2500}, "jacobian_accounts": {"quick": 150, "thorough": 1500}, "target_identity_checks": {"quick": 150, "thorough": 1500}, "constraint_checks": {"quick": 3000, "thorough": 30000}, "initial_value_checks": {"quick": 60, "thorough": 600}, "runs_completed": {"quick": 40, "thorough": 700}, "model_definition_checks": {"quick": 150, "thorough": 1500},
          "subcommands": 4}

MODELS = ["JC69", "K80", "HKY", "SYM", "GTR", "SRD06", "MG94", "LG", "WAG"]
COALESCENTS = ["constant", "exponential", "skyride", "skygrid", "skyglide", "piecewise-constant", "piecewise-linear", "piecewise-exponential"]
PRIORS = ["none"] + COALESCENTS + ["bd-constant", "bdsk"]
_DATA = {}


def worker_init(tier):
    d = tempfile.mkdtemp(prefix="vt-c19-", dir="/dev/shm" if os.path.isdir("/dev/shm") else None)
    files, truth = clidata.write_all(d, seed=19)
    _DATA.update(dir=d, files=files, truth=truth)
    root = tt.subject_root()
    _DATA["flu"] = {"nuc": os.path.join(root, "data", "fluA.fa"), "tree": os.path.join(root, "data", "fluA.tree")}  # 69 dated taxa shipped with the repository
    import atexit

    atexit.register(shutil.rmtree, d, True)


def cases(tier, seed):
    rng = np.random.default_rng([seed, 19])
    core = []
    for sub in ("advi", "map", "mcmc", "hmc"):
        for m in MODELS:
            for C in (1, 4):
                for inv in (False, True):
                    for clock in ("none", "strict", "ucln", "horseshoe"):
                        if clock == "none":
                            core.append({"sub": sub, "model": m, "C": C, "I": inv, "clock": clock, "heights": None, "prior": "none"})
                            continue
                        for h in ("ratio", "shift"):
                            for pr in PRIORS[1:]:
                                core.append({"sub": sub, "model": m, "C": C, "I": inv, "clock": clock, "heights": h, "prior": pr})
    if tier == "quick":
        idx = rng.choice(len(core), size=1100, replace=False)
        core = [core[i] for i in idx]
    out = []
    for c in core:
        c = dict(c)
        c["extras"] = {}
        out.append(c)
    # covering set over the remaining switches, on a few well-behaved cores
    n_extra = 500 if tier == "quick" else 4000
    for i in range(n_extra):
        sub = ["advi", "map", "mcmc", "hmc"][i % 4]
        clock = str(rng.choice(["none", "strict", "strict", "ucln"]))
        c = {"sub": sub, "model": str(rng.choice(["JC69", "HKY", "GTR", "JC69", "HKY", "GTR", "SRD06", "K80", "SYM"])), "C": int(rng.choice([1, 4])), "I": bool(rng.random() < 0.3), "clock": clock,
             "heights": None if clock == "none" else str(rng.choice(["ratio", "shift"])), "prior": "none" if clock == "none" else str(rng.choice(["constant", "skygrid", "skyride", "exponential", "bdsk", "skyglide"]))}
        e = {}
        pick = lambda p: rng.random() < p
        if clock == "none":
            if pick(0.4):
                e["brlens_init"] = str(rng.choice(["tree", "0.05"]))
            if pick(0.3):
                e["keep"] = True
            if pick(0.4):
                e["brlenspr"] = str(rng.choice(["exponential", "gammadir"]))
        else:
            if pick(0.3):
                e["keep"] = True
            if pick(0.3):
                e["heights_init"] = str(rng.choice(["tree", "regression"]))
            if pick(0.25):
                e["root_height_init"] = 9.5
            if pick(0.25) and clock == "strict":
                e["rate_init"] = [0.0021, 0.0021, "regression"][int(rng.integers(3))]
            elif pick(0.15) and clock == "strict":
                e["rate"] = 0.0033
            if pick(0.2) and clock == "strict":
                e["clockpr"] = "exponential(1000)"
            if pick(0.2):
                e["include_jacobian"] = True
            if pick(0.3):
                e["dates"] = str(rng.choice(["csv", "0"]))
            if c["prior"] in ("skygrid", "skyglide"):
                if pick(0.3):
                    e["cutoff"] = float(rng.choice([1.0, 3.0, 20.0]))  # 1.0 and 3.0 lie below the span of the sampling dates
                if pick(0.3):
                    e["gmrf_integrated"] = True
                if pick(0.3):
                    e["coalescent_non_centered"] = True
                if pick(0.2) and c["prior"] == "skygrid":
                    e["coalescent_temperature"] = 0.01
            if c["prior"] == "skyride":
                if pick(0.3):
                    e["disable_time_aware"] = True
                if pick(0.3):
                    e["gmrf_integrated"] = True
                if pick(0.3):
                    e["coalescent_non_centered"] = True
            if c["prior"] == "constant" and pick(0.3):
                e["coalescent_init"] = 7.5
        if pick(0.2):
            e["use_ambiguities"] = True
        elif pick(0.2):
            e["use_tip_states"] = True
        if pick(0.2):
            e["use_path"] = True
        if c["model"] in ("HKY", "GTR") and pick(0.3):
            e["frequencies"] = "0.1,0.2,0.3,0.4"
        if pick(0.15):
            e["nexus"] = True
        if sub == "advi":
            if pick(0.4):
                e["variational"] = str(rng.choice(["meanfield", "fullrank"]))
            if pick(0.3):
                e["distribution"] = str(rng.choice(["Normal", "LogNormal", "Gamma"]))
            if pick(0.3):
                e["K_grad_samples"] = 3
            if pick(0.3):
                e["entropy"] = True
            if pick(0.2):
                e["divergence"] = "KLpq"
        if sub == "hmc":
            if pick(0.4):
                e["mass_matrix"] = str(rng.choice(["diagonal", "dense"]))
            if pick(0.4):
                e["adapt_mass_matrix"] = True
            if pick(0.4):
                e["adapt_step_size"] = str(rng.choice(["dualaveraging", "adaptive"]))
            if pick(0.3):
                e["split"] = True
            if pick(0.3):
                e["warmup"] = 10
        c["extras"] = e
        out.append(c)
    for i, c in enumerate(out):
        c["run"] = tier == "thorough" or i % 8 == 0
    # configurations without any prior object: a clock with a fixed rate and no tree prior under JC69 (nothing left to put a prior
    # on), and the Poisson tree likelihood (no alignment, no substitution model)
    for sub in ("advi", "map", "mcmc", "hmc"):
        for fixed in (True, False):
            out.append({"sub": sub, "model": "JC69", "C": 1, "I": False, "clock": "strict", "heights": "ratio", "prior": "no-tree-prior", "extras": ({"rate": 0.0033} if fixed else {}), "run": True})
        out.append({"sub": sub, "model": "JC69", "C": 1, "I": False, "clock": "strict", "heights": "ratio", "prior": "constant", "extras": {"poisson": True}, "run": True})
    # the input tree as a NEXUS file together with the switches that read it a second time (the root-to-tip regression): in every run
    for sub in ("advi", "map", "mcmc", "hmc"):
        for ex in ({"rate_init": "regression"}, {"heights_init": "regression"}, {"heights_init": "regression", "rate_init": "regression"}):
            out.append({"sub": sub, "model": "HKY", "C": 1, "I": False, "clock": "strict", "heights": ["ratio", "shift"][len(ex) % 2], "prior": "constant", "extras": dict(ex, nexus=True), "run": False})
    # the data set shipped with the repository (69 dated influenza sequences, a tree with tied internal node heights)
    for i in range(16 if tier == "quick" else 240):
        clock = str(rng.choice(["strict", "strict", "ucln"]))
        c = {"data": "flu", "sub": ["advi", "map", "mcmc", "hmc"][i % 4], "model": str(rng.choice(["JC69", "HKY", "GTR"])), "C": int(rng.choice([1, 4])), "I": False, "clock": clock,
             "heights": str(rng.choice(["ratio", "shift"])), "prior": str(rng.choice(["constant", "exponential", "skyride", "skygrid", "skyglide", "piecewise-constant", "bdsk"])), "extras": {}, "run": i % 4 == 0}
        if rng.random() < 0.3:
            c["extras"]["keep"] = True
        out.append(c)
    return out


def argv_for(case):
    f = _DATA["files"]
    if case.get("data") == "flu":
        f = dict(f, **_DATA["flu"])
    m = case["model"]
    aln = f["codon"] if m == "MG94" else (f["aa"] if m in ("LG", "WAG") else f["nuc"])
    e = case["extras"]
    a = [case["sub"], "-i", aln, "-t", f["nexus"] if e.get("nexus") else f["tree"], "-m", m]
    if e.get("poisson"):
        a = [case["sub"], "-t", f["tree"], "--poisson"]  # the Poisson tree likelihood takes the place of alignment and substitution model
    if case["C"] > 1:
        a += ["-C", str(case["C"])]
    if case["I"]:
        a += ["-I"]
    if case["clock"] != "none":
        a += ["--clock", case["clock"], "--heights", case["heights"]]
        pr = case["prior"]
        if pr in COALESCENTS:
            a += ["--coalescent", pr]
            if pr not in ("constant", "exponential", "skyride"):
                a += ["--grid", "4", "--cutoff", str(e.get("cutoff", 12.0))]
        elif pr == "bd-constant":
            a += ["--birth-death", "constant"]
        elif pr == "bdsk":
            a += ["--birth-death", "bdsk", "--grid", "3"]
    if case["sub"] in ("map", "mcmc"):
        a += ["--stem", os.path.join(_DATA["dir"], "out")]
    for k, v in e.items():
        if k in ("cutoff", "nexus", "poisson"):
            continue
        if k == "dates":
            a += ["--dates", _DATA["files"]["dates_csv"] if v == "csv" else "0"]
        elif k == "variational":
            a += ["-q", v]
        elif v is True:
            a += ["--" + k]
        else:
            a += ["--" + k, str(v)]
    return a


def run_cli(argv):
    """-> ('json', list) | ('rejected', reason)"""
    import torchtree.cli.cli as cli

    import torch

    out, err = io.StringIO(), io.StringIO()
    old = sys.argv
    sys.argv = ["torchtree-cli"] + argv
    # torchtree-cli is its own process and never sets the default dtype (float32), torchtree sets float64 before loading:
    # initial values the CLI derives from torch.finfo / float32 arithmetic must be the ones a user gets
    dtype = torch.get_default_dtype()
    torch.set_default_dtype(torch.float32)
    try:
        with contextlib.redirect_stdout(out), contextlib.redirect_stderr(err):
            cli.main()
    except SystemExit as e:
        if e.code not in (0, None):
            return "rejected", "exit:%s" % (err.getvalue().strip().splitlines()[-1][:100] if err.getvalue().strip() else e.code)
    except Exception as e:
        import traceback

        tb = traceback.extract_tb(e.__traceback__)
        where = [fr for fr in tb if "/torchtree/cli/" in fr.filename.replace(os.sep, "/")]
        return "rejected", "%s@%s" % (type(e).__name__, (os.path.basename(where[-1].filename)[:-3] + "." + where[-1].name) if where else "?")
    finally:
        sys.argv = old
        torch.set_default_dtype(dtype)
    text = out.getvalue()
    try:
        return "json", json.loads(text)
    except ValueError:
        return "rejected", "no-json"


def normalise(msg):
    msg = re.sub(r"/[^ '`]*/", "", str(msg))
    msg = re.sub(r"\d+\.\d+", "#", msg)
    return msg.strip().replace("\n", " ")[:110]


def option_key(case):
    e = case["extras"]
    return "%s|%s|C%d|I%d|%s|%s|%s|%s" % (case["sub"], case["model"], case["C"], case["I"], case["clock"], case["heights"], case["prior"], ",".join("%s=%s" % kv for kv in sorted(e.items())))


def run_case(case):
    import torch
    import logging

    V = []
    C = {"cli_runs": 1, "accepted": 0, "rejected": 0, "loaded": 0, "targets_evaluated": 0, "jacobian_accounts": 0, "jacobian_not_judged": 0, "initial_value_checks": 0,
         "subcommands": [case["sub"]], "rejections": [], "unknown_prior_classes": []}
    argv = argv_for(case)
    kind, payload = run_cli(argv)
    detail = {"argv": argv[0:1] + [os.path.basename(a) if a.startswith("/") else a for a in argv[1:]], "options": case}
    feat = "%s:%s:%s:%s" % (case["model"], case["clock"], case["prior"], case["heights"])
    if kind == "rejected":
        C["rejected"] += 1
        C["rejections"] = ["%s -> %s" % (key_of_rejection(case), payload)]
        return {"violations": V, "counters": C, "fingerprint": None, "sample": None}
    C["accepted"] += 1
    spec = payload
    # (a) accepted by torchtree: loads as torchtree.main loads it, no error records
    records = []

    class H(logging.Handler):
        def emit(self, rec):
            if rec.levelno >= logging.ERROR:
                records.append(rec.getMessage())

    h = H()
    logging.getLogger().addHandler(h)
    cwd = os.getcwd()
    os.chdir(_DATA["dir"])
    try:
        try:
            objs, dic = tt.load(spec)
        except Exception as e:
            mech = mechanism(case, "%s: %s" % (type(e).__name__, normalise(e)), records)
            V.append(tt.viol("C19:load:" + mech, "emitted configuration does not load: %s: %s [%s]" % (type(e).__name__, str(e)[:160], " ".join(detail["argv"])), **detail))
            return {"violations": V, "counters": C, "fingerprint": None, "sample": None}
        finally:
            logging.getLogger().removeHandler(h)
        C["loaded"] += 1
        if records:
            V.append(tt.viol("C19:load-logs-error:" + normalise(records[0]), "loading logged an error: %s" % records[0][:200], **detail))
            return {"violations": V, "counters": C, "fingerprint": None, "sample": None}
        check_loaded(case, spec, dic, V, C, detail, feat, torch)
    finally:
        os.chdir(cwd)
    return {"violations": V, "counters": C, "fingerprint": option_key(case), "sample": {"argv": detail["argv"]} if not case["extras"] else None}


def key_of_rejection(case):
    e = case["extras"]
    return "%s %s clock=%s prior=%s %s" % (case["sub"], case["model"], case["clock"], case["prior"], ",".join(sorted(e)))


def mechanism(case, msg, records):
    """mechanism signature of a load failure: exception text, plus the option that selects the failing builder"""
    m = msg
    if records:
        m = normalise(records[0]) + " <- " + m
    return m[:160]


def find_algorithm(dic):
    for i, o in dic.items():
        if type(o).__name__ in ("Optimizer", "MCMC", "HMC"):
            return o
    return None


def expand_leaves(p, acc, seen):
    """leaf Parameters below any parameter wrapper (concatenation, view, transformed) or model"""
    from torchtree import Parameter

    if id(p) in seen or p is None:
        return
    seen.add(id(p))
    if type(p) is Parameter:
        acc.append(p)
        return
    for attr in ("x", "parameter"):
        q = getattr(p, "__dict__", {}).get(attr) or getattr(p, "_parameters", {}).get(attr) if hasattr(p, "_parameters") else getattr(p, "__dict__", {}).get(attr)
        if q is not None:
            expand_leaves(q, acc, seen)
    cont = getattr(p, "_parameter_container", None)
    if cont is not None:
        for q in cont.params():
            expand_leaves(q, acc, seen)
    tr = getattr(p, "transform", None)
    if tr is not None and not hasattr(tr, "_parameters"):
        for v in vars(tr).values():
            if hasattr(v, "fire_parameter_changed"):
                expand_leaves(v, acc, seen)
    for d in ("_parameters", "_models"):
        for q in getattr(p, d, {}).values() if isinstance(getattr(p, d, None), dict) else []:
            expand_leaves(q, acc, seen)
    if hasattr(p, "_distributions"):
        expand_leaves(p._distributions, acc, seen)
    for attr in ("dict_parameters",):
        for q in getattr(p, attr, {}).values() if isinstance(getattr(p, attr, None), dict) else []:
            expand_leaves(q, acc, seen)


def leaf_parameters(model):
    acc = []
    expand_leaves(model, acc, set())
    return [p for p in acc if p.tensor.dtype.is_floating_point]


def check_loaded(case, spec, dic, V, C, detail, feat, torch):
    algo = find_algorithm(dic)
    if algo is None or "joint" not in dic:
        V.append(tt.viol("C19:no-algorithm", "emitted configuration has no Optimizer / MCMC element or no `joint`", **detail))
        return
    sub = case["sub"]
    name = type(algo).__name__
    if sub == "map":
        target = algo.loss
        if target is not dic["joint"]:
            V.append(tt.viol("C19:map-loss-is-not-the-joint", "the loss of the MAP optimiser is %s, not the constrained joint" % getattr(target, "id", None), **detail))
            return
    elif name == "Optimizer":
        target = getattr(algo.loss, "p", None)
    else:
        target = algo.joint
    if target is None:
        V.append(tt.viol("C19:no-target", "cannot find the density handed to the algorithm", **detail))
        return
    # (h) samplers and variational optimisers work on the unconstrained coordinates: the density they are handed is the joint *with*
    # the Jacobian terms (the object whose accounting (d) verifies), not the constrained joint
    if sub != "map" and "joint.jacobian" in dic:
        C["target_identity_checks"] = C.get("target_identity_checks", 0) + 1
        if target is not dic["joint.jacobian"]:
            V.append(tt.viol("C19:target-is-not-joint.jacobian:%s" % sub, "%s: the density handed to the %s is `%s', not `joint.jacobian' (the Jacobian terms of the constraining transforms are missing from the target) [%s]" % (
                sub, type(getattr(algo, "loss", algo)).__name__, getattr(target, "id", None), " ".join(detail["argv"])), **detail))
            return
    # (g) the substitution model is the one asked for: its free parameters are those of the documented model (K80 and SYM have equal,
    # fixed base frequencies; JC69 has nothing to estimate) - "targets the right density" starts with the right model
    FREE = {"JC69": set(), "K80": {"kappa"}, "HKY": {"kappa", "frequencies"}, "SYM": {"rates"}, "GTR": {"rates", "frequencies"}}
    if case["model"] in FREE:
        free = {k[len("substmodel."):-len(".unres")] for k in dic if str(k).startswith("substmodel.") and str(k).endswith(".unres")}
        C["model_definition_checks"] = C.get("model_definition_checks", 0) + 1
        if free != FREE[case["model"]]:
            V.append(tt.viol("C19:model-definition:%s:free-parameters" % case["model"], "-m %s: the emitted substitution model estimates %s, the model has %s free [%s]" % (
                case["model"], sorted(free) or "nothing", sorted(FREE[case["model"]]) or "nothing", " ".join(detail["argv"])), **detail))
            return
        if case["model"] in ("JC69", "K80", "SYM") and "substmodel.frequencies" in dic:
            f = dic["substmodel.frequencies"].tensor.detach().reshape(-1)
            if float((f - 0.25).abs().max()) > 1e-6:
                V.append(tt.viol("C19:model-definition:%s:frequencies" % case["model"], "-m %s has equal base frequencies, the emitted model starts from %s" % (case["model"], f.tolist()), **detail))
                return
    # (b) finite target and gradient at the initial point
    leaves = leaf_parameters(target)
    sampled = sampled_leaves(algo, dic, sub)
    for p in leaves:
        p.requires_grad = True
    try:
        val = target()
        val = val.sum()
        C["targets_evaluated"] += 1
        ok = bool(torch.isfinite(val))
        if ok and val.requires_grad:
            try:
                val.backward()
            except (NotImplementedError, RuntimeError) as e:
                # raised by the autograd engine while differentiating the emitted target
                V.append(tt.viol("C19:gradient-raises:%s:%s" % (type(e).__name__, normalise(e)[:70]), "back-propagating from the target of the emitted configuration raises %s: %s [%s]" % (type(e).__name__, str(e)[:120], " ".join(detail["argv"])), **detail))
                return
            bad = [p.id for p in leaves if p.grad is not None and not bool(torch.isfinite(p.grad).all())]
        else:
            bad = []
    except Exception as e:
        from ..worker import _blame

        if _blame(e) is None:
            raise
        V.append(tt.viol("C19:target-raises:%s:%s" % (type(e).__name__, _blame(e)), "evaluating the target of the emitted configuration raises %s: %s [%s]" % (type(e).__name__, str(e)[:150], " ".join(detail["argv"])), **detail))
        return
    if not ok:
        V.append(tt.viol("C19:target-not-finite:" + nonfinite_feature(case, dic, torch), "target density at the initial point is %s [%s]" % (float(val), " ".join(detail["argv"])), **detail))
        return
    subst_bad = [b for b in bad if b.startswith("substmodel") or b.startswith("srd06")]
    other_bad = [b for b in bad if b not in subst_bad]
    if other_bad:
        V.append(tt.viol("C19:gradient-not-finite:%s:%s" % (other_bad[0], prior_feature(case)), "gradient of the target w.r.t. %s is not finite at the initial point" % other_bad[0], **detail))
        return
    bad = subst_bad
    if bad:
        if repeated_eigenvalues(dic, torch):
            # mechanism: torch.linalg.eigh has no finite derivative at repeated eigenvalues, and the initial point of the
            # emitted configuration (equal frequencies / rates) makes the symmetrised rate matrix degenerate
            V.append(tt.viol("C19:gradient-not-finite:repeated-eigenvalues-of-the-rate-matrix-at-the-initial-point", "gradient of the target w.r.t. %s is NaN at the initial point: the rate matrix has repeated eigenvalues there [%s]" % (bad[0], " ".join(detail["argv"])), **detail))
        else:
            V.append(tt.viol("C19:gradient-not-finite:%s:%s" % (bad[0], prior_feature(case)), "gradient of the target w.r.t. %s is not finite at the initial point" % bad[0], **detail))
            return
    # (c) requested initial values
    nv = len(V)
    initial_values(case, dic, V, C, detail, torch)
    if len(V) > nv:
        return
    # (d) Jacobian accounting
    if sub != "map" and "joint.jacobian" in dic:
        jacobian_account(case, dic, V, C, detail, torch)
    # (f) the emitted configuration runs: every Runnable (optimiser / sampler / loggers) executes a few iterations
    if not V and case.get("run"):
        run_emitted(case, V, C, detail)
    # (e) the constraining transforms really constrain: with the declared bounds kept (--debug) every transformed
    # parameter stays inside them wherever its unconstrained leaves are moved
    if not V:
        constraints_respected(case, dic, V, C, detail, torch)


def sampled_leaves(algo, dic, sub):
    return []


def repeated_eigenvalues(dic, torch):
    for i, o in dic.items():
        if hasattr(o, "q") and hasattr(o, "frequencies") and hasattr(o, "p_t"):
            try:
                with torch.no_grad():
                    Q = o.q()
                    pi = o.frequencies
                    S = pi.sqrt().diag_embed() @ Q @ (1.0 / pi.sqrt()).diag_embed()
                    ev = torch.linalg.eigvalsh(0.5 * (S + S.transpose(-1, -2))).reshape(-1).sort()[0]
                if float((ev[1:] - ev[:-1]).min()) < 1e-9 * max(1.0, float(ev.abs().max())):
                    return True
            except Exception:
                continue
    return False


def prior_feature(case):
    e = case["extras"]
    flags = [k for k in ("coalescent_non_centered", "gmrf_integrated", "coalescent_temperature", "disable_time_aware", "cutoff", "dates", "keep", "heights_init", "root_height_init") if k in e]
    return "%s:%s:%s%s" % (case["clock"], case["prior"], case["heights"], (":" + "+".join(flags)) if flags else "")


def nonfinite_feature(case, dic, torch):
    """which component of the joint is not finite (mechanism key), plus the options that matter for it"""
    bad = []

    def rec(m):
        cont = getattr(m, "_distributions", None)
        if cont is None:
            return
        for c in cont.callables():
            if getattr(c, "_distributions", None) is not None:
                rec(c)
                continue
            try:
                v = c()
                if not bool(torch.isfinite(v).all()):
                    bad.append("%s(%s)" % (type(c).__name__, getattr(c, "id", None)))
            except Exception:
                bad.append("%s(raises)" % type(c).__name__)

    for root in ("joint.jacobian", "joint"):
        if root in dic:
            rec(dic[root])
            break
    e = case["extras"]
    if any(b.startswith("GMRF") for b in bad) and "tree" in dic and not e.get("disable_time_aware"):
        try:
            h = dic["tree"].node_heights.detach().reshape(-1)
            n = (h.numel() + 1) // 2
            ih = h[n:].sort()[0]
            if bool(((ih[1:] - ih[:-1]) == 0).any()):
                # mechanism: the time-aware GMRF weights its increments by the time between coalescent events; two internal
                # nodes at the same height give a zero duration and 0 * inf in the quadratic form
                return "time-aware-gmrf:tied-internal-node-heights-at-the-initial-point"
        except Exception:
            pass
    span = _DATA["truth"]["span"]
    try:
        span = float(dic["tree"].sampling_times.max())
    except Exception:
        pass
    cutoff = e.get("cutoff", 12.0 if case["prior"] in ("skygrid", "skyglide", "piecewise-constant", "piecewise-linear", "piecewise-exponential") else None)
    if cutoff is not None and cutoff < span and case["heights"] == "ratio":
        # mechanism: the root height is initialised at max(cutoff, span) = span, i.e. exactly on its lower bound
        return "root-height-initialised-on-its-lower-bound:cutoff-below-the-span-of-the-sampling-dates"
    return "%s:%s" % ("+".join(sorted(set(bad))[:3]) or "?", prior_feature(case))


def initial_values(case, dic, V, C, detail, torch):
    e = case["extras"]
    if case.get("data") == "flu":
        return  # the requested values are checked on the synthetic data, whose heights / dates the harness knows by construction
    T = _DATA["truth"]

    # tolerances: torchtree-cli works in single precision (it never sets the default dtype) and writes the unconstrained values
    # it derived there; "equal to those requested" is therefore judged to single precision through the constraining transform
    def near(a, b, tol=2e-6):
        a, b = np.asarray(a, dtype=float).reshape(-1), np.asarray(b, dtype=float).reshape(-1)
        return a.shape == b.shape and bool(np.all(np.abs(a - b) <= tol * np.maximum(1.0, np.abs(b))))

    def want(pid, expected, what, tol=2e-6):
        if pid not in dic:
            return
        C["initial_value_checks"] += 1
        got = dic[pid].tensor.detach().numpy()
        if not near(got, expected, tol):
            V.append(tt.viol("C19:initial-value:" + what, "%s requested, but %s starts at %s (expected %s)" % (what, pid, np.asarray(got).reshape(-1)[:4], np.asarray(expected).reshape(-1)[:4]), **detail))

    def regression_slope():
        """root-to-tip regression on the input tree (dates from the taxon names), by the harness: ordinary least squares in double precision"""
        names = T["names"]
        x = np.array([T["dates"][nm] for nm in names], dtype=float)
        y = np.array([T["root_height"] - (max(T["dates"].values()) - T["dates"][nm]) for nm in names], dtype=float)
        return float(np.polyfit(x, y, 1)[0])

    uses_regression = e.get("rate_init") == "regression" or (e.get("heights_init") == "regression" and "rate_init" not in e and "rate" not in e)
    if case["clock"] == "strict" and e.get("dates") is None:
        if uses_regression:
            want("branchmodel.rate", [regression_slope()], "--rate_init regression", tol=1e-4)
        elif "rate_init" in e:
            want("branchmodel.rate", [e["rate_init"]], "--rate_init")
    elif "rate_init" in e and e["rate_init"] != "regression" and case["clock"] == "strict" and e.get("heights_init") != "regression":
        want("branchmodel.rate", [e["rate_init"]], "--rate_init")
    if "rate" in e and case["clock"] == "strict":
        want("branchmodel.rate", [e["rate"]], "--rate")
    if "frequencies" in e:
        want("substmodel.frequencies", [float(x) for x in e["frequencies"].split(",")], "--frequencies")
    if "coalescent_init" in e and case["prior"] == "constant":
        want("coalescent.theta", [e["coalescent_init"]], "--coalescent_init")
    if case["clock"] == "none":
        if e.get("brlens_init") == "0.05" and not e.get("keep"):
            if "tree.blens" in dic:
                want("tree.blens", [0.05] * len(dic["tree.blens"].tensor), "--brlens_init value")
        if e.get("brlens_init") == "tree" or e.get("keep"):
            tree = dic.get("tree")
            if tree is not None:
                C["initial_value_checks"] += 1
                exp = expected_branch_lengths(dic)
                got = tree.branch_lengths().detach().numpy()
                if exp is not None and not near(got, exp, 1e-5):
                    V.append(tt.viol("C19:initial-value:branch-lengths-from-tree:%s" % ("keep" if e.get("keep") else "brlens_init=tree-without-keep"), "--keep / --brlens_init tree requested, branch lengths %s differ from the input tree %s" % (got[:4], exp[:4]), **detail))
    else:
        tree = dic.get("tree")
        if tree is None:
            return
        n = len(T["names"])
        if "root_height_init" in e and not (e.get("keep") or e.get("heights_init") == "tree") and e.get("dates") != "0":
            C["initial_value_checks"] += 1
            root = float(tree.node_heights[-1])
            if abs(root - e["root_height_init"]) > 1e-5:
                V.append(tt.viol("C19:initial-value:--root_height_init:" + case["heights"], "--root_height_init %s requested, the root starts at height %.8g" % (e["root_height_init"], root), **detail))
        if (e.get("keep") or e.get("heights_init") == "tree") and e.get("dates") != "0" and "root_height_init" not in e:
            C["initial_value_checks"] += 1
            exp = expected_heights(dic)
            got = tree.node_heights.detach().numpy()[n:]
            if not near(got, exp, 1e-5):
                V.append(tt.viol("C19:initial-value:heights-from-tree:" + case["heights"], "--keep / --heights_init tree requested, node heights %s differ from the input tree %s" % (got, exp), **detail))


WIRING = {"KeyError", "AttributeError", "TypeError", "NameError", "IndexError", "NotImplementedError", "ZeroDivisionError", "FileNotFoundError", "JSONParseError", "AssertionError",
          "UnboundLocalError", "ModuleNotFoundError", "ImportError"}
SHAPE_WORDS = ("size of tensor", "shape", "dimension", "expand", "broadcast", "must match", "sizes of tensors", "index")


def run_emitted(case, V, C, detail):
    """Numerical trouble *during* a run (an optimiser stepping out of a parameter's support, eigh failing on a matrix
    full of NaN) is not what the property speaks about (it speaks about the initial point) and is only counted;
    what is judged is the plumbing: a run that dies of a missing attribute / key / wrong type / shape mismatch /
    unimplemented method in a logger, sampler, operator, adaptor or the algorithm's own bookkeeping."""
    from ..work import shared

    res = shared.cli_config(case, [], run=True)
    r = res["run"]
    C["runs_started"] = C.get("runs_started", 0) + 1
    if r is None:
        return
    if r["ok"]:
        C["runs_completed"] = C.get("runs_completed", 0) + 1
        C.setdefault("algorithms_run", [])
        C["algorithms_run"] = sorted(set(C["algorithms_run"]) | {"%s:%s" % (case["sub"], r["algorithm"])})
        return
    exc, msg = r["exception"], r["message"].lower()
    if r.get("outside_support"):
        # the run has moved a parameter outside the support the CLI declares for it (the MAP optimiser works on the constrained
        # parameters directly): numerical trouble during the run, not plumbing
        C["runs_numerical_failure_not_judged"] = C.get("runs_numerical_failure_not_judged", 0) + 1
        C["numerical_failures"] = ["%s %s@%s (%s outside its declared support)" % (case["sub"], exc, r["where"], r["outside_support"])]
    elif r.get("nonfinite_state"):
        # a parameter of the model is NaN / inf / beyond 1e8 when the run dies (a diverged trajectory or optimiser step):
        # whatever is raised afterwards (typically an index error from a search over NaN times) is numerical trouble during the run
        C["runs_numerical_failure_not_judged"] = C.get("runs_numerical_failure_not_judged", 0) + 1
        C["numerical_failures"] = ["%s %s@%s (non-finite parameters)" % (case["sub"], exc, r["where"])]
    elif exc in WIRING or (exc == "RuntimeError" and any(w in msg for w in SHAPE_WORDS)):
        V.append(tt.viol("C19:run-raises:%s:%s:%s" % (case["sub"], exc, r["where"]), "the emitted configuration loads and has a finite target but running it for a few iterations raises %s in %s: %s [%s]" % (
            exc, r["where"], r["message"][:120], " ".join(detail["argv"])), **detail))
    else:
        C["runs_numerical_failure_not_judged"] = C.get("runs_numerical_failure_not_judged", 0) + 1
        C["numerical_failures"] = ["%s %s@%s" % (case["sub"], exc, r["where"])]


def constraints_respected(case, dic, V, C, detail, torch):
    kind, spec = run_cli(["--debug"] + argv_for(case))
    if kind != "json":
        return
    found = []

    def rec(o):
        if isinstance(o, dict):
            if "id" in o and any(k.startswith("@") for k in o):
                found.append((o["id"], o.get("@lower"), o.get("@upper"), o.get("@simplex")))
            for v in o.values():
                rec(v)
        elif isinstance(o, list):
            for v in o:
                rec(v)

    rec(spec)
    rng = np.random.default_rng(len(found) + 7)
    for pid, lo, hi, simplex in found:
        if pid not in dic or type(dic[pid]).__name__ != "TransformedParameter":
            continue
        leaves = leaf_parameters(dic[pid])
        saved = [p.tensor.detach().clone() for p in leaves]
        try:
            for trial in range(3):
                for p in leaves:
                    if p.id.endswith("unres"):
                        p.tensor = torch.tensor(rng.normal(0, 2.5, tuple(p.tensor.shape)))
                val = dic[pid].tensor.detach()
                C["constraint_checks"] = C.get("constraint_checks", 0) + 1
                bad = None
                if lo is not None and bool((val < lo).any()):
                    bad = "below its lower bound %s" % lo
                if hi is not None and bool((val > hi).any()):
                    bad = "above its upper bound %s" % hi
                if simplex and (abs(float(val.sum()) - 1) > 1e-9 or bool((val < 0).any())):
                    bad = "off the simplex"
                if bad:
                    V.append(tt.viol("C19:constraint-not-enforced:%s" % pid, "%s = %s is %s for some value of its unconstrained parameter" % (pid, val.reshape(-1)[:4].tolist(), bad), **detail))
                    return
        finally:
            for p, t in zip(leaves, saved):
                p.tensor = t


def expected_heights(dic):
    """node heights of the input tree in the order of the model's internal nodes (documented post-order indexing)"""
    from ..gen import phylo

    T = _DATA["truth"]
    names = [t.id for t in dic["taxa"]]
    case = {"newick": T["newick"], "names": names}
    root = phylo.ref_tree(case)
    n = len(names)
    h = np.zeros(n - 1)
    for nd in rt.postorder(root):
        if not nd.is_leaf():
            key = ",".join(sorted(x.name for x in rt.postorder(nd) if x.is_leaf()))
            h[nd.idx - n] = T["node_heights"][key]
    return h


def expected_branch_lengths(dic):
    from ..gen import phylo

    T = _DATA["truth"]
    names = [t.id for t in dic["taxa"]]
    case = {"newick": T["newick"], "names": names}
    root = phylo.ref_tree(case)
    n = len(names)
    bl = np.zeros(2 * n - 3)
    a, b = root.children
    for nd in rt.postorder(root):
        if nd.parent is None or nd.idx >= 2 * n - 3:
            continue
        bl[nd.idx] = nd.length
    lo = a if a.idx < b.idx else b
    if lo.idx < 2 * n - 3:
        bl[lo.idx] = a.length + b.length
    return np.maximum(bl, 1e-7)


def prior_components(model, out):
    cont = getattr(model, "_distributions", None)
    if cont is None:
        return
    for c in cont.callables():
        if getattr(c, "_distributions", None) is not None and type(c).__name__ == "JointDistributionModel":
            prior_components(c, out)
        else:
            out.append(c)


def variable_of(c, torch):
    """-> (key, tensor, is_simplex) for the random variable the density `c` is a density of; None for likelihood terms;
    'unknown' for a class the table does not know"""
    n = type(c).__name__
    if n in ("TreeLikelihoodModel", "PoissonTreeLikelihood"):
        return None
    if n in ("Distribution",):
        simplex = c.dist.__name__ == "Dirichlet"
        return (id(c.x), c.x.tensor, simplex)
    if n in ("MultivariateNormal", "CTMCScale", "ScaleMixtureNormal", "BayesianBridge"):
        return (id(c.x), c.x.tensor, False)
    if n in ("GMRF", "GMRFGammaIntegrated", "GMRFCovariate"):
        return (id(c.field), c.field.tensor, False)
    if n.endswith("CoalescentModel") or n in ("ConstantCoalescentIntegratedModel", "BDSKModel", "BirthDeathModel") or "Coalescent" in n:
        tree = c.tree_model
        k = tree.taxa_count
        return (("heights", id(tree)), tree.node_heights[..., k:], False)
    if n == "CompoundGammaDirichletPrior":
        return (("blens", id(c.tree_model)), c.tree_model.branch_lengths(), False)
    return "unknown"


def jacobian_account(case, dic, V, C, detail, torch):
    from torchtree import Parameter

    jj, j = dic["joint.jacobian"], dic["joint"]
    comps = []
    prior_components(j, comps)
    leaves = leaf_parameters(jj)
    for p in leaves:
        if p.tensor.grad_fn is not None or p.tensor.grad is not None:
            p.tensor = p.tensor.detach().clone()
        p.requires_grad = True
    index = {}
    start = 0
    for p in leaves:
        index[id(p)] = (start, start + p.tensor.numel())
        start += p.tensor.numel()
    total = start
    variables = {}
    for c in comps:
        v = variable_of(c, torch)
        if v is None:
            continue
        if v == "unknown":
            C["unknown_prior_classes"] = [type(c).__name__]
            C["jacobian_not_judged"] += 1
            return
        key, tensor, simplex = v
        variables.setdefault(key, (tensor, simplex, type(c).__name__))
    expected = 0.0
    prior_cols = np.zeros(total, dtype=bool)
    parts = {}
    for key, (tensor, simplex, cname) in variables.items():
        flat = tensor.reshape(-1)
        if not flat.requires_grad:
            continue  # a fixed quantity: no Jacobian
        rows = []
        for kk in range(flat.numel()):
            g = torch.autograd.grad(flat[kk], [p.tensor for p in leaves], retain_graph=True, allow_unused=True)
            rows.append(torch.cat([(gi if gi is not None else torch.zeros_like(p.tensor)).reshape(-1) for gi, p in zip(g, leaves)]).numpy())
        J = np.array(rows)
        cols = np.abs(J).sum(0) > 0
        if simplex:
            J = J[:-1]
        Jc = J[:, cols]
        if Jc.shape[0] != Jc.shape[1]:
            C["jacobian_not_judged"] += 1
            return
        prior_cols |= cols
        sign, logdet = np.linalg.slogdet(Jc) if Jc.size else (1.0, 0.0)
        parts[cname + ":" + str(Jc.shape[0])] = float(logdet)
        expected += float(logdet)
    # terms the CLI put into joint.jacobian
    terms = []
    cont = jj._distributions
    for c in cont.callables():
        if c is j:
            continue
        terms.append(c)
    with torch.no_grad():
        actual_terms = {}
        for t in terms:
            val = float(t().sum())
            tl = set()
            for p in leaf_parameters(t):
                if id(p) in index:
                    a, b = index[id(p)]
                    tl.update(range(a, b))
            carries_prior = any(prior_cols[i] for i in tl) if tl else False
            actual_terms[getattr(t, "id", type(t).__name__)] = (val, carries_prior)
        total_actual = float(jj().sum()) - float(j().sum())
    summed = sum(v for v, _ in actual_terms.values())
    C["jacobian_accounts"] += 1
    if abs(total_actual - summed) > 1e-8 * max(1.0, abs(summed)):
        V.append(tt.viol("C19:jacobian:joint-is-not-joint-plus-terms", "joint.jacobian() - joint() = %.10g but its Jacobian terms sum to %.10g" % (total_actual, summed), **detail))
        return
    actual = sum(v for v, cp in actual_terms.values() if cp)
    if abs(actual - expected) > 1e-7 * max(1.0, abs(expected)):
        # mechanism: which term is superfluous / missing
        superfluous = [i for i, (v, cp) in actual_terms.items() if cp and abs((actual - v) - expected) <= 1e-7 * max(1.0, abs(expected))]
        tag = ("superfluous-term:" + superfluous[0]) if superfluous else ("mismatch:" + prior_feature(case))
        V.append(tt.viol("C19:jacobian:" + tag, "Jacobian terms on prior-carrying variables sum to %.10g, automatic differentiation of those variables gives %.10g (terms %s; AD parts %s) [%s]"
                         % (actual, expected, {k: round(v, 6) for k, (v, cp) in actual_terms.items()}, {k: round(v, 6) for k, v in parts.items()}, " ".join(detail["argv"])), **detail))
