"""C08 - coalescent priors equal the Kingman density of their demographic function.

Reference-model monitor: simulated genealogies (valid w.r.t. lineage availability), height vectors handed over in
random order, every coalescent model built from JSON (data form `times/events` and tree form) compared with the
piecewise exact integration of vt.ref.kingman (mpmath, 50 digits) written from the documented N(t);
metamorphic relations between models (all pieces equal = constant, grid beyond the root = constant, scaling law)."""
from __future__ import annotations

import numpy as np

from .. import tt
from ..gen import models as gm
from ..gen import phylo
from ..ref import kingman as kg
from ..ref import tree as rt

PROPERTY = "C08"
LEVEL = "exploration"
RULE = ("cases = model {constant, exponential, skyride, skygrid, piecewise-linear, piecewise-exponential} x n in 2..50 x sampling scheme "
        "{isochronous, serial distinct, serial with ties, two clusters} x grid style {regular, irregular, before first coalescence, beyond "
        "the root, on a sampling time} x entry point {times/events data, tree model} x batch; height vector randomly permuted; "
        "non-trivial = n >= 3; distinct by (model, n, scheme, grid style, entry, seed)")
ASSUMPTIONS = [
    "documented N(t): constant theta; theta*exp(-g t); skyride theta_k on the k-th inter-coalescent interval; skygrid theta_k on [g_{k-1},g_k), last value beyond the grid; piecewise-linear between grid points (0,g_0,...) and constant beyond",
    "growth rate g = 0 is documented as unsupported and not generated (rates down to 1e-30 / tree height are)",
    "the soft (temperature) skygrid is an approximation by design and is not compared",
    "piecewise-exponential has no documented N(t): it is compared with the skygrid in the limit of vanishing growth only",
]
BUDGET = {"quick": 75, "thorough": 800}
ROUNDS = {"thorough": 16}
FLOORS = {"float32_default_evaluations": {"quick": 100, "thorough": 1000}, "after_update_comparisons": {"quick": 400, "thorough": 4000}, "batched_heights_rows": {"quick": 300, "thorough": 3000}, "reference_comparisons": {"quick": 800, "thorough": 8000}, "metamorphic_checks": {"quick": 500, "thorough": 5000},
          "models": 6, "schemes": 4, "permuted": 300, "batched_rows": 100, "grids_given_by_cutoff": 40}

MODELS = ["constant", "exponential", "skyride", "skygrid", "linear", "piecewise-exponential"]


def cases(tier, seed):
    rng = np.random.default_rng([seed, 8])
    n = {"quick": 1100, "thorough": 12000}[tier]
    out = []
    w = ["constant", "exponential", "exponential", "skyride", "skyride", "skygrid", "skygrid", "skygrid", "linear", "linear", "linear"]
    for i in range(n):
        m = w[i % len(w)]
        nt = int(rng.choice([2, 3, 4, 5, 6, 8, 12, 20, 35, 50]))
        out.append({"model": m, "n": nt, "scheme": str(rng.choice(["iso", "serial", "ties", "clusters", "serial", "offset"])),
                    "grid_style": str(rng.choice(["regular", "irregular", "early", "beyond-root", "on-sampling-time"])),
                    "entry": str(rng.choice(["data", "data", "tree"])), "batch": int(rng.choice([0, 0, 0, 2, 3])),
                    "seed": int(rng.integers(2**31))})
    for i, c in enumerate(out):
        if i % 17 == 3:
            c["extreme_theta"] = [1e7, 1e-7][i % 2]
            if c["model"] in ("skyride", "skygrid", "linear"):
                c["n"] = int([35, 50][(i // 17) % 2])
    for c in out:
        if c["scheme"] == "offset":
            c["entry"] = "data"  # a tree model measures heights from its most recent tip; the times/events form takes any times
    # exponential model with a population that was larger in the past by more than the float range (growth * time below -709): N(t) does not
    # fit a double, the density (log N and the integral of 1/N) does
    for i in range(24 if tier == "quick" else 200):
        out.append({"model": "exponential", "n": int(rng.choice([2, 3, 5, 8, 20])), "scheme": str(rng.choice(["iso", "serial", "ties"])), "grid_style": "regular",
                    "entry": str(rng.choice(["data", "tree"])), "batch": int(rng.choice([0, 0, 2])), "seed": int(rng.integers(2**31)), "steep_decline": float(rng.uniform(720.0, 5000.0))})
    # ... and with a growth rate next to zero (where optimisers and samplers pass through: the CLI puts a Laplace(0, 1) prior on it): the closed
    # form (exp(g t1) - exp(g t0)) / (theta g) must not cancel
    for i in range(20 if tier == "quick" else 160):
        out.append({"model": "exponential", "n": int(rng.choice([2, 3, 5, 8, 20])), "scheme": str(rng.choice(["iso", "serial", "ties"])), "grid_style": "regular",
                    "entry": str(rng.choice(["data", "tree"])), "batch": int(rng.choice([0, 0, 2])), "seed": int(rng.integers(2**31)),
                    "tiny_growth": float([1e-8, -1e-10, 1e-12, -1e-13, 1e-15, -1e-17, 1e-20, -1e-30][i % 8])})
    for i in range(6 if tier == "quick" else 40):
        out.append({"model": "piecewise-exponential", "n": int(rng.integers(3, 12)), "scheme": "serial", "grid_style": "regular",
                    "entry": "data", "batch": 0, "seed": int(rng.integers(2**31))})
    return out


def sampling(rng, n, scheme):
    if scheme == "iso":
        return [0.0] * n
    if scheme == "serial":
        v = rng.uniform(0, 5, n)
    elif scheme == "ties":
        v = rng.choice([0.0, 0.7, 1.9, 4.2], n)
    else:
        v = np.concatenate([rng.uniform(0, 0.2, n // 2), 6 + rng.uniform(0, 0.2, n - n // 2)])
    v = np.asarray(v, dtype=float)
    v[int(rng.integers(n))] = 0.0
    v = v - v.min()
    if scheme == "offset":
        v = v + float(rng.uniform(0.3, 3.0))  # no sample at time 0: the most recent tip is older than the origin of time
    return v.tolist()


def make_grid(rng, style, G, s_times, c_times):
    root = max(c_times)
    first = min(c_times)
    if style == "regular":
        g = np.linspace(0, root * float(rng.uniform(0.5, 1.2)), G + 1)[1:]
    elif style == "irregular":
        g = np.sort(rng.uniform(0, root * 1.1, G))
    elif style == "early":
        g = np.sort(np.concatenate([rng.uniform(0, first, max(G // 2, 1)), rng.uniform(first, root, G - max(G // 2, 1))]))[:G]
    elif style == "beyond-root":
        k = max(G // 2, 1)
        g = np.sort(np.concatenate([rng.uniform(0, root, G - k), root * (1.0 + rng.uniform(0.01, 2.0, k))]))
    else:
        g = np.sort(rng.uniform(0, root * 1.1, G))
        pos = [x for x in s_times if x > 0]
        if pos:
            g[int(rng.integers(G))] = float(rng.choice(pos))
            g = np.sort(g)
    g = np.unique(np.maximum(g, 1e-6 * max(root, 1e-3)))
    # a grid point exactly on a coalescent time leaves N(t_c) undefined (measure zero): move it off
    for i in range(len(g)):
        while any(abs(g[i] - x) <= 1e-9 * max(root, 1e-3) for x in c_times):
            g[i] = g[i] * (1.0 + 1e-3) + 1e-6 * root
    g = np.unique(g)
    while len(g) < G:  # keep the requested number of distinct grid points
        g = np.unique(np.concatenate([g, [g[-1] * (1.0 + float(rng.uniform(0.05, 0.5)))]]))
    return g.tolist()


def genealogy_newick(rng, s_times, c_times):
    """Random genealogy consistent with the event times -> (newick without lengths, names, node heights by clade)."""
    n = len(s_times)
    names = ["t%d" % i for i in range(n)]
    ev = sorted([(t, 0, i) for i, t in enumerate(s_times)] + [(t, 1, -1) for t in c_times])
    active = []
    for t, kind, i in ev:
        if kind == 0:
            nd = rt.Node(names[i])
            nd.leaf = i
            nd.height = t
            active.append(nd)
        else:
            a = active.pop(int(rng.integers(len(active))))
            b = active.pop(int(rng.integers(len(active))))
            nd = rt.Node()
            nd.children = [a, b] if rng.random() < 0.5 else [b, a]
            a.parent = nd
            b.parent = nd
            nd.height = t
            active.append(nd)
    return active[0], names


def build(case):
    """All numbers of the case, derived from its seed (kept in the violation detail for replay reading)."""
    rng = np.random.default_rng(case["seed"])
    n = case["n"]
    s = sampling(rng, n, case["scheme"])
    scale = float(gm.loguniform(rng, 0.05, 50.0))
    c = kg.simulate(rng, s, scale)
    m = case["model"]
    B = case["batch"]
    d = {"sampling": s, "coalescent": c, "scale": scale}
    T = max(c)

    def thetas(k, rows=None):
        shape = (k,) if not rows else (rows, k)
        v = gm.loguniform(rng, 1e-2, 1e3, shape)
        if case.get("extreme_theta"):
            v = v * float(case["extreme_theta"])  # population sizes around 1e7 / 1e-7: products of many of them leave the float range
        return v.tolist()

    if m == "constant":
        d["theta"] = thetas(1, B)
    elif m == "exponential":
        d["theta"] = thetas(1, B)
        mag = float(gm.loguniform(rng, 1e-3, 20.0)) / T
        gaps = np.diff(np.sort(np.array(s + c)))
        gaps = gaps[gaps > 0]
        mag = max(mag, 1e-6 / max(gaps.min(), 1e-12)) if len(gaps) else mag
        mag = min(mag, 600.0 / T)
        sign = -1.0 if rng.random() < 0.5 else 1.0
        if case.get("steep_decline"):
            sign, mag = -1.0, float(case["steep_decline"]) / T
        if case.get("tiny_growth"):
            sign, mag = float(np.sign(case["tiny_growth"])), abs(float(case["tiny_growth"])) / T
        g = [sign * mag]
        d["growth"] = [[x * float(rng.uniform(0.5, 1.0))] for x in g * B] if B else g
    elif m == "skyride":
        d["theta"] = thetas(n - 1, B)
    else:
        G = int(rng.integers(1, 9))
        d["grid"] = make_grid(rng, case["grid_style"], G, s, c)
        G = len(d["grid"])
        d["theta"] = thetas(G + 1, B)
        if not B and G >= 2 and rng.random() < 0.15:
            k = int(rng.integers(0, G))  # an exactly flat piece (two adjacent values equal)
            d["theta"][k + 1] = d["theta"][k]
        if m == "piecewise-exponential":
            d["growth"] = (rng.normal(0, 1.0 / T, G + 1)).tolist()
    # order in which the heights are handed over
    d["perm_s"] = rng.permutation(n).tolist()
    d["perm_c"] = rng.permutation(n - 1).tolist()
    return d


def demography(m, d, row=None):
    th = d["theta"] if row is None else d["theta"][row]
    if m == "constant":
        return kg.constant(th[0]), False
    if m == "exponential":
        g = d["growth"] if row is None else d["growth"][row]
        return kg.exponential(th[0], g[0]), False
    if m == "skyride":
        return kg.skyride(th, d["coalescent"]), True
    if m == "skygrid":
        return kg.skygrid(th, d["grid"]), False
    if m == "linear":
        return kg.piecewise_linear(th, d["grid"]), False
    raise ValueError(m)


TYPE = {"constant": "ConstantCoalescentModel", "exponential": "ExponentialCoalescentModel", "skyride": "PiecewiseConstantCoalescentModel",
        "skygrid": "PiecewiseConstantCoalescentGridModel", "linear": "PiecewiseLinearCoalescentGridModel",
        "piecewise-exponential": "PiecewiseExponentialCoalescentGridModel"}


_USED_CUTOFF = [0]


def model_json(m, d, entry, s=None, c=None, id_="coal", theta=None, grid=None, growth=None, perm=True):
    s = d["sampling"] if s is None else s
    c = d["coalescent"] if c is None else c
    theta = d["theta"] if theta is None else theta
    j = {"id": id_, "type": TYPE[m], "theta": gm.param(id_ + ".theta", theta, dtype="torch.float64")}
    if m in ("exponential", "piecewise-exponential"):
        j["growth"] = gm.param(id_ + ".growth", d["growth"] if growth is None else growth, dtype="torch.float64")
    if m in ("skygrid", "linear", "piecewise-exponential"):
        gvals = d["grid"] if grid is None else grid
        g_ = np.asarray(gvals, dtype=float)
        even = g_.ndim == 1 and len(g_) >= 1 and np.allclose(g_, np.linspace(0, g_[-1], len(g_) + 1)[1:], rtol=1e-15, atol=0)
        if even and m in ("skygrid", "linear") and int(1e6 * g_[-1]) % 2 == 0:
            # an evenly spaced grid written the way torchtree-cli writes it: by its last point only
            j["cutoff"] = float(g_[-1])
            _USED_CUTOFF[0] += 1
        else:
            j["grid"] = gm.param(id_ + ".grid", gvals, dtype="torch.float64")
    if entry == "data":
        ps = d["perm_s"] if perm else list(range(len(s)))
        pc = d["perm_c"] if perm else list(range(len(c)))
        times = [s[i] for i in ps] + [c[i] for i in pc]
        events = [1] * len(s) + [0] * len(c)
        if perm:
            # interleave sampling and coalescent entries as well: `events` says which is which
            order = np.random.default_rng(len(times) * 7919 + int(1e6 * times[-1]) % 1000).permutation(len(times)).tolist()
            times = [times[i] for i in order]
            events = [events[i] for i in order]
        j["times"] = times
        j["events"] = events
        return [j]
    raise ValueError(entry)


def tree_entry(case, d, m, rng, heights_rows=None):
    """Tree-model entry: a random genealogy with these event times; internal heights supplied through the
    internal_heights parameter in the documented (post-order) index order."""
    root, names = genealogy_newick(rng, d["sampling"], d["coalescent"])
    n = len(names)
    perm = rng.permutation(n).tolist()
    taxa_names = [names[i] for i in perm]
    tcase = {"newick": rt.to_newick(root, lengths=False), "names": taxa_names, "tree": "time",
             "dates": {names[i]: d["sampling"][i] for i in range(n)}}
    ref_root = phylo.ref_tree(tcase)
    # map heights by clade
    by_clade = {}
    for nd in rt.postorder(root):
        by_clade[frozenset(x.name for x in rt.postorder(nd) if x.is_leaf())] = nd.height
    ih = [None] * (n - 1)
    for nd in rt.postorder(ref_root):
        if not nd.is_leaf():
            ih[nd.idx - n] = by_clade[frozenset(x.name for x in rt.postorder(nd) if x.is_leaf())]
    tree = {"id": "tree", "type": "TimeTreeModel", "newick": tcase["newick"], "taxa": "taxa",
            "internal_heights": gm.param("tree.heights", ih, dtype="torch.float64")}
    return [phylo.taxa_json(tcase), tree], ih


def run_case(case):
    import torch

    V = []
    m = case["model"]
    C = {"reference_comparisons": 0, "metamorphic_checks": 0, "permuted": 0, "batched_rows": 0, "models": [m], "schemes": [case["scheme"]],
         "entries": [case["entry"]], "grid_styles": [case["grid_style"]] if m in ("skygrid", "linear") else []}
    d = build(case)
    rng = np.random.default_rng(case["seed"] + 1)
    B = case["batch"]
    n = case["n"]
    detail = {"case": case, "numbers": {k: d[k] for k in d if k not in ("perm_s", "perm_c")}}

    def lib_value(spec, what):
        objs, dic = tt.load(spec)
        val = tt.as_np(dic["coal"](), "C08:not-a-tensor:" + m, what)
        return val, dic

    if m == "piecewise-exponential":
        # no documented N(t); known to decline every input.  If it ever returns, compare with the skygrid limit.
        try:
            dd = dict(d)
            dd["growth"] = [1e-9 * (1 if i % 2 else -1) for i in range(len(d["theta"]))]
            val, _ = lib_value(model_json(m, dd, "data"), "log density")
            ref, _ = lib_value(model_json("skygrid", d, "data"), "log density")
            C["metamorphic_checks"] += 1
            if abs(float(val.reshape(-1)[0]) - float(ref.reshape(-1)[0])) > 1e-5 * max(1.0, abs(float(ref.reshape(-1)[0]))):
                V.append(tt.viol("C08:piecewise-exponential:zero-growth-limit", "piecewise-exponential with vanishing growth %.12g differs from the skygrid %.12g" % (float(val.reshape(-1)[0]), float(ref.reshape(-1)[0])), **detail))
        except Exception as e:
            from ..worker import _blame

            w = _blame(e)
            if w is None:
                raise
            V.append(tt.viol("C08:piecewise-exponential:raises:%s" % type(e).__name__, "PiecewiseExponentialCoalescentGridModel cannot be evaluated: %s: %s" % (type(e).__name__, str(e)[:160]), **detail))
        return {"violations": V, "counters": C, "fingerprint": None, "sample": None}

    def batched_genealogies(dic):
        """the distribution object directly with a batch of genealogies (rows with their own coalescent times) and batched theta"""
        if not (B and m in ("constant", "exponential", "skyride", "skygrid", "linear") and not V):
            return
        s_ = d["sampling"]
        cs = [d["coalescent"]] + [kg.simulate(rng, s_, float(gm.loguniform(rng, 0.3, 3.0)) * d.get("scale", 1.0)) for _ in range(B - 1)]
        hs = torch.tensor([list(s_) + list(cb) for cb in cs], dtype=torch.float64)
        try:
            vals = tt.as_np(dic["coal"].distribution().log_prob(hs), "C08:not-a-tensor:" + m).reshape(-1)
        except Exception as e:
            from ..worker import _blame

            if _blame(e) is None:
                raise
            vals = None
            C["batched_heights_declined"] = 1
        if vals is not None and vals.shape[0] == B:
            for r in range(B):
                dr = dict(d)
                dr["coalescent"] = cs[r]
                if m in ("skygrid", "linear") and any(abs(g - t) < 1e-9 for g in d["grid"] for t in cs[r]):
                    continue
                demo, left = demography(m, dr, r)
                ref = float(kg.log_density(s_, cs[r], demo, left))
                if not np.isfinite(ref):
                    C["reference_not_finite_not_judged"] = C.get("reference_not_finite_not_judged", 0) + 1  # (the density itself is beyond the range of a double)
                    continue
                C["reference_comparisons"] += 1
                C["batched_heights_rows"] = C.get("batched_heights_rows", 0) + 1
                if not np.isfinite(vals[r]) or abs(vals[r] - ref) > 1e-9 * max(1.0, abs(ref)):
                    V.append(tt.viol("C08:value:%s:batched-heights" % m, "%s with a batch of %d genealogies: row %d has log density %.15g, Kingman reference %.15g" % (m, B, r, vals[r], ref), row=r, **detail))
                    break
    # ---- library value through the chosen entry point
    if case["entry"] == "tree" and not (B and m in ("exponential",)):
        spec_tree, ih = tree_entry(case, d, m, rng)
        j = {"id": "coal", "type": TYPE[m], "theta": gm.param("coal.theta", d["theta"], dtype="torch.float64"), "tree_model": "tree"}
        if m == "exponential":
            j["growth"] = gm.param("coal.growth", d["growth"], dtype="torch.float64")
        if m in ("skygrid", "linear"):
            j["grid"] = gm.param("coal.grid", d["grid"], dtype="torch.float64")
        spec = spec_tree + [j]
    else:
        spec = model_json(m, d, "data")
        C["permuted"] += 1
    try:
        val, dic = lib_value(spec, "log density")
    except Exception as e:
        from ..worker import _blame

        if B and _blame(e) is not None:
            # a batched shape the model declines (fails with an error, returns no number): accepted, counted
            C["batched_declined"] = 1
            C["declined_models"] = [m]
            try:
                _, dic_ = tt.load(spec)
                batched_genealogies(dic_)
            except tt.SubjectError:
                raise
            return {"violations": V, "counters": C, "fingerprint": None, "sample": None}
        raise
    rows = list(range(B)) if B else [None]
    exp_shape = (B, 1) if B else (1,)
    if tuple(val.shape) != exp_shape:
        V.append(tt.viol("C08:shape:" + m, "log density has shape %s, expected %s" % (val.shape, exp_shape), **detail))
        return {"violations": V, "counters": C, "fingerprint": None, "sample": None}
    refs = []
    for r in rows:
        demo, left = demography(m, d, r)
        ref = float(kg.log_density(d["sampling"], d["coalescent"], demo, left))
        refs.append(ref)
        x = float(val[r, 0]) if r is not None else float(val[0])
        if not np.isfinite(ref):
            C["reference_not_finite_not_judged"] = C.get("reference_not_finite_not_judged", 0) + 1
            continue
        C["reference_comparisons"] += 1
        if r is not None:
            C["batched_rows"] += 1
        if not np.isfinite(x) or abs(x - ref) > 1e-9 * max(1.0, abs(ref)):
            V.append(tt.viol("C08:value:%s:%s" % (m, case["entry"]), "%s (%s entry, n=%d, %s%s): log density %.15g, Kingman reference %.15g" % (
                m, case["entry"], n, case["scheme"], ", grid " + case["grid_style"] if m in ("skygrid", "linear") else "", x, ref), row=r, **detail))
            break
    batched_genealogies(dic)
    # ---- the distribution object directly, heights in another order: same value
    if not B:
        s, c = d["sampling"], d["coalescent"]
        hs = torch.tensor([s[i] for i in rng.permutation(n)] + [c[i] for i in rng.permutation(n - 1)], dtype=torch.float64)
        dist = dic["coal"].distribution()
        v2 = float(tt.as_np(dist.log_prob(hs), "C08:not-a-tensor:" + m).reshape(-1)[0])
        C["permuted"] += 1
        C["reference_comparisons"] += 1
        # the same call (a distribution holding float64 tensors, float64 heights) while the process-wide default dtype is float32 - the
        # library used as a library, the state its own tests run in: what log_prob allocates itself follows its inputs, not the default
        if case["seed"] % 2 == 0:
            old_dt = torch.get_default_dtype()
            torch.set_default_dtype(torch.float32)
            try:
                v32 = float(tt.as_np(dist.log_prob(hs), "C08:not-a-tensor:" + m).reshape(-1)[0])
            finally:
                torch.set_default_dtype(old_dt)
            C["float32_default_evaluations"] = 1
            if not abs(v32 - v2) <= 1e-12 * max(1.0, abs(v2)):
                V.append(tt.viol("C08:value:%s:float32-default-dtype" % m, "%s: log_prob of float64 heights gives %.15g while the default dtype is float32, %.15g while it is float64" % (m, v32, v2), **detail))
        if abs(v2 - refs[0]) > 1e-9 * max(1.0, abs(refs[0])) and m != "skyride":
            V.append(tt.viol("C08:permutation:" + m, "distribution().log_prob on a permuted height vector gives %.15g, reference %.15g" % (v2, refs[0]), **detail))
        if m == "skyride" and abs(v2 - refs[0]) > 1e-9 * max(1.0, abs(refs[0])):
            V.append(tt.viol("C08:permutation:" + m, "distribution().log_prob on a permuted height vector gives %.15g, reference %.15g" % (v2, refs[0]), **detail))
        # ---- after an update of one parameter through the public interface the model is that of the updated N(t)
        rng_u = np.random.default_rng(case["seed"] + 17)
        d2 = dict(d)
        for _ in range(2):
            names = ["theta"] + (["growth"] if m == "exponential" else []) + (["grid"] if m in ("skygrid", "linear") and "coal.grid" in dic else [])
            nm = names[int(rng_u.integers(len(names)))]
            if nm == "theta":
                d2["theta"] = [float(x * np.exp(rng_u.normal(0, 0.7))) for x in d2["theta"]]
            elif nm == "growth":
                d2["growth"] = [float(d2["growth"][0] * rng_u.uniform(0.3, 3.0))]
            else:
                d2["grid"] = [float(x * f) for x, f in zip(d2["grid"], [rng_u.uniform(0.8, 1.25)] * len(d2["grid"]))]
            dic["coal." + nm].tensor = torch.tensor(d2[nm], dtype=torch.float64)
            v3 = float(tt.as_np(dic["coal"](), "C08:not-a-tensor:" + m).reshape(-1)[0])
            demo2, left2 = demography(m, d2)
            ref3 = float(kg.log_density(d2["sampling"], d2["coalescent"], demo2, left2))
            C["after_update_comparisons"] = C.get("after_update_comparisons", 0) + 1
            if not np.isfinite(v3) or abs(v3 - ref3) > 1e-9 * max(1.0, abs(ref3)):
                V.append(tt.viol("C08:after-update:%s:%s" % (m, nm), "%s after assigning a new %s: log density %.15g, Kingman reference of the updated model %.15g" % (m, nm, v3, ref3), updated=nm, new_value=d2[nm], **detail))
                break
        # ---- metamorphic relations on the library alone
        th0 = float(gm.loguniform(rng, 1e-2, 1e3))
        const_val, _ = lib_value(model_json("constant", d, "data", theta=[th0]), "constant")
        const_val = float(const_val.reshape(-1)[0])
        if m in ("skyride", "skygrid", "linear"):
            k = len(d["theta"])
            v, _ = lib_value(model_json(m, d, "data", theta=[th0] * k), "all pieces equal")
            C["metamorphic_checks"] += 1
            if abs(float(v.reshape(-1)[0]) - const_val) > 1e-9 * max(1.0, abs(const_val)):
                V.append(tt.viol("C08:all-pieces-equal:" + m, "%s with all pieces equal (%.6g) gives %.15g, the constant model %.15g" % (m, th0, float(v.reshape(-1)[0]), const_val), **detail))
        if m == "skygrid":
            T = max(c)
            k = len(d["theta"])
            far = [T * (1.5 + i) for i in range(k - 1)]
            th = [th0] + gm.loguniform(rng, 1e-2, 1e3, k - 1).tolist()
            v, _ = lib_value(model_json(m, d, "data", theta=th, grid=far), "grid beyond the root")
            C["metamorphic_checks"] += 1
            if abs(float(v.reshape(-1)[0]) - const_val) > 1e-9 * max(1.0, abs(const_val)):
                V.append(tt.viol("C08:grid-beyond-root:" + m, "skygrid with every grid point beyond the root gives %.15g, the constant model with theta_0 %.15g" % (float(v.reshape(-1)[0]), const_val), **detail))
        # scaling law: times, population sizes (and grid) times k, growth / k  => log density - (n-1) log k
        kf = float(gm.loguniform(rng, 1e-2, 1e2))
        d2 = dict(d)
        d2["sampling"] = [x * kf for x in s]
        d2["coalescent"] = [x * kf for x in c]
        d2["theta"] = [x * kf for x in d["theta"]]
        if "grid" in d:
            d2["grid"] = [x * kf for x in d["grid"]]
        if "growth" in d:
            d2["growth"] = [x / kf for x in d["growth"]]
        v, _ = lib_value(model_json(m, d2, "data"), "scaled")
        C["metamorphic_checks"] += 1
        base = float(val[0])
        expect = base - (n - 1) * np.log(kf)
        if abs(float(v.reshape(-1)[0]) - expect) > 1e-8 * max(1.0, abs(expect)):
            V.append(tt.viol("C08:scaling-law:" + m, "scaling times and sizes by %.4g shifts the log density by %.12g, expected %.12g" % (kf, float(v.reshape(-1)[0]) - base, -(n - 1) * np.log(kf)), **detail))
    fp = "%s|%d|%s|%s|%s|%d" % (m, n, case["scheme"], case["grid_style"] if m in ("skygrid", "linear") else "-", case["entry"], case["seed"]) if n >= 3 else None
    sample = None
    if n <= 6:
        sample = {"case": case, "sampling": d["sampling"], "coalescent": d["coalescent"], "theta": d["theta"], "grid": d.get("grid"), "library": val.tolist(), "reference": refs}
    C["grids_given_by_cutoff"] = _USED_CUTOFF[0]
    _USED_CUTOFF[0] = 0
    return {"violations": V, "counters": C, "fingerprint": fp, "sample": sample}
