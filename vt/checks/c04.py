"""C04 - transition probabilities are exp(Qt) of a properly normalised rate matrix.

Reference-model monitor: every generated (model, parameters, t) is evaluated by the library
(model built from JSON) and by scipy.linalg.expm on (a) the library's own q() normalised outside,
(b) the independently built reference Q.  The identities the statement lists are asserted on the
library's own output."""
from __future__ import annotations

import hashlib

import numpy as np

from .. import tt
from ..gen import models as gm
from ..ref import ctmc

PROPERTY = "C04"
LEVEL = "exploration"
RULE = ("cases = (substitution model kind x random parameters x vector of t values x batch shape); "
        "non-trivial = non-JC-like case (unequal frequencies or rates) with at least one t>0; distinct by "
        "(kind, rounded parameters)")
ASSUMPTIONS = [
    "scipy.linalg.expm and a numpy symmetrised eigen-decomposition are the trusted references; a comparison is judged only when the two references agree to 1e-10",
    "LG/WAG rate and frequency tables are taken as data and pinned by SHA-256 at the baseline commit (their provenance from the published matrices is not re-derived)",
    "frequencies are floored at 1e-4 (1e-3 for codon models): below that the symmetrisation is ill-conditioned and no tolerance would be meaningful",
    "MG94 exchangeability for codons differing at more than one position is 1, as the repository's own test pins it down",
]
BUDGET = {"quick": 70, "thorough": 600}
ROUNDS = {"thorough": 16}
FLOORS = {"after_update_comparisons": {"quick": 500, "thorough": 5000}, "overlay.C04.p_t_judged": {"quick": 100, "thorough": 1500}, "expm_comparisons": 50, "identity_checks": 50, "kinds": 9, "short_branch_derivatives": {"quick": 1500, "thorough": 8000}}

# SHA-256 of ("%.6f," per value) of the empirical tables at the baseline commit
EMPIRICAL_SHA = {
    "LG": "d9e80c4e69a49f7a",
    "WAG": "32dbe19f83146829",
}

TS = [0.0, 1e-8, 1e-6, 1e-4, 1e-3, 1e-2, 0.03, 0.1, 0.3, 1.0, 3.0, 10.0, 30.0, 100.0]


def _cases(tier, seed):
    rng = np.random.default_rng([seed, 4])
    n = {"quick": 900, "thorough": 12000}[tier]
    out = []
    # MG94 for every genetic code at least once per run
    for code in ctmc.GENETIC_CODES:
        s = gm.random_subst(rng, "MG94", extreme=bool(rng.random() < 0.5))
        s["code"] = code
        sense, _ = ctmc.genetic_code(code)
        s["pi"] = gm.dirichlet(rng, len(sense), 1.0, 1e-3)
        out.append({"spec": s, "ts": _ts(rng), "batch": 0})
    w = {"JC69": 1, "HKY": 6, "GTR": 8, "GeneralJC69": 2, "GenSym": 8, "GenNonSym": 8, "LG": 1, "WAG": 1, "MG94": 1}
    kinds = [k for k, c in w.items() for _ in range(c)]
    for i in range(n):
        kind = kinds[i % len(kinds)]
        s = gm.random_subst(rng, kind, extreme=bool(rng.random() < 0.6))
        batch = int(rng.choice([0, 0, 1, 2, 3]))
        if kind in ("JC69", "GeneralJC69", "LG", "WAG"):
            batch = 0
        out.append({"spec": s, "ts": _ts(rng), "batch": batch, "batch_subset": [bool(rng.random() < 0.5) for _ in range(4)]})
    return out


def _ts(rng):
    k = int(rng.integers(2, 6))
    ts = [float(x) for x in rng.choice(TS, size=k)]
    ts.append(float(np.exp(rng.uniform(np.log(1e-8), np.log(100.0)))))
    ts.append(0.0)
    return ts


def _table_sha(vals):
    return hashlib.sha256(",".join("%.6f" % float(v) for v in vals).encode()).hexdigest()[:16]


def _tol(pi, reversible):
    # expm comparison: 1e-8 abs in the moderate range; conditioning of the symmetrisation otherwise
    if pi is None:
        return 1e-8
    cond = float(np.sqrt(max(pi) / min(pi)))
    return max(1e-8, 1e3 * 2.2e-16 * cond * 1e3)


def _run_case(case):
    import torch

    spec = case["spec"]
    kind = spec["kind"]
    V = []
    C = {"kinds": [kind], "identity_checks": 0, "expm_comparisons": 0, "oracle_disagreements": 0,
         "builder_comparisons": 0, "batched_slices": 0}
    if kind == "MG94":
        C["codes"] = [spec["code"]]
    (model), dic = tt.load(gm.subst_json(spec))
    S = gm.n_states(spec)
    pi_lib = model.frequencies.detach().numpy().astype(float)
    q_lib = model.q().detach().numpy().astype(float)
    if q_lib.ndim > 2:
        q_lib = q_lib.reshape(q_lib.shape[-2:])
    scale = max(1.0, float(np.abs(q_lib).max()))
    # --- rate matrix well-formedness
    rs = np.abs(q_lib.sum(-1)).max()
    if not rs <= 1e-10 * scale:
        V.append(tt.viol("C04:q:rowsum:" + kind, "rows of q() do not sum to zero (max |sum| %.3g)" % rs, spec=spec))
    off = q_lib - np.diag(np.diag(q_lib))
    if off.min() < 0:
        V.append(tt.viol("C04:q:negative-offdiag:" + kind, "negative off-diagonal rate %.3g" % off.min(), spec=spec))
    if abs(pi_lib.sum() - 1) > 1e-5:
        V.append(tt.viol("C04:pi:sum:" + kind, "frequencies sum to %.8g" % pi_lib.sum(), spec=spec))
    # --- rate-matrix builder against the independently written Q
    emp = None
    if kind in ("LG", "WAG"):
        rates_tab = model._rates.detach().numpy().astype(float)
        emp = (rates_tab, pi_lib)
        sha = _table_sha(list(rates_tab) + list(pi_lib))
        C["empirical_sha_" + kind] = [sha]
        pinned = EMPIRICAL_SHA.get(kind)
        if pinned is not None and sha != pinned:
            V.append(tt.viol("C04:empirical-table:" + kind, "empirical %s table differs from the pinned data (%s != %s)" % (kind, sha, pinned)))
    q_ref, pi_ref = gm.ref_q(spec, emp)
    C["builder_comparisons"] += 1
    if np.abs(pi_ref - pi_lib).max() > 1e-12:
        V.append(tt.viol("C04:pi:mismatch:" + kind, "model frequencies differ from the specified ones", spec=spec))
    dq = np.abs(q_ref - q_lib).max()
    if not dq <= 1e-9 * scale:
        ij = np.unravel_index(np.argmax(np.abs(q_ref - q_lib)), q_lib.shape)
        V.append(tt.viol("C04:q:builder:" + kind, "q() differs from the documented rate matrix at %s: lib %.6g ref %.6g" % (ij, q_lib[ij], q_ref[ij]), spec=spec))
    # --- P(t)
    norm = -(pi_lib * np.diag(q_lib)).sum()
    Qn = q_lib / norm
    Qn_ref = ctmc.normalise(q_ref, pi_ref)
    ts = case["ts"]
    tt_ = torch.tensor(ts, dtype=torch.float64)
    P = model.p_t(tt_.reshape(-1, 1)).detach().numpy()  # [T,1,S,S] as the likelihood passes [branches,K]
    if P.shape != (len(ts), 1, S, S):
        V.append(tt.viol("C04:p_t:shape:" + kind, "p_t returned shape %s for t of shape [%d,1]" % (P.shape, len(ts)), spec=spec))
        return {"violations": V, "counters": C, "fingerprint": None}
    P = P[:, 0]
    rev = gm.reversible(spec)
    tol = _tol(pi_lib, rev)
    nontrivial = False
    qnorm = float(np.abs(Qn).sum(-1).max())
    cond2 = float(max(pi_lib) / min(pi_lib))
    for i, t in enumerate(ts):
        Pi = P[i]
        C["identity_checks"] += 1
        if not np.all(np.isfinite(Pi)):
            V.append(tt.viol("C04:p_t:nonfinite:" + kind, "non-finite P(t=%g)" % t, spec=spec, t=t))
            continue
        # identities on the library's own output: 1e-9 in the moderate range; in the extreme corner of the quantifier (rates up to 1e4
        # with t up to 100, frequencies down to 1e-6) what double precision arithmetic can deliver: the round-off of any exp(Qt)
        # grows with ||Q|| t, that of the symmetrised eigendecomposition with max(pi)/min(pi)
        tol_id = max(1e-9, 100 * 2.2e-16 * qnorm * t, 1e2 * 2.2e-16 * cond2)
        if np.abs(Pi.sum(-1) - 1).max() > tol_id:
            V.append(tt.viol("C04:p_t:rowsum:" + kind, "row of P(%g) sums to 1%+.3g" % (t, np.abs(Pi.sum(-1) - 1).max()), spec=spec, t=t))
        if Pi.min() < -tol_id:
            V.append(tt.viol("C04:p_t:negative:" + kind, "P(%g) has entry %.3g" % (t, Pi.min()), spec=spec, t=t))
        if t == 0.0 and np.abs(Pi - np.eye(S)).max() > 1e-9:
            V.append(tt.viol("C04:p_t:P0:" + kind, "P(0) != I (max dev %.3g)" % np.abs(Pi - np.eye(S)).max(), spec=spec))
        if rev:
            if np.abs(pi_lib @ Pi - pi_lib).max() > tol_id:
                V.append(tt.viol("C04:p_t:stationarity:" + kind, "pi P(%g) != pi (%.3g)" % (t, np.abs(pi_lib @ Pi - pi_lib).max()), spec=spec, t=t))
            F = pi_lib[:, None] * Pi
            if np.abs(F - F.T).max() > tol_id:
                V.append(tt.viol("C04:p_t:detailed-balance:" + kind, "pi_i P_ij != pi_j P_ji at t=%g (%.3g)" % (t, np.abs(F - F.T).max()), spec=spec, t=t))
        # comparison with the matrix exponential
        E1 = ctmc.p_t(Qn, t)
        E2 = ctmc.p_t_sym(Qn, pi_lib, t) if rev else ctmc.p_t(Qn * (t / 2), 1.0) @ ctmc.p_t(Qn * (t / 2), 1.0)
        if np.abs(E1 - E2).max() > 1e-10:
            C["oracle_disagreements"] += 1
        else:
            C["expm_comparisons"] += 1
            d = np.abs(Pi - E1).max()
            if d > tol:
                V.append(tt.viol("C04:p_t:expm:" + kind, "P(%g) differs from expm(t Q/norm) by %.3g (tol %.2g)" % (t, d, tol), spec=spec, t=t))
            E3 = ctmc.p_t(Qn_ref, t)
            d3 = np.abs(Pi - E3).max()
            if d3 > max(tol, 1e-7) and dq <= 1e-9 * scale:
                V.append(tt.viol("C04:p_t:expm-ref:" + kind, "P(%g) differs from expm of the reference-built Q by %.3g" % (t, d3), spec=spec, t=t))
        if t > 0:
            nontrivial = True
    # semigroup on the library's own output
    if len(ts) >= 2:
        s_, t_ = ts[0], ts[-2]
        Pst = model.p_t(torch.tensor([[s_ + t_]], dtype=torch.float64)).detach().numpy()[0, 0]
        C["identity_checks"] += 1
        d = np.abs(Pst - P[0] @ P[len(ts) - 2]).max()
        if d > max(1e-9, 100 * 2.2e-16 * qnorm * (s_ + t_), 1e2 * 2.2e-16 * cond2):
            V.append(tt.viol("C04:p_t:semigroup:" + kind, "P(s+t) != P(s)P(t) for s=%g t=%g (%.3g)" % (s_, t_, d), spec=spec))
    # normalisation: one expected substitution per unit time
    rate = -(pi_lib * np.diag(Qn)).sum()
    dP = (model.p_t(torch.tensor([[1e-6]], dtype=torch.float64)).detach().numpy()[0, 0] - np.eye(S)) / 1e-6
    flux = -(pi_lib * np.diag(dP)).sum()
    C["identity_checks"] += 1
    if abs(flux - 1.0) > 1e-4 * max(1.0, float(np.abs(Qn).max())):
        V.append(tt.viol("C04:p_t:normalisation:" + kind, "expected substitution rate under pi is %.8g, not 1" % flux, spec=spec))
    # the short-branch end: (P(t) - I) / t is Q for t far below 1 / |Q| - entry by entry, which an absolute comparison of P(t) with the
    # matrix exponential cannot see (the off-diagonal entries are of the size of t)
    for t0 in (1e-10, 1e-13, 1e-16):
        D0 = (model.p_t(torch.tensor([[t0]], dtype=torch.float64)).detach().numpy()[0, 0] - np.eye(S)) / t0
        C["short_branch_derivatives"] = C.get("short_branch_derivatives", 0) + 1
        qmax = float(np.abs(Qn).max())
        slack = 1e-6 * qmax + 1e3 * 2.2e-16 * cond2 * qmax + t0 * float(np.abs(Qn @ Qn).max())
        off = ~np.eye(S, dtype=bool)
        d0 = np.abs(D0 - Qn)[off].max()
        if not d0 <= slack:
            V.append(tt.viol("C04:p_t:short-branch:" + kind, "(P(t) - I)/t at t=%g differs from Q off the diagonal by %.3g (largest rate %.3g)" % (t0, d0, qmax), spec=spec, t=t0))
            break
    # --- after an update of some of the parameters through the public interface, p_t is that of the updated model
    names_u = {"HKY": ["kappa", "pi"], "GTR": ["rates", "pi"], "GenSym": ["rates", "pi"], "GenNonSym": ["rates", "pi"], "MG94": ["alpha", "beta", "kappa", "pi"]}.get(kind)
    if names_u and not V:
        rng_u = np.random.default_rng(abs(hash("u" + str(spec))) % (2**32))
        for round_ in range(2):
            s2 = gm.random_subst(rng_u, kind, extreme=False, states=spec.get("k"))
            sub = [nm for nm in names_u if rng_u.random() < 0.5] or [names_u[int(rng_u.integers(len(names_u)))]]
            cur = dict(spec) if round_ == 0 else cur
            for nm in sub:
                val = s2[nm]
                if nm == "rates" and kind in ("GenSym", "GenNonSym"):
                    val = gm.loguniform(rng_u, 0.05, 20, len(spec["rates"])).tolist()
                if nm == "pi" and kind == "MG94":
                    val = gm.dirichlet(rng_u, S, 1.0, 5e-3)
                val = val if isinstance(val, list) else [val]
                dic["sm." + nm].tensor = torch.tensor(val, dtype=torch.float64)
                cur[nm] = val if nm in ("rates", "pi") else val[0]
            q2, pi2 = gm.ref_q(cur, emp)
            Q2 = ctmc.normalise(q2, pi2)
            tu = [t for t in ts if t > 0][:2] + [0.0]
            Pu = model.p_t(torch.tensor(tu, dtype=torch.float64).reshape(-1, 1)).detach().numpy()
            C["after_update_comparisons"] = C.get("after_update_comparisons", 0) + 1
            for i, t in enumerate(tu):
                E = ctmc.p_t(Q2, t)
                d = np.abs(Pu[i, 0] - E).max()
                if d > 10 * _tol(list(pi2), rev):
                    V.append(tt.viol("C04:p_t:after-update:" + kind, "after updating %s, P(%g) differs from expm of the updated model's rate matrix by %.3g" % ("+".join(sub), t, d), spec=cur, updated=sub))
                    break
            if V:
                break
    # --- batched parameters: slice b of the batched model equals the unbatched model
    B = case.get("batch", 0)
    if B:
        rng = np.random.default_rng(abs(hash(str(spec))) % (2**32))
        specs = [spec] + [gm.random_subst(rng, kind, extreme=False, states=spec.get("k")) for _ in range(B - 1)]
        for s2 in specs[1:]:
            for key in ("mapping", "code", "k"):
                if key in spec:
                    s2[key] = spec[key]
            if kind in ("GenSym", "GenNonSym"):
                s2["rates"] = gm.loguniform(rng, 0.05, 20, len(spec["rates"])).tolist()
            if kind == "MG94":
                s2["pi"] = gm.dirichlet(rng, S, 1.0, 5e-3)
        names = {"HKY": ["kappa", "pi"], "GTR": ["rates", "pi"], "GenSym": ["rates", "pi"], "GenNonSym": ["rates", "pi"],
                 "MG94": ["alpha", "beta", "kappa", "pi"]}[kind]
        # every / some of the parameters carry the sample dimension (the others stay shared, one- dimensional)
        subset = [nm for nm, on in zip(names, case.get("batch_subset", [])) if on] or names
        for s2 in specs[1:]:
            for nm in names:
                if nm not in subset:
                    s2[nm] = spec[nm]
        C["batched_subsets"] = ["+".join(subset) if len(subset) < len(names) else "all"]
        batch = {}
        for nm in subset:
            vals = [s2[nm] if isinstance(s2[nm], list) else [s2[nm]] for s2 in specs]
            batch[nm] = vals
        try:
            mb, _ = tt.load(gm.subst_json(spec, batch=batch))
            tb = torch.tensor(ts[:3], dtype=torch.float64).reshape(1, -1, 1).expand(B, -1, 1)
            Pb = mb.p_t(tb).detach().numpy()
        except Exception as e:  # declining a shape is accepted by C10; here it is only recorded
            C["batched_raised"] = 1
            Pb = None
        if Pb is not None:
            for bi, s2 in enumerate(specs):
                m1, _ = tt.load(gm.subst_json(s2))
                P1 = m1.p_t(torch.tensor(ts[:3], dtype=torch.float64).reshape(-1, 1)).detach().numpy()
                C["batched_slices"] += 1
                if Pb.shape[0] != B or np.abs(Pb[bi] - P1).max() > 1e-10:
                    V.append(tt.viol("C04:p_t:batched:" + kind, "batched p_t slice %d differs from the unbatched model" % bi, spec=s2))
                    break
    fp = None
    if nontrivial and kind not in ("JC69", "GeneralJC69"):
        fp = kind + ":" + hashlib.md5(repr(sorted((k, np.round(v, 6).tolist() if isinstance(v, (list, float)) else v) for k, v in spec.items())).encode()).hexdigest()[:12]
    elif nontrivial:
        fp = kind + ":" + str(spec.get("k", 4))
    sample = {"spec": {k: (v if not isinstance(v, list) or len(v) <= 8 else v[:8] + ["..."]) for k, v in spec.items()}, "ts": ts, "batch": B}
    return {"violations": V, "counters": C, "fingerprint": fp, "sample": sample}


# ---------------------------------------------------------------- the same invariants as an overlay on realistic workloads
def cases(tier, seed):
    """the property's own generator plus the shared workloads (configurations emitted by torchtree-cli, loaded, evaluated and
    really run for a few iterations; in thorough also the repository's own test-suite) with this property's contracts attached"""
    from ..work import shared

    return shared.overlay_cases(tier, seed, PROPERTY) + _cases(tier, seed)


def run_case(case):
    if isinstance(case, dict) and "overlay" in case:
        from ..work import shared

        return shared.run_overlay_case(case, PROPERTY)
    return _run_case(case)
