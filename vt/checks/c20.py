"""C20 - smoothing / integrated priors and sufficient statistics match their densities.

Identity monitor: (1) GMRF() against the Gaussian quadratic form built from the matrix the model publishes with
precision_matrix() (plain, weighted, time-aware +- rescale); (2) GMRFGammaIntegrated and
ConstantCoalescentIntegrated against mpmath quadrature of the product of the library's own non-integrated densities;
(3) sufficient statistics / coalescent counts of the piecewise-constant coalescents against their log density."""
from __future__ import annotations

import math

import mpmath as mp
import numpy as np

from .. import tt
from ..gen import models as gm
from ..ref import kingman as kg
from . import c08

PROPERTY = "C20"
LEVEL = "exploration"
RULE = ("cases = {GMRF quadratic form (plain / weights / time-aware / time-aware without rescaling), GMRF-gamma integrated, constant "
        "coalescent inverse-gamma integrated, skyride statistics, skygrid statistics} x field length 2..50 / trees 3..40 tips with serial "
        "sampling and ties x precision, gamma hyper-parameters log-uniform x single / batched; non-trivial = field length >= 3 or "
        ">= 3 tips; distinct by (kind, variant, seed)")
ASSUMPTIONS = [
    "integrated priors are compared with tanh-sinh quadrature (mpmath, 30 digits) of exp(library log density) x hyper-prior density over log precision / log size; compared at 1e-8 relative",
    "the library's non-integrated constant coalescent is anchored to the exact Kingman reference of C08 in the same run",
]
BUDGET = {"quick": 80, "thorough": 1800}
ROUNDS = {"thorough": 8}
FLOORS = {"grid_point_on_a_coalescent_time": {"quick": 20, "thorough": 200}, "reparameterised_trees": {"quick": 20, "thorough": 200}, "batched_tree_checks": {"quick": 8, "thorough": 80}, "after_tree_change_checks": {"quick": 100, "thorough": 1000}, "batched_heights": {"quick": 30, "thorough": 300}, "quadratic_form_checks": {"quick": 300, "thorough": 3000}, "quadrature_checks": {"quick": 100, "thorough": 800},
          "statistics_checks": {"quick": 250, "thorough": 2500}, "variants": 4}

KINDS = ["gmrf-quadratic", "gmrf-quadratic", "gmrf-integrated", "coalescent-integrated", "skyride-statistics", "skygrid-statistics", "skygrid-statistics"]
VARIANTS = ["plain", "weights", "time-aware", "time-aware-no-rescale"]


def cases(tier, seed):
    rng = np.random.default_rng([seed, 20])
    n = {"quick": 1100, "thorough": 10000}[tier]
    out = []
    for i in range(n):
        kind = KINDS[i % len(KINDS)]
        out.append({"kind": kind, "variant": VARIANTS[(i // len(KINDS)) % 4], "seed": int(rng.integers(2**31)),
                    "batch": int(rng.choice([0, 0, 0, 2, 3])), "n": int(rng.choice([3, 4, 5, 6, 8, 12, 20, 40])),
                    "scheme": str(rng.choice(["iso", "serial", "ties", "clusters"]))})
    return out


def gmrf_setup(case, rng, integrated=False):
    """-> (spec list, dic keys, numbers)"""
    var = case["variant"]
    B = case["batch"]
    spec = []
    numbers = {}
    if var.startswith("time-aware"):
        n = case["n"]
        s = c08.sampling(rng, n, case["scheme"])
        c = kg.simulate(rng, s, float(gm.loguniform(rng, 0.1, 10)))
        if case["seed"] % 3 == 0:
            # a reparameterised time tree (ratios + root height, or height increments): what torchtree-cli builds; its internal
            # parameter vector is not a vector of heights
            from ..gen import phylo, timetree as gt
            from ..ref import tree as rt

            tc = gt.make_case(rng, rt.random_topology(n, rng), ["ratio", "shift"][case["seed"] % 2], None, 0)
            spec += [phylo.taxa_json(tc), gt.tree_json(tc)]
            numbers["reparameterised_tree"] = tc["param"]
        else:
            tree_spec, ih = c08.tree_entry(None, {"sampling": s, "coalescent": c}, None, rng)
            spec += tree_spec
        dim = n - 1
        numbers.update(sampling=s, coalescent=c)
    else:
        dim = int(rng.integers(2, 51))
    shape = (B, dim) if B else (dim,)
    field = rng.normal(0, 2.0, shape)
    numbers["field"] = field.tolist()
    j = {"id": "gmrf", "type": "GMRFGammaIntegrated" if integrated else "GMRF", "x": gm.param("gmrf.field", field.tolist(), dtype="torch.float64")}
    if integrated:
        j["shape"] = float(gm.loguniform(rng, 1e-3, 1e2))
        j["rate"] = float(gm.loguniform(rng, 1e-3, 1e2))
        numbers.update(shape=j["shape"], rate=j["rate"])
    else:
        tau = gm.loguniform(rng, 1e-3, 1e3, (B, 1) if B else (1,))
        j["precision"] = gm.param("gmrf.precision", tau.tolist(), dtype="torch.float64")
        numbers["precision"] = tau.tolist()
    if var.startswith("time-aware"):
        j["tree_model"] = "tree"
        if var.endswith("no-rescale"):
            j["rescale"] = False
    elif var == "weights":
        w = gm.loguniform(rng, 0.05, 5.0, dim - 1)
        j["weights"] = gm.param("gmrf.weights", w.tolist(), dtype="torch.float64")
        numbers["weights"] = w.tolist()
    spec.append(j)
    return spec, numbers, dim


def run_case(case):
    import torch

    V = []
    kind, var = case["kind"], case["variant"]
    C = {"quadratic_form_checks": 0, "quadrature_checks": 0, "statistics_checks": 0, "kingman_anchor_checks": 0, "kinds": [kind], "variants": []}
    rng = np.random.default_rng(case["seed"])
    B = case["batch"]
    detail = {"case": case}
    nontrivial = True
    if kind == "gmrf-quadratic":
        C["variants"] = [var]
        spec, numbers, dim = gmrf_setup(case, rng)
        detail["numbers"] = numbers
        if numbers.get("reparameterised_tree"):
            C["reparameterised_trees"] = 1
        objs, dic = tt.load(spec)
        g = dic["gmrf"]
        val = tt.as_np(g(), "C20:not-a-tensor:gmrf", "GMRF()")
        Q = tt.as_np(g.precision_matrix(), "C20:not-a-tensor:precision_matrix", "precision_matrix()")
        x = np.asarray(numbers["field"], dtype=float)
        tau = np.asarray(numbers["precision"], dtype=float)
        rows = range(B) if B else [None]
        exp_shape = (B, 1) if B else (1,)
        if tuple(val.shape) != exp_shape or tuple(Q.shape) != ((B, dim, dim) if B else (dim, dim)):
            V.append(tt.viol("C20:gmrf:shape:" + var, "GMRF() has shape %s, precision_matrix() %s (field %s)" % (val.shape, Q.shape, x.shape), **detail))
        else:
            for r in rows:
                xr = x if r is None else x[r]
                Qr = Q if r is None else Q[r]
                tr = float(tau[0]) if r is None else float(tau[r, 0])
                quad = 0.5 * (dim - 1) * math.log(tr) - 0.5 * float(xr @ Qr @ xr) - 0.5 * (dim - 1) * math.log(2 * math.pi)
                got = float(val[0]) if r is None else float(val[r, 0])
                C["quadratic_form_checks"] += 1
                sym = np.abs(Qr - Qr.T).max()
                rowsum = np.abs(Qr.sum(-1)).max()
                if sym > 1e-12 * np.abs(Qr).max() or rowsum > 1e-9 * np.abs(Qr).max():
                    V.append(tt.viol("C20:gmrf:precision-matrix-structure:" + var, "published precision matrix is not a symmetric intrinsic (zero row sum) matrix: asym %.3g rowsum %.3g" % (sym, rowsum), **detail))
                    break
                if abs(got - quad) > 1e-9 * max(1.0, abs(quad)):
                    V.append(tt.viol("C20:gmrf:quadratic-form:" + var, "GMRF() = %.12g but the quadratic form of the published precision matrix gives %.12g (%s, dim %d)" % (got, quad, var, dim), row=r, **detail))
                    break
        if var.startswith("time-aware") and not V and "tree.heights" in dic:
            # the tree moves (all internal heights stretched; field and precision untouched): both the density and the published
            # precision matrix are those of the new tree
            f = float(rng.uniform(1.2, 3.0))
            dic["tree.heights"].tensor = dic["tree.heights"].tensor * f
            val2 = tt.as_np(g(), "C20:not-a-tensor:gmrf", "GMRF()")
            Q2 = tt.as_np(g.precision_matrix(), "C20:not-a-tensor:precision_matrix", "precision_matrix()")
            for r in rows:
                xr = x if r is None else x[r]
                Qr = Q2 if r is None else Q2[r]
                tr = float(tau[0]) if r is None else float(tau[r, 0])
                quad = 0.5 * (dim - 1) * math.log(tr) - 0.5 * float(xr @ Qr @ xr) - 0.5 * (dim - 1) * math.log(2 * math.pi)
                got = float(val2[0]) if r is None else float(val2[r, 0])
                C["quadratic_form_checks"] += 1
                C["after_tree_change_checks"] = C.get("after_tree_change_checks", 0) + 1
                if abs(got - quad) > 1e-9 * max(1.0, abs(quad)):
                    V.append(tt.viol("C20:gmrf:quadratic-form-after-tree-change:" + var, "after the tree's heights changed GMRF() = %.12g but the quadratic form of the published precision matrix gives %.12g (%s, dim %d)" % (got, quad, var, dim), row=r, **detail))
                    break
            if var.endswith("no-rescale") and not V and dim >= 2 and np.abs(Q2 - Q).max() == 0:
                V.append(tt.viol("C20:gmrf:precision-matrix-ignores-tree-change:" + var, "the published precision matrix did not change when all internal heights were stretched by %.3g" % f, **detail))
        if var.startswith("time-aware") and not V and "tree.heights" in dic and B in (0, 2):
            # a batch of two trees with different root heights (field and precision as they are): every member against the published
            # precision matrix of that member, and against the same tree evaluated on its own
            h0 = dic["tree.heights"].tensor.detach().clone()
            f2 = float(rng.uniform(1.3, 2.5))
            trees = torch.stack([h0, h0 * f2])
            dic["tree.heights"].tensor = trees
            try:
                val3 = tt.as_np(g(), "C20:not-a-tensor:gmrf", "GMRF()")
                Q3 = tt.as_np(g.precision_matrix(), "C20:not-a-tensor:precision_matrix", "precision_matrix()")
                declined = False
            except Exception as e:
                from ..worker import _blame

                if _blame(e) is None:
                    raise
                declined = True
                C["batched_trees_declined"] = 1  # an unsupported shape that fails with an error is accepted
            if not declined:
                C["batched_tree_checks"] = 1
                if val3.reshape(-1).shape[0] != 2 or Q3.shape != (2, dim, dim):
                    V.append(tt.viol("C20:gmrf:shape:batched-trees:" + var, "two trees: GMRF() has shape %s, precision_matrix() %s" % (val3.shape, Q3.shape), **detail))
                else:
                    for r in range(2):
                        xr = x if not B else x[r]
                        tr = float(tau[0]) if not B else float(tau[r, 0])
                        quad = 0.5 * (dim - 1) * math.log(tr) - 0.5 * float(xr @ Q3[r] @ xr) - 0.5 * (dim - 1) * math.log(2 * math.pi)
                        got = float(val3.reshape(-1)[r])
                        C["quadratic_form_checks"] += 1
                        if abs(got - quad) > 1e-9 * max(1.0, abs(quad)):
                            V.append(tt.viol("C20:gmrf:quadratic-form:batched-trees:" + var, "batch of two trees, member %d: GMRF() = %.12g but the quadratic form of the published precision matrix of that member gives %.12g (dim %d)" % (r, got, quad, dim), row=r, **detail))
                            break
                    if not V and not B:
                        for r in range(2):
                            dic["tree.heights"].tensor = trees[r].clone()
                            alone = float(tt.as_np(g(), "C20:not-a-tensor:gmrf", "GMRF()").reshape(-1)[0])
                            if abs(alone - float(val3.reshape(-1)[r])) > 1e-9 * max(1.0, abs(alone)):
                                V.append(tt.viol("C20:gmrf:batched-trees-differ-from-single:" + var, "batch of two trees, member %d: %.12g, the same tree on its own %.12g" % (r, float(val3.reshape(-1)[r]), alone), row=r, **detail))
                                break
        nontrivial = dim >= 3
    elif kind == "gmrf-integrated":
        C["variants"] = [var]
        case = dict(case)
        case["batch"] = 0
        spec, numbers, dim = gmrf_setup(case, rng, integrated=True)
        detail["numbers"] = numbers
        objs, dic = tt.load(spec)
        got = float(tt.as_np(dic["gmrf"](), "C20:not-a-tensor:gmrf-integrated").reshape(-1)[0])
        # the non-integrated density of the same variant, as a function of the precision
        spec2 = [dict(e) for e in spec]
        j = dict(spec2[-1])
        j["type"] = "GMRF"
        j.pop("shape"), j.pop("rate")
        j["precision"] = gm.param("gmrf.precision", [1.0], dtype="torch.float64")
        spec2[-1] = j
        objs2, dic2 = tt.load(spec2)
        g2, prec = dic2["gmrf"], dic2["gmrf.precision"]
        a, b = numbers["shape"], numbers["rate"]

        def log_integrand(u):  # u = log tau
            t = math.exp(u)
            prec.tensor = torch.tensor([t], dtype=torch.float64)
            lg = float(g2().reshape(-1)[0])
            return lg + a * math.log(b) - math.lgamma(a) + (a - 1) * u - b * t + u

        ref = log_quad(log_integrand)
        if var.startswith("time-aware") and "tree" in dic:
            # the time-aware weights are the gaps between consecutive node heights: where the tree has (nearly) collapsed - gaps below 1e-6 of
            # its height, which extreme ratios of a reparameterised tree produce - the weights span 20 and more orders of magnitude and
            # neither the closed form nor the quadrature of the library's own density has eight digits: not judged
            hs_ = np.sort(tt.as_np(dic["tree"].node_heights, "C20:not-a-tensor").reshape(-1))
            gaps_ = np.diff(hs_[hs_ > 0]) if np.any(hs_ > 0) else np.array([1.0])
            if len(gaps_) and gaps_.min() < 1e-6 * hs_.max():
                C["collapsed_trees_not_judged"] = C.get("collapsed_trees_not_judged", 0) + 1
                ref = None
        C["quadrature_checks"] += 1
        if ref is not None and abs(got - ref) > 1e-8 * max(1.0, abs(ref)):
            V.append(tt.viol("C20:gmrf-integrated:" + var, "GMRFGammaIntegrated() = %.12g, quadrature of GMRF x Gamma over the precision gives %.12g (%s, dim %d, shape %.4g rate %.4g)" % (got, ref, var, dim, a, b), **detail))
        # the same prior with a batch of fields: each row against its own unbatched evaluation (which the quadrature above anchors)
        if not V and not var.startswith("time-aware"):
            Bf = int(rng.integers(2, 5))
            rows = rng.normal(0, 2.0, (Bf, dim))
            jb = dict(spec[-1])
            jb["x"] = gm.param("gmrf.field", rows.tolist(), dtype="torch.float64")
            try:
                _, dicb = tt.load([dict(e) for e in spec[:-1]] + [jb])
                vb = tt.as_np(dicb["gmrf"](), "C20:not-a-tensor:gmrf-integrated").reshape(-1)
            except Exception as e:
                from ..worker import _blame

                if _blame(e) is None:
                    raise
                vb = None
                C["batched_integrated_declined"] = 1
            if vb is not None:
                for r in range(Bf):
                    j1 = dict(spec[-1])
                    j1["x"] = gm.param("gmrf.field", rows[r].tolist(), dtype="torch.float64")
                    _, dic1 = tt.load([dict(e) for e in spec[:-1]] + [j1])
                    v1 = float(tt.as_np(dic1["gmrf"](), "C20:not-a-tensor:gmrf-integrated").reshape(-1)[0])
                    C["batched_integrated_rows"] = C.get("batched_integrated_rows", 0) + 1
                    if vb.shape[0] != Bf or abs(vb[r] - v1) > 1e-10 * max(1.0, abs(v1)):
                        V.append(tt.viol("C20:gmrf-integrated:batched:" + var, "GMRFGammaIntegrated on a batch of %d fields of length %d: row %d gives %s, the same field alone %.12g" % (Bf, dim, r, vb[r] if r < len(vb) else None, v1), **detail))
                        break
        nontrivial = dim >= 3
    elif kind == "coalescent-integrated":
        n = case["n"]
        s = c08.sampling(rng, n, case["scheme"])
        c = kg.simulate(rng, s, float(gm.loguniform(rng, 0.1, 10)))
        a, b = float(gm.loguniform(rng, 1e-3, 1e2)), float(gm.loguniform(rng, 1e-3, 1e2))
        detail["numbers"] = {"sampling": s, "coalescent": c, "alpha": a, "beta": b}
        tree_spec, ih = c08.tree_entry(None, {"sampling": s, "coalescent": c}, None, rng)
        objs, dic = tt.load(tree_spec + [{"id": "ci", "type": "ConstantCoalescentIntegratedModel", "tree_model": "tree", "alpha": a, "beta": b},
                                         {"id": "cc", "type": "ConstantCoalescentModel", "tree_model": "tree", "theta": gm.param("cc.theta", [1.0], dtype="torch.float64")}])
        got = float(tt.as_np(dic["ci"](), "C20:not-a-tensor:coalescent-integrated").reshape(-1)[0])
        cc, theta = dic["cc"], dic["cc.theta"]
        # anchor the library's constant coalescent to the exact Kingman reference
        th0 = float(gm.loguniform(rng, 1e-2, 1e2))
        theta.tensor = torch.tensor([th0], dtype=torch.float64)
        lib0 = float(cc().reshape(-1)[0])
        ref0 = float(kg.log_density(s, c, kg.constant(th0)))
        C["kingman_anchor_checks"] += 1
        if abs(lib0 - ref0) > 1e-9 * max(1.0, abs(ref0)):
            V.append(tt.viol("C20:constant-coalescent-anchor", "constant coalescent %.12g differs from the Kingman reference %.12g (see C08)" % (lib0, ref0), **detail))

        def log_integrand(u):  # u = log theta, inverse-gamma(alpha, beta) prior on theta
            t = math.exp(u)
            theta.tensor = torch.tensor([t], dtype=torch.float64)
            lc = float(cc().reshape(-1)[0])
            return lc + a * math.log(b) - math.lgamma(a) - (a + 1) * u - b / t + u

        ref = log_quad(log_integrand)
        C["quadrature_checks"] += 1
        if ref is not None and abs(got - ref) > 1e-8 * max(1.0, abs(ref)):
            V.append(tt.viol("C20:coalescent-integrated", "ConstantCoalescentIntegrated = %.12g, quadrature of constant coalescent x inverse-gamma gives %.12g (n=%d, alpha %.4g beta %.4g)" % (got, ref, n, a, b), **detail))
    else:
        n = case["n"]
        s = c08.sampling(rng, n, case["scheme"])
        c = kg.simulate(rng, s, float(gm.loguniform(rng, 0.1, 10)))
        hs = torch.tensor(s + c, dtype=torch.float64)
        if kind == "skyride-statistics":
            from torchtree.evolution.coalescent import PiecewiseConstantCoalescent

            k = n - 1
            th = gm.loguniform(rng, 1e-2, 1e3, (B, k) if B else (k,))
            dist = PiecewiseConstantCoalescent(torch.tensor(th))
            tag = "skyride"
        else:
            from torchtree.evolution.coalescent import PiecewiseConstantCoalescentGrid

            G = int(rng.integers(1, 9))
            grid = c08.make_grid(rng, str(rng.choice(["regular", "irregular", "early", "beyond-root", "on-sampling-time"])), G, s, c)
            if case["seed"] % 4 == 1:
                # a grid point exactly on a coalescent time (integer dates with an integer grid, a cutoff that is a multiple of a node
                # height): to which epoch the event belongs is a convention, but density and statistics have to share it
                gi = int(rng.integers(len(grid)))
                grid[gi] = float(c[int(rng.integers(len(c)))])
                grid = sorted(set(grid))
                C["grid_point_on_a_coalescent_time"] = 1
            k = len(grid) + 1
            th = gm.loguniform(rng, 1e-2, 1e3, (B, k) if B else (k,))
            dist = PiecewiseConstantCoalescentGrid(torch.tensor(th), torch.tensor(grid, dtype=torch.float64))
            tag = "skygrid"
            detail["grid"] = grid
        detail["numbers"] = {"sampling": s, "coalescent": c, "theta": th.tolist()}
        if B and case["seed"] % 2 == 0:
            # every member of the batch has its own coalescent times (its own interleaving of sampling and coalescent events)
            cs = [c] + [kg.simulate(rng, s, float(gm.loguniform(rng, 0.1, 10))) for _ in range(B - 1)]
            hs = torch.tensor([s + cb for cb in cs], dtype=torch.float64)
            detail["numbers"]["coalescent_rows"] = cs
            C["batched_heights"] = 1
        try:
            lp = tt.as_np(dist.log_prob(hs), "C20:not-a-tensor:log_prob")
            ss, cnt = dist.sufficient_statistics(hs)
        except Exception as e:
            from ..worker import _blame

            if B and _blame(e) is not None:
                C["batched_statistics_declined"] = 1  # an unsupported shape that fails with an error is accepted
                return {"violations": V, "counters": C, "fingerprint": None, "sample": None}
            raise
        ss = tt.as_np(ss, "C20:not-a-tensor:sufficient_statistics").astype(float)
        cnt = tt.as_np(cnt, "C20:not-a-tensor:coalescent_counts").astype(float)
        rows = range(B) if B else [None]
        for r in rows:
            thr = th if r is None else th[r]
            try:
                ssr = np.broadcast_to(ss, th.shape)[r] if r is not None else ss
                cr = np.broadcast_to(cnt, th.shape)[r] if r is not None else cnt
                if ssr.shape != thr.shape or cr.shape != thr.shape:
                    raise ValueError
            except ValueError:
                V.append(tt.viol("C20:statistics:shape:%s:%s" % (tag, "batched" if B else "single"), "sufficient statistics %s / counts %s for theta %s" % (ss.shape, cnt.shape, th.shape), **detail))
                break
            recon = float(np.sum(-ssr / thr - cr * np.log(thr)))
            got = float(lp[r, 0]) if r is not None else float(lp[0])
            C["statistics_checks"] += 1
            if abs(cr.sum() - (n - 1)) > 0:
                V.append(tt.viol("C20:statistics:counts:%s:%s" % (tag, "batched" if B else "single"), "coalescent counts sum to %g for %d coalescent events" % (cr.sum(), n - 1), **detail))
                break
            if abs(recon - got) > 1e-9 * max(1.0, abs(got)):
                V.append(tt.viol("C20:statistics:identity:%s:%s" % (tag, "batched" if B else "single"), "sum(-ss/theta - c log theta) = %.12g but log_prob = %.12g (%s, n=%d, batch %s)" % (recon, got, tag, n, B or "[]"), row=r, **detail))
                break
    fp = "%s|%s|%d" % (kind, var if kind.startswith("gmrf") else "-", case["seed"]) if nontrivial else None
    sample = {"case": case} if not B and case["n"] <= 5 else None
    return {"violations": V, "counters": C, "fingerprint": fp, "sample": sample}


def log_quad(log_f):
    """log of int exp(log_f(u)) du over the real line, tanh-sinh quadrature around the mode."""
    # locate the mode on a coarse grid
    us = np.linspace(-40, 40, 161)
    vals = np.array([log_f(float(u)) for u in us])
    if not np.any(np.isfinite(vals)):
        return None
    i = int(np.nanargmax(np.where(np.isfinite(vals), vals, -np.inf)))
    m = float(vals[i])
    u0 = float(us[i])
    # the mode to two decimals (a sharply peaked integrand - large shape, many dimensions - is narrower than the coarse grid)
    fine = np.linspace(u0 - 0.5, u0 + 0.5, 21)
    fvals = np.array([log_f(float(u)) for u in fine])
    if np.any(np.isfinite(fvals)):
        k = int(np.nanargmax(np.where(np.isfinite(fvals), fvals, -np.inf)))
        if fvals[k] > m:
            m, u0 = float(fvals[k]), float(fine[k])
    mp.mp.dps = 30

    def f(u):
        v = log_f(float(u)) - m
        return mp.e ** v if v > -700 else mp.mpf(0)

    pts = [u0 - 60, u0 - 20, u0 - 8, u0 - 3, u0 - 1, u0, u0 + 1, u0 + 3, u0 + 8, u0 + 20, u0 + 60]
    # a tail that decays slowly (a gamma density of shape 0.01 in the log variable falls like exp(0.01 u)): the window is widened until the
    # integrand at its ends is below 1e-25 of the mode; if that takes more than 1e5 log units the reference is not used
    for side in (-1, 1):
        w = 60.0
        while log_f(u0 + side * w) - m > -58.0 and w < 1e5:
            w *= 2.0
            pts = ([u0 - w] + pts) if side < 0 else (pts + [u0 + w])
        if w >= 1e5:
            return None
    val = mp.quad(f, pts, maxdegree=8)
    if val <= 0:
        return None
    return m + float(mp.log(val))
