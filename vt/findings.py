"""known_findings.json matching, VIOLATION / KNOWN-FINDING classification, replay files.

known_findings.json (committed, read-only at run time) is a list of entries
  {"property": "C07", "key": "<mechanism signature>", "status": "known"|"fixed",
   "what": "...", "witness": "...", "commit": "<sha for fixed>"}
A violation carries a mechanism signature `sig`; it is a known finding iff an entry with
status "known" for the same property has key == sig (exact match only: a different
mechanism of the same property is still reported).  "fixed" entries suppress nothing.
"""
from __future__ import annotations

import json
import os
import re

HERE = os.path.dirname(os.path.dirname(os.path.abspath(__file__)))
KNOWN = os.path.join(HERE, "known_findings.json")


def load_known(prop):
    if not os.path.exists(KNOWN):
        return {}
    with open(KNOWN) as fp:
        data = json.load(fp)
    return {e["key"]: e for e in data if e.get("property") == prop and e.get("status") == "known"}


def classify(violations, known):
    new, hit = [], {}
    for v in violations:
        e = known.get(v["sig"])
        if e is not None:
            ent, n = hit.get(v["sig"], (e, 0))
            hit[v["sig"]] = (ent, n + 1)
        else:
            new.append(v)
    return new, hit


def write_replay(prop, violation, case, seed, tier):
    d = os.path.join(os.environ.get("VERIF_REPLAY_DIR") or os.path.join(HERE, "replays"), prop)
    os.makedirs(d, exist_ok=True)
    safe = re.sub(r"[^A-Za-z0-9_.=-]+", "_", violation["sig"])[:120]
    path = os.path.join(d, "%s-seed%d-%s.json" % (safe, seed, tier))
    with open(path, "w") as fp:
        json.dump({"property": prop, "seed": seed, "tier": tier, "case_index": violation.get("case_index"),
                   "violation": violation, "case": case}, fp, indent=1, default=repr)
    return os.path.relpath(path, HERE) if path.startswith(HERE) else path
