"""Thin access layer to the subject (torchtree): loading JSON as `torchtree.main` does."""
from __future__ import annotations

import copy
import importlib
import os
import sys

_registered = False


def subject_root():
    import torchtree

    return os.path.dirname(os.path.dirname(os.path.abspath(torchtree.__file__)))


def register_all():
    """What torchtree.main does before parsing: import every module so classes register."""
    global _registered
    if _registered:
        return
    from torchtree.core.utils import package_contents

    for module in sorted(package_contents("torchtree")):
        try:
            importlib.import_module(module)
        except Exception:  # optional plug-ins; main() would fail too, irrelevant for the cores used here
            pass
    _registered = True


def load(data, dic=None, as_main=True):
    """Instantiate a JSON specification (dict or list of top-level elements). Returns (objects, dic)."""
    from torchtree.core.utils import expand_plates, process_objects, remove_comments

    register_all()
    data = copy.deepcopy(data)
    if as_main:
        remove_comments(data)
        expand_plates(data)
    dic = {} if dic is None else dic
    if isinstance(data, list):
        objs = [process_objects(e, dic) for e in data]
    else:
        objs = process_objects(data, dic)
    return objs, dic


class SubjectError(Exception):
    """Raised by the harness when the subject returned something unusable (None, wrong type)."""

    def __init__(self, sig, msg):
        super().__init__(msg)
        self.sig = sig


def as_np(x, sig, what="value"):
    """Tensor returned by the subject -> numpy array; anything else is a violation of `sig`."""
    import torch

    if not isinstance(x, torch.Tensor):
        raise SubjectError(sig, "%s returned by the subject is %r, not a tensor" % (what, type(x).__name__))
    return x.detach().cpu().numpy()


def viol(sig, msg, **detail):
    return {"sig": sig, "msg": msg, "detail": detail}


def relerr(a, b):
    a = float(a)
    b = float(b)
    return abs(a - b) / max(1.0, abs(a), abs(b)) if (abs(a) < 1 or abs(b) < 1) else abs(a - b) / max(abs(a), abs(b))
